"""C03 Execution plans are valid, complete and minimal - termination of planning + one dependency relation."""
import re
from rulelib import *
from facts import op_int, op_local, op_place
import loaderlib as L
import callgraph

THOROUGH_CFGS = ('min_none', 'min_rten', 'min_onnx')   # reduced-feature builds of the rten crate (thorough tier)

EXPLANATION = (
    "Termination and dependency discipline of the planner (rten::graph::planner), decided for all graphs including "
    "cyclic and malformed ones: (cycle-guard) the only recursive cycle reachable from Planner::create_plan is "
    "PlanBuilder::visit, its recursive call is dominated by a negative active_set.contains(id) test on the very id it "
    "recurses into, whose positive edge cannot reach the recursion or the plan push, active_set.insert(op) dominates the "
    "recursion and active_set.remove(op) dominates the Ok exit; (worklist) in every loop whose exit test is emptiness of a "
    "worklist W, each iteration removes an element from W and every push into W inside the loop is dominated by a negative "
    "membership test on a set that the loop only grows and into which the popped element is inserted on every iteration - "
    "so the number of pushes is bounded by the number of operators; (progress) every other loop iterates a finite "
    "iterator; (one-relation) planner functions consult dependencies only through Graph::operator_dependencies, which "
    "chains operator inputs with subgraph captures. Does not decide that plans are complete/minimal for every DAG.")
ASSUMPTIONS = ["std HashSet/Vec semantics trusted", "graphs are finite (node ids index a finite table)"]

PL = 'rten::graph::planner::'
VISIT = PL + "PlanBuilder::<'a>::visit"
SORT = PL + "PlanBuilder::<'a>::sort_plan"
PLAN = PL + "PlanBuilder::<'a>::plan"
CREATE = PL + "Planner::<'a>::create_plan"
PRUNE = PL + "Planner::<'a>::prune_plan"
DEPS = 'rten::graph::Graph::operator_dependencies'
SET_CONTAINS = 're:HashSet::<T, S(, A)?>::contains$'
SET_INSERT = 're:HashSet::<T, S(, A)?>::insert$'
SET_REMOVE = 're:HashSet::<T, S(, A)?>::(remove|clear|drain|retain|take)$'


def root_local(f, op, depth=10):
    """local a (reference) operand ultimately designates"""
    p = op_place(op)
    if p is None:
        return None
    loc = p[0]
    for _ in range(depth):
        d = f.def_of_local(loc)
        if d is None or d[2] != 'rv':
            return loc
        rv = d[3]
        if rv[0] in ('ref', 'raw'):
            loc = rv[2][0]
        elif rv[0] == 'use' and rv[1][0] in ('c', 'm'):
            loc = rv[1][1][0]
        else:
            return loc
    return loc


RECV_THROUGH = ('re:::iter$', 're:::iter_mut$', 're:::deref$', 're:::deref_mut$', 're:::as_slice$', 're:::into_iter$', 're:::as_ref$', 're:::borrow$')


def receiver_root(f, op, depth=12):
    """(root local, [names of calls passed through]) of a receiver expression like `w.iter()` / `w.last()`"""
    p = op_place(op)
    if p is None:
        return None, []
    loc = p[0]
    chain = []
    for _ in range(depth):
        if str(loc) in f.names:
            return loc, chain      # a user variable: the receiver expression starts here
        d = f.def_of_local(loc)
        if d is None:
            return loc, chain
        if d[2] == 'call':
            c = d[3]
            chain.append((c.callee or '').split('::')[-1])
            if not c.args or op_place(c.args[0]) is None:
                return loc, chain
            loc = op_place(c.args[0])[0]
            continue
        rv = d[3]
        if rv[0] in ('ref', 'raw'):
            loc = rv[2][0]
        elif rv[0] == 'use' and rv[1][0] in ('c', 'm'):
            loc = rv[1][1][0]
        else:
            return loc, chain
    return loc, chain


def run(ctx):
    fb = ctx.fb()
    T = ctx.tables
    cycle_guard(ctx, fb, T)
    worklist(ctx, fb, T)
    one_relation(ctx, fb, T)


def cycle_guard(ctx, fb, T):
    R = 'C03.cycle-guard'
    f = fb.fn(VISIT)
    if not ctx.anchor(R, 'fn PlanBuilder::visit', f is not None and f.has_mir()):
        return
    rec = [c for c in f.calls() if c.callee == VISIT]
    ctx.floor(R, 'recursive visit call sites', len(rec), 1)
    inserts = [c for c in f.calls() if call_is(c, SET_INSERT)]
    removes = [c for c in f.calls() if call_is(c, 're:HashSet::<T, S(, A)?>::remove$')]
    pushes = [c for c in f.calls() if call_is(c, 're:Vec::<T, A>::push$')]
    for c in rec:
        gs = guards_call(f, c.bb, SET_CONTAINS, False)
        ok = False
        det = 'no negative contains() guard'
        for g, cc in gs:
            # the tested id and the id recursed into come from the same get_source_node result
            a = set(o for o in f.origins(cc.args[1]) if o[0] == 'call' and suffix_match(o[1], 're:Graph::get_source_node$'))
            b = set(o for o in f.origins(c.args[1]) if o[0] == 'call' and suffix_match(o[1], 're:Graph::get_source_node$'))
            same_set = root_local(f, cc.args[0]) == root_local(f, c.args[3]) and root_local(f, c.args[3]) is not None
            # positive edge must not reach the recursion or the push
            t = f.term(g.bb)
            pos_targets = [tb for v, tb in t[2] if int(v) != 0] + ([t[3]] if not any(int(v) != 0 for v, tb in t[2]) else [])
            leak = False
            for tb in pos_targets:
                r = f.reach_from(tb)
                if any(x.bb in r for x in rec) or any(x.bb in r for x in pushes):
                    leak = True
            ok = bool(a & b) and same_set and not leak
            det = 'guard !active_set.contains(id): id is the operator recursed into (%s), same set as passed down (%s), positive edge cannot reach the recursion or plan.push (%s)' % (bool(a & b), same_set, not leak)
            if ok:
                break
        ctx.inst(R, 'recursion-guarded', ok, det, c.loc())
        ins_ok = any(f.dominates(i.bb, c.bb) and has_param_origin(f.origins(i.args[1]), 1) and root_local(f, i.args[0]) == root_local(f, c.args[3]) for i in inserts)
        ctx.inst(R, 'active-insert-dominates', ins_ok, 'active_set.insert(op_node_id) dominates the recursive call', c.loc())
    # "planning always terminates" also needs the recursion *depth* to be bounded by something other than the graph: visit
    # descends one frame per dependency level, so its depth is the longest dependency chain of the model
    gated = False
    for c in rec:
        for (op, a, b, g) in normalized_cmps(f, c.bb):
            if op in ('Lt', 'Le', 'Gt', 'Ge') and op_int(b) is not None and any(o[0] == 'param' and f.local_ty(o[1] + 1) in ('usize', 'u32', 'u16', 'u64') for o in f.origins(a)):
                gated = True
    ctx.inst(R, 'depth-bounded:visit', gated, 'the recursive call is behind a depth gate' if gated else
             'PlanBuilder::visit recurses once per dependency level with no depth limit and no explicit stack: planning a chain of a few thousand operators overflows the thread stack (process abort) instead of returning a plan or an error', f.loc())
    oks = [(bb, k, i) for bb, k, i in L.return_defs(f) if k == 'ok']
    rem_ok = bool(oks) and all(any(f.dominates(r.bb, bb) and has_param_origin(f.origins(r.args[1]), 1) for r in removes) for bb, k, i in oks)
    ctx.inst(R, 'active-remove-before-ok', rem_ok, 'active_set.remove(op_node_id) dominates every Ok exit (pairing with insert)', f.loc())
    # SCCs reachable from create_plan
    cg = callgraph.CallGraph(fb)
    pred = cg.closure([CREATE])
    nodes = set(pred.keys())
    ctx.floor(R, 'functions reachable from create_plan', len(nodes), 50)
    allowed = {e['fn']: e['reason'] for e in T.get('scc_reviewed', [])}
    for scc in cg.sccs(nodes):
        if scc == [VISIT]:
            ctx.inst(R, 'scc:visit', True, 'visit is recursive; bounded by the active-set guard above', f.loc(), nontrivial=False)
        elif len(scc) == 1 and scc[0] in allowed:
            ctx.inst(R, 'scc:' + scc[0], True, 'reviewed: ' + allowed[scc[0]], fb.fn(scc[0]).loc(), nontrivial=False)
        else:
            ctx.inst(R, 'scc:' + scc[0], False, 'unreviewed recursive cycle reachable from create_plan: %s' % fmt_chain(scc), fb.fn(scc[0]).loc())


def worklist(ctx, fb, T):
    R = 'C03.worklist'
    prog = L.Progress(fb, {'rten'})
    nwl = 0
    for path in (SORT, VISIT, PLAN, CREATE, PRUNE, PL + 'first_duplicate_by', PL + "ResolvedValueSet::<'a>::new"):
        f = fb.fn(path)
        if not ctx.anchor(R, 'fn ' + path.split('::')[-1], f is not None and f.has_mir()):
            continue
        for (h, body) in f.loops():
            # is this an emptiness-controlled worklist loop?
            wl = None
            for c in f.calls():
                if c.bb in body and call_is(c, 're:Vec::<T, A>::is_empty$|VecDeque::<T, A>::is_empty$') and f.dominates(c.bb, h) is False:
                    pass
            hdr_calls = [c for c in f.calls() if c.bb == h and call_is(c, 're:::is_empty$')]
            if hdr_calls:
                wl = root_local(f, hdr_calls[0].args[0])
            if wl is None:
                ok, why = L.loop_progress(f, h, body, prog)
                ctx.inst('C03.progress', 'loop:' + path.split('::')[-1], ok, ('finite iteration: ' + why) if ok else ('loop not proven to terminate: ' + why), f.loc())
                continue
            nwl += 1
            name = f.names.get(str(wl), '_%d' % wl)
            # (1) one element removed per iteration
            rem = [c for c in f.calls() if c.bb in body and call_is(c, 're:Vec::<T, A>::(remove|pop|swap_remove)$|VecDeque::<T, A>::pop_(front|back)$') and root_local(f, c.args[0]) == wl]
            every = [c for c in rem if _on_every_cycle(f, h, body, c.bb)]
            ctx.inst(R, 'pops-each-iteration:' + name, bool(every), 'worklist %s: an element is removed on every iteration (%d removal sites on every cycle path)' % (name, len(every)), f.loc())
            # (2) pushes inside the loop
            pushes = [c for c in f.calls() if c.bb in body and call_is(c, 're:Vec::<T, A>::(push|insert|extend|append)$|VecDeque::<T, A>::push_(front|back)$') and root_local(f, c.args[0]) == wl]
            ctx.count('worklist_pushes', len(pushes))
            for c in pushes:
                ok, det = False, 'push into the worklist is not dominated by a negative membership test on a grow-only set'
                for g, cc in guards_call(f, c.bb, SET_CONTAINS, False):
                    if g.bb not in body:
                        continue
                    s = root_local(f, cc.args[0])
                    sname = f.names.get(str(s), '_%s' % s)
                    shrinks = [x for x in f.calls() if x.bb in body and call_is(x, SET_REMOVE) and root_local(f, x.args[0]) == s]
                    # the popped element is inserted into the set on every iteration
                    ins = [x for x in f.calls() if x.bb in body and call_is(x, SET_INSERT) and root_local(f, x.args[0]) == s and _on_every_cycle(f, h, body, x.bb)]
                    popped = any(any(o[0] == 'call' and suffix_match(o[1], 're:Vec::<T, A>::(remove|pop|swap_remove)$') for o in f.origins(x.args[1])) for x in ins)
                    # tested id is the pushed id
                    pushed = f.origins(c.args[1])
                    tested = f.origins(cc.args[1])
                    common = [o for o in pushed & tested if o[0] in ('call', 'param')]
                    if not shrinks and ins and popped and common:
                        ok = True
                        det = 'push guarded by !%s.contains(candidate); %s only grows inside the loop and receives the popped element on every iteration' % (sname, sname)
                        break
                    det = 'guard on %s: shrinks in loop=%s, popped element inserted each iteration=%s, tests the pushed id=%s' % (sname, bool(shrinks), bool(ins and popped), bool(common))
                ctx.inst(R, 'push-bounded:' + name, ok, det, c.loc())
                # "every operator appears once": an element must not be queued while it is already queued.
                # Accepted forms: (A) the plan push is dominated by `set.insert(popped) == true`, or
                # (B) this push is dominated by a negative full scan of the worklist (`W.iter().any(..)` / `W.contains(..)`).
                formB, detB = False, 'no negative full-membership test of the worklist dominates the push'
                for g in f.guards(c.bb):
                    cnd, t = unwrap_not(g.cond(), g.truth())
                    if cnd[0] != 'call' or t is not False:
                        continue
                    cc = cnd[1]
                    if call_is(cc, 're:Iterator>::any$|Iterator::any$|::contains$'):
                        rl, chain = receiver_root(f, cc.args[0])
                        partial = [n for n in chain if n not in ('iter', 'iter_mut', 'deref', 'deref_mut', 'as_slice', 'into_iter', 'as_ref', 'borrow')]
                        if rl == wl and not partial:
                            formB, detB = True, 'push is dominated by a negative scan of the whole worklist (%s)' % cc.callee.split('::')[-1]
                        elif rl == wl:
                            detB = 'membership test looks only at part of the worklist (%s)' % partial[0]
                formA = False
                for x in f.calls():
                    if x.bb in body and call_is(x, 're:Vec::<T, A>::push$') and root_local(f, x.args[0]) != wl:
                        if any(call_is(cc, SET_INSERT) for g, cc in guards_call(f, x.bb, SET_INSERT, True)):
                            formA = True
                ctx.inst('C03.once', 'no-duplicate-queueing:' + name, formA or formB,
                         ('operators are scheduled once: ' + ('plan push guarded by a successful set insert' if formA else detB)) if (formA or formB) else
                         ('an operator can be queued twice, so it can appear twice in the plan: ' + detB), c.loc())
    ctx.floor(R, 'emptiness-controlled worklist loops in the planner', nwl, 1)


def _on_every_cycle(f, h, body, bb):
    """every cycle through header h (inside body) passes block bb"""
    if bb == h:
        return True
    st = [s for s in f.succ()[h] if s in body and s != bb]
    seen = set(st)
    while st:
        x = st.pop()
        for s in f.succ()[x]:
            if s == h:
                return False
            if s in body and s != bb and s not in seen:
                seen.add(s)
                st.append(s)
    return True


def one_relation(ctx, fb, T):
    R = 'C03.one-relation'
    want = {VISIT: 1, SORT: 3, PRUNE: 1}
    for p, n in want.items():
        fs = [fb.fn(x) for x in fb.with_closures(p)]
        k = sum(1 for f in fs for c in f.calls() if c.callee == DEPS)
        ctx.inst(R, 'uses-operator_dependencies:' + p.split('::')[-1], k >= n, '%s consults Graph::operator_dependencies at %d site(s) (expected >= %d)' % (p.split('::')[-1], k, n), fs[0].loc())
    bad = []
    for p in fb.fn_paths(crate='rten', prefix=PL):
        f = fb.fn(p)
        if not f.has_mir():
            continue
        for c in f.calls():
            if call_is(c, ('rten::graph::node::OperatorNode::input_ids', 'rten::graph::node::OperatorNode::capture_names')):
                bad.append((f, c))
    ctx.inst(R, 'planner-never-reads-input_ids-directly', not bad, 'no function of rten::graph::planner iterates OperatorNode::input_ids / capture_names itself (%s)' % [b[0].path.split('::')[-1] for b in bad], bad[0][1].loc() if bad else '')
    f = fb.fn(DEPS)
    if ctx.anchor(R, 'fn Graph::operator_dependencies', f is not None and f.has_mir()):
        fs = [fb.fn(x) for x in fb.with_closures(DEPS)]
        names = set((c.callee or '').split('::')[-1] for g in fs for c in g.calls())
        ok = {'input_ids', 'capture_names', 'chain'} <= names
        ctx.inst(R, 'dependencies=inputs+captures', ok, 'operator_dependencies chains input_ids() with the ids of capture_names() (calls: %s)' % sorted(n for n in names if n in ('input_ids', 'capture_names', 'chain', 'filter_map', 'get_node_id')), f.loc())
        og = f.origins(['c', [0]])
        ctx.inst(R, 'dependencies-returned-is-the-chain', has_origin_call(og, 're:Iterator::chain$'), 'the returned iterator is the chain', f.loc())
