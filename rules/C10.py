"""C10 Shape inference never contradicts execution (structural clauses: operator <-> inference wiring, arithmetic namesakes, strict range test)."""
import re
import collections
from rulelib import *
from rulelib import _rv_operands
from facts import op_int, op_local, op_place

THOROUGH_CFGS = ('min_none', 'min_rten', 'min_onnx')   # reduced-feature builds of the rten crate (thorough tier)

EXPLANATION = (
    "Decides the wiring clauses of C10, not the soundness of each inference function: (table) for every impl of Operator the "
    "inference object returned by as_infer_shapes is resolved (Some(self) -> the rten_shape_inference type its InferShapes impl "
    "delegates to; Some(&T) -> T; macro/closure forms followed); an operator that has a namesake in rten_shape_inference::ops "
    "must be wired to it (never to a generic shape-only wrapper or to another operator's inference), and an operator without a "
    "namesake must use the generic target its module siblings use, or be in the reviewed table; (arith) the value-level closures "
    "of shape_ops::{Add,Sub,Mul,Div} apply exactly their own arithmetic operator to constant operands and to symbolic operands, "
    "and Div folds constants only under divisor != 0; (equal-strict) shape_ops::Equal yields the constant 0 only on paths whose "
    "last test is a strict `max < min` comparison of the two operands' ranges and the constant 1 only under operand equality; "
    "(scalar-rank) Where and the binary value path build a scalar result only when all inputs are scalars and a vector otherwise; "
    "a graph constant becomes a rank-0 symbolic value only under ndim() == 0; (forward-offsets) Slice inference picks values "
    "with a resolved SliceRange only under a positive-step test and builds the range end in the same form as the operator "
    "(no INT_MAX -> open end rewrite); (delegation) Operator::as_infer_shapes is called only by the graph inference driver. Whether each inference function "
    "computes the right shape for all inputs is value-level and not decided. (axis-rank) for the reviewed inference / execution pairs (Flatten, OneHot, Concat, Gather, TopK) the rank argument of resolve_axis has the same form - rank, or rank + 1 for an insertion position - on both sides, so a negative axis selects the same dimension.")
ASSUMPTIONS = ["an inference type named like the operator implements that operator's ONNX shape rule"]
INF = 'rten_shape_inference::infer_shapes::InferShapes'
OP = 'rten::operator::Operator'
GENERIC = {'UnaryOp', 'BinaryOp', 'VariadicOp', 'ReductionOp', 'Pool', 'GlobalPool', 'FixedShape'}


def run(ctx):
    fb = ctx.fb()
    T = ctx.tables
    table(ctx, fb, T)
    arith(ctx, fb)
    equal_strict(ctx, fb)
    scalar_rank(ctx, fb)
    forward_offsets(ctx, fb)
    delegation(ctx, fb)
    axis_rank(ctx, fb)
    reduce_empty_axes(ctx, fb)


def summarize(fb, f, self_ty, inner, depth=2):
    """('None', None) | ('self', [targets]) | ('static', [target]) | None"""
    kind = None
    for (bb, j, k, payload, dpl) in f.defs().get(0, []):
        if k != 'call' and payload[0] == 'agg':
            if payload[3] == 'None':
                kind = ('None', None)
            elif payload[3] == 'Some':
                r_ = f.resolve_copy(payload[4][0])
                if r_[0] == 'rv' and r_[1][0] == 'cast':
                    ty = f.local_ty(op_local(r_[1][2]))
                    m = re.match(r'&(?:mut )?([\w:]+)', ty)
                    t = m.group(1) if m else ty
                    if t == self_ty:
                        kind = ('self', sorted(inner.get(self_ty, [])))
                    else:
                        kind = ('static', [t.split('::')[-1]])
        elif k == 'call' and depth > 0:
            cal = payload.info.get('r') or payload.callee or ''
            if '{closure#' in cal:
                cf = fb.fn(cal)
                if cf is not None and cf.has_mir():
                    kind = summarize(fb, cf, self_ty, inner, depth - 1)
    return kind


def wiring(fb):
    impls = list(fb.impls(trait=INF))
    shape_ops = set(i['self'].split('::')[-1].split('<')[0] for i in impls if i['self'].startswith('rten_shape_inference'))
    inner = {}
    for i in impls:
        if i['self'].startswith('rten::'):
            p = i['items'].get('infer_shapes', (None, None))[1]
            f = fb.fn(p)
            tg = set()
            if f is not None and f.has_mir():
                for c in f.calls():
                    m = re.match(r'<(rten_shape_inference::[\w:]+)(<.*>)? as rten_shape_inference::infer_shapes::InferShapes>::infer_shapes', c.callee or '')
                    if m:
                        tg.add(m.group(1).split('::')[-1])
                for q in fb.closures_of(p):
                    cf = fb.fn(q)
                    if cf is not None and cf.has_mir():
                        for c in cf.calls():
                            m = re.match(r'<(rten_shape_inference::[\w:]+)(<.*>)? as rten_shape_inference::infer_shapes::InferShapes>::infer_shapes', c.callee or '')
                            if m:
                                tg.add(m.group(1).split('::')[-1])
            inner[i['self']] = tg
    rows = []
    for imp in fb.impls(trait=OP):
        p = imp['items'].get('as_infer_shapes', (None, None))[1]
        f = fb.fn(p) if p else None
        kind = summarize(fb, f, imp['self'], inner) if f is not None and f.has_mir() else None
        rows.append((imp['self'], kind, f))
    return shape_ops, rows


def table(ctx, fb, T):
    R = 'C10.table'
    rev = {e['op']: e for e in T.get('wiring_reviewed', [])}
    shape_ops, rows = wiring(fb)
    ctx.floor(R, 'inference types in rten_shape_inference::ops', len(shape_ops), 50)
    # module-level generic target
    mods = collections.defaultdict(collections.Counter)
    for n, k, f in rows:
        if not k or k[0] == 'None':
            continue
        short = n.split('::')[-1]
        for t in k[1]:
            if t != short and t in GENERIC:
                mods[n.rsplit('::', 1)[0]][t] += 1
    nwired = 0
    for n, k, f in rows:
        name = n.replace('rten::ops::', '')
        short = n.split('::')[-1]
        loc = f.loc() if f is not None else ''
        if k is None:
            ctx.inst(R, 'wiring:' + name, False, 'cannot resolve the inference object returned by as_infer_shapes', loc)
            continue
        if k[0] == 'None':
            ctx.inst(R, 'wiring:' + name, True, 'no shape inference offered', loc, nontrivial=False)
            continue
        nwired += 1
        tg = k[1]
        if not tg:
            if k[0] == 'self':
                ctx.inst(R, 'wiring:' + name, True, 'own InferShapes implementation (no delegation)', loc)
            else:
                ctx.inst(R, 'wiring:' + name, False, 'cannot resolve the inference type', loc)
            continue
        if len(tg) > 1:
            r = rev.get(name)
            ok = r is not None and sorted(r.get('targets', [])) == sorted(tg)
            ctx.inst(R, 'wiring:' + name, ok, ('reviewed: %s' % r['reason']) if ok else 'delegates to several inference types %s (unreviewed)' % tg, loc)
            continue
        t = tg[0]
        if t == short:
            ctx.inst(R, 'wiring:' + name, True, 'wired to its namesake shape_ops::%s' % t, loc)
        elif short in shape_ops:
            ctx.inst(R, 'wiring:' + name, False, 'operator %s has a dedicated inference type shape_ops::%s but is wired to shape_ops::%s: inferred shapes/values would be those of another operator' % (short, short, t), loc)
        else:
            r = rev.get(name)
            if r is not None and r.get('targets') == [t]:
                ctx.inst(R, 'wiring:' + name, True, 'reviewed: ' + r['reason'], loc)
            elif t in GENERIC:
                mc = mods[n.rsplit('::', 1)[0]]
                major = [x for x in mc if mc[x] >= 3 and x != t]
                if major:
                    ctx.inst(R, 'wiring:' + name, False, 'operator %s uses the generic inference %s while %d siblings in its module use %s (unreviewed deviation)' % (short, t, mc[major[0]], major[0]), loc)
                else:
                    ctx.inst(R, 'wiring:' + name, True, 'no namesake in shape_ops; uses the generic shape-only inference %s' % t, loc)
            else:
                ctx.inst(R, 'wiring:' + name, False, 'operator %s is wired to shape_ops::%s, which is neither its namesake, nor the generic target of its module siblings, nor reviewed' % (short, t), loc)
    ctx.floor(R, 'operators offering shape inference', nwired, 130)


# ---------------------------------------------------------------------------------------------------------------
def shape_fn(fb, ty, suffix='infer_shapes'):
    for f in fb.fns(crate='rten_shape_inference'):
        if f.path == '<rten_shape_inference::ops::binary::%s as rten_shape_inference::infer_shapes::InferShapes>::%s' % (ty, suffix):
            return f
    return None


def arith(ctx, fb):
    R = 'C10.arith'
    want = {'Add': ('Add', 'add'), 'Sub': ('Sub', 'sub'), 'Mul': ('Mul', 'mul'), 'Div': ('Div', 'div')}
    for ty, (bop, meth) in want.items():
        f = shape_fn(fb, ty)
        if f is None:
            ctx.inst(R, 'anchor:' + ty, False, 'shape_ops::%s not found' % ty, '')
            continue
        cl = [fb.fn(p) for p in fb.closures_of(f.path)]
        cl = [c for c in cl if c is not None and c.has_mir()]
        bins = set()
        traits = set()
        div_guard = True
        n_div_const = 0
        for cf in cl:
            for i, b in enumerate(cf.bbs):
                if b.get('c') or i not in cf.live():
                    continue
                for s in b['s']:
                    if s[0] == '=' and s[2][0] == 'bin' and re.match(r'(Add|Sub|Mul|Div|Rem|Shl|Shr|BitAnd|BitOr|BitXor)', s[2][1]):
                        nm = re.match(r'(Add|Sub|Mul|Div|Rem|Shl|Shr|BitAnd|BitOr|BitXor)', s[2][1]).group(1)
                        bins.add(nm)
                        if nm == 'Div':
                            ok = False
                            for (op, a, bb_, g) in normalized_cmps(cf, i):
                                if op == 'Ne' and (op_int(bb_) == 0 or op_int(a) == 0):
                                    ok = True
                            div_guard = div_guard and ok
            for c in cf.calls():
                m = re.search(r'core::ops::arith::(\w+)(?:<.*>)?>?::(\w+)$', c.callee or '')
                if m:
                    traits.add(m.group(1))
                    if m.group(1) == 'Div' and re.search(r'i32', str(c.info.get('ga') or '')):
                        # integer constant folding: only under divisor != 0
                        n_div_const += 1
                        g_ok = False
                        for (op, a, bb_, g) in normalized_cmps(cf, c.bb):
                            if op == 'Ne' and (op_int(bb_) == 0 or op_int(a) == 0):
                                g_ok = True
                        div_guard = div_guard and g_ok
        ok = bins <= {bop} and traits == {bop}
        if ty == 'Div':
            # constants are folded with a zero-checked division: `x / y` under `y != 0`, or i32::checked_div; and only when
            # the division is exact (remainder tested against 0) - the operands may be integer-valued *float* constants, for
            # which the operator divides exactly (3.0 / 2.0 = 1.5, not 1)
            folds, exact = [], False
            for cf in cl:
                rems = [c for c in cf.calls() if re.search(r'<impl i32>::checked_rem$', c.callee or '')]
                rem_bins = [(i, st) for i, b in enumerate(cf.bbs) if not b.get('c') for st in b['s'] if st[0] == '=' and st[2][0] == 'bin' and st[2][1].startswith('Rem')]
                for c in cf.calls():
                    if re.search(r'<impl i32>::checked_div$', c.callee or ''):
                        folds.append((cf, c.bb))
                for i, b in enumerate(cf.bbs):
                    if b.get('c') or i not in cf.live():
                        continue
                    for st in b['s']:
                        if st[0] == '=' and st[2][0] == 'bin' and st[2][1].startswith('Div'):
                            folds.append((cf, i))
                for (ff, fbb) in [x for x in folds if x[0] is cf]:
                    for g in cf.guards(fbb):
                        cd = g.cond()
                        if cd[0] == 'call' and any(o[0] == 'call' and re.search(r'checked_rem$', o[1] or '') for a in cd[1].args for o in cf.origins(a)):
                            exact = True
                        if cd[0] == 'cmp' and any(o[0] == 'binop' and str(o[1]).startswith('Rem') for x in (cd[2], cd[3]) for o in cf.origins(x)):
                            exact = True
                        if cd[0] == 'disc' and any(o[0] == 'call' and re.search(r'checked_rem$', o[1] or '') for o in cf.place_origins(cd[1] if isinstance(cd[1], list) else [cd[1]])):
                            exact = True
            bins.discard('Div'); bins.discard('Rem')
            ok = not bins and traits == {bop} and bool(folds) and div_guard and exact
            ctx.inst(R, 'op:' + ty, ok, 'shape_ops::Div folds constants only with a zero-checked division under a remainder == 0 test, and builds symbolic Div expressions otherwise' if ok else
                     'shape_ops::Div folds constant operands %s: %s' % ('without a zero-checked division' if not (folds and div_guard) else 'without testing that the division is exact',
                                                                         'a divisor of 0 panics' if not (folds and div_guard) else 'integer-valued float constants divide exactly at run time (3.0 / 2.0 = 1.5) while inference claims the truncated quotient, which the optimizer then substitutes'), f.loc())
            continue
        ctx.inst(R, 'op:' + ty, ok, 'shape_ops::%s folds constants with %s and builds symbolic %s expressions%s' % (ty, bop, bop, ' (constant division only under divisor != 0)' if ty == 'Div' else '') if ok else
                 'shape_ops::%s applies %s to constants and %s to symbolic operands%s: inferred values would differ from execution' % (ty, sorted(bins), sorted(traits), '' if div_guard else ' (or divides without a non-zero test)'), f.loc())


def equal_strict(ctx, fb):
    R = 'C10.equal-strict'
    f = shape_fn(fb, 'Equal')
    if f is None:
        ctx.inst(R, 'anchor', False, 'shape_ops::Equal not found', '')
        return
    cl = [fb.fn(p) for p in fb.closures_of(f.path)]
    cl = [c for c in cl if c is not None and c.has_mir()]
    zero_ok, one_ok = None, None
    for cf in cl:
        pred = cf.pred()
        for i, b in enumerate(cf.bbs):
            if b.get('c') or i not in cf.live():
                continue
            for s in b['s']:
                if s[0] == '=' and s[2][0] == 'agg' and s[2][3] == 'Value' and s[2][4] and op_int(s[2][4][0]) in (0, 1):
                    v = op_int(s[2][4][0])
                    # every incoming edge is the taken side of a comparison
                    conds = []
                    work = [(p, i) for p in pred[i]]
                    seen_e = set()
                    while work:
                        p, d_ = work.pop()
                        if (p, d_) in seen_e:
                            continue
                        seen_e.add((p, d_))
                        t = cf.bbs[p]['t']
                        if t[0] == 'goto' and not cf.bbs[p]['s']:
                            work += [(q, p) for q in pred[p]]
                            continue
                        if t[0] != 'sw':
                            conds.append(None)
                            continue
                        conds.append(edge_condition(cf, p, d_))
                    if v == 0:
                        ok = bool(conds) and all(c is not None and c[0] == 'Lt' and range_pair(cf, c[1], c[2]) for c in conds)
                        zero_ok = ok if zero_ok is None else (zero_ok and ok)
                    else:
                        ok = bool(conds) and all(c is not None and c[0] == 'EqCall' for c in conds)
                        one_ok = ok if one_ok is None else (one_ok and ok)
    ctx.inst(R, 'zero-only-if-disjoint', bool(zero_ok), 'Equal infers 0 only on edges taken when `a.max < b.min` (strict) for the two operands\' ranges' if zero_ok else
             'Equal can infer the constant 0 on an edge that is not a strict `max < min` test of the operands\' ranges (touching ranges are not disjoint)', f.loc())
    ctx.inst(R, 'one-only-if-same', bool(one_ok), 'Equal infers 1 only when the two symbolic operands compare equal' if one_ok else
             'Equal can infer the constant 1 without an equality test of the operands', f.loc())


def edge_condition(f, src, dst):
    """normalized condition under which the switch at the end of block src goes to dst: ('Lt', a, b) / ('EqCall',) / None"""
    t = f.bbs[src]['t']
    if t[0] != 'sw':
        return None
    targets = [x[1] for x in t[2]]
    vals = [int(x[0]) for x in t[2] if x[1] == dst]
    if dst in targets and t[3] == dst:
        return None
    if vals:
        truth = False if vals == [0] else (True if vals == [1] else None)
    elif t[3] == dst:
        ex = [int(x[0]) for x in t[2]]
        truth = True if ex == [0] else (False if ex == [1] else None)
    else:
        return None
    if truth is None:
        return None
    r = f.resolve_copy(t[1])
    if r[0] == 'rv' and r[1][0] == 'bin' and r[1][1] in ('Lt', 'Le', 'Gt', 'Ge'):
        op, a, b = r[1][1], r[1][2], r[1][3]
        if not truth:
            op = NEG[op]
        if op in ('Gt', 'Ge'):
            op, a, b = SWAP[op], b, a
        return (op, a, b)
    if r[0] == 'call' and re.search(r'PartialEq.*::eq$', r[1].callee or '') and truth:
        return ('EqCall',)
    if r[0] == 'call' and re.search(r'PartialEq.*::ne$', r[1].callee or '') and not truth:
        return ('EqCall',)
    return None


def range_pair(f, a, b):
    """a is the max (.1) of one range() result and b the min (.0) of another range() result"""
    def part(o):
        pl = op_place(o)
        if pl is None:
            return None
        for og in f.origins(o):
            if og[0] == 'call' and (og[1] or '').endswith('SymExpr::range') and len(og) > 3 and og[3]:
                return (og[2], str(og[3][0]))
        return None
    pa, pb = part(a), part(b)
    return pa is not None and pb is not None and pa[1] == '1' and pb[1] == '0' and pa[0] != pb[0]


def scalar_rank(ctx, fb):
    R = 'C10.scalar-rank'
    for path, label in (('<rten_shape_inference::ops::binary::Where as %s>::infer_shapes' % INF, 'Where'),
                        ('rten_shape_inference::ops::binary::symbolic_binary_op', 'binary')):
        f = fb.fn(path)
        if f is None or not f.has_mir():
            ctx.inst(R, 'anchor:' + label, False, '%s not found' % path, '')
            continue
        sc = [c for c in f.calls() if (c.callee or '').endswith('SymTensor::from_scalar')]
        ok = bool(sc)
        for c in sc:
            # dominated by is-scalar tests of every value input
            n_scalar_tests = 0
            for g in f.guards(c.bb):
                cnd, t = unwrap_not(g.cond(), g.truth())
                if cnd[0] == 'call' and t is True and re.search(r'Option::<T>::is_some$|Iterator>?::all$', cnd[1].callee or ''):
                    n_scalar_tests += 1
                if cnd[0] == 'place' and t is True:
                    for o in f.place_origins(cnd[1]):
                        if o[0] == 'call' and re.search(r'Iterator>?::all$', o[1] or ''):
                            # the predicate closure tests as_scalar().is_some()
                            for q in fb.closures_of(f.path):
                                cf = fb.fn(q)
                                if cf is not None and cf.has_mir() and any((x.callee or '').endswith('SymTensor::as_scalar') for x in cf.calls()):
                                    n_scalar_tests += 1
                                    break
                if cnd[0] == 'disc':
                    og = f.place_origins([cnd[1][0]])
                    if any(o[0] == 'call' and (o[1] or '').endswith('SymTensor::as_scalar') for o in og) and ((g.vals == [1]) or (g.vals is None and g.excluded == [0])):
                        n_scalar_tests += 1
            if n_scalar_tests < 1:
                ok = False
        ctx.inst(R, 'scalar-only-if-all-scalar:' + label, ok, 'a scalar result is built only under an as_scalar()/all-scalar test of the inputs' if ok else
                 'a scalar (rank-0) result can be built without testing that the inputs are scalars, or no scalar path exists', f.loc())

    # ---- Unsqueeze's value path turns a known *scalar* into the one-element vector [v] (axes == [0]): it must be guarded
    # by SymTensor::as_scalar, not by a test that also matches one-element vectors (values()): Unsqueeze([v], 0) has rank 2
    uf = [x for x in fb.fns(crate='rten_shape_inference') if x.has_mir() and re.search(r'ops::layout::Unsqueeze as .*InferShapes>::infer_shapes$', x.path)]
    if ctx.anchor(R, 'Unsqueeze::infer_shapes', len(uf) == 1):
        f = uf[0]
        fv = [c for c in f.calls() if (c.callee or '').endswith('SymTensor::from_vec')]
        ok = bool(fv)
        for c in fv:
            g_ok = False
            for g in f.guards(c.bb):
                cd = g.cond()
                if cd[0] == 'disc' and (g.vals == [1] or (g.vals is None and g.excluded == [0])):
                    og = f.place_origins(cd[1] if isinstance(cd[1], list) else [cd[1]])
                    if any(o[0] == 'call' and (o[1] or '').endswith('SymTensor::as_scalar') for o in og):
                        g_ok = True
            ok = ok and g_ok
        ctx.inst(R, 'unsqueeze-vector-only-from-scalar', ok, 'Unsqueeze builds the value vector [v] only under data.as_scalar() == Some(v)' if ok else
                 'Unsqueeze builds a rank-1 value result without an as_scalar() test of its data: a one-element *vector* input (rank 1) would be inferred as rank 1 while execution produces rank 2', f.loc())

    # ---- constants entering inference: Constant::as_scalar (TensorBase::item) answers for *any* one-element tensor, so a
    # constant becomes a rank-0 symbolic value only under an explicit `ndim() == 0` test; otherwise a [1] / [1,1]
    # constant is given rank 0 and every shape computed from it (broadcast, Unsqueeze, Concat ...) loses dimensions
    f = fb.fn('rten::infer_shapes::sym_tensor_from_input')
    if ctx.anchor(R, 'sym_tensor_from_input', f is not None and f.has_mir()):
        sc = [c for c in f.calls() if (c.callee or '').endswith('SymTensor::from_scalar')]
        ok = bool(sc)
        for c in sc:
            g_ok = False
            for (op, a, b, g) in normalized_cmps(f, c.bb):
                if op == 'Eq' and op_int(b) == 0 and any(o[0] == 'call' and re.search(r'::ndim$', o[1] or '') for o in f.origins(a)):
                    g_ok = True
            if not g_ok:
                # or the rank test lives in the helper the value comes from: all its Some(..) results are under ndim() == 0
                for o in f.origins(c.args[0]):
                    h = fb.fn(o[1]) if o[0] == 'call' and o[1] else None
                    if h is None or not h.has_mir() or not h.path.startswith('rten::infer_shapes::'):
                        continue
                    somes = [i for i, b in enumerate(h.bbs) if not b.get('c') and i in h.live() and any(st[0] == '=' and st[2][0] == 'agg' and st[2][3] == 'Some' for st in b['s'])]
                    if somes and all(any(op2 == 'Eq' and op_int(b2) == 0 and any(x[0] == 'call' and re.search(r'::ndim$', x[1] or '') for x in h.origins(a2)) for (op2, a2, b2, g2) in normalized_cmps(h, i)) for i in somes):
                        g_ok = True
            ok = ok and g_ok
        ctx.inst(R, 'constant-scalar-only-if-rank-0', ok, 'a constant becomes a rank-0 symbolic value only under `constant.ndim() == 0`' if ok else
                 'a constant can become a rank-0 symbolic value without an `ndim() == 0` test: as_scalar() also answers for [1] and [1,1] constants, whose rank inference would then misreport', f.loc())


def forward_offsets(ctx, fb):
    """SliceRange::resolve / resolve_clamped return offsets that count forwards from the first index only for a positive
    step (for a negative step they count backwards from the last index - see the method's contract).  Shape inference that
    picks *values* with such a range directly (`vals[range]`) therefore does so only under a positive-step test of the
    step the range was built from; otherwise the inferred constant is the mirror-image window of what execution yields."""
    R = 'C10.forward-offsets'
    n = 0
    for f in fb.fns(crate='rten_shape_inference'):
        if not f.has_mir():
            continue
        for c in f.calls():
            if not re.search(r'Index<I>>?::index$|Index<I> for \[T\]>::index$|::get$', c.callee or '') or len(c.args) < 2:
                continue
            r = f.resolve_copy(c.args[1])
            if not (r[0] == 'call' and re.search(r'SliceRange::resolve(_clamped)?$', r[1].callee or '')):
                continue
            n += 1
            news = [k for k in f.calls() if (k.callee or '').endswith('SliceRange::new') and f.dominates(k.bb, r[1].bb)]
            step_og = set()
            for k in news:
                step_og |= f.origins(k.args[2])
            ok = False
            for (op, a, b, g) in normalized_cmps(f, c.bb):
                if ((op == 'Eq' and op_int(b) == 1) or (op == 'Gt' and op_int(b) == 0) or (op == 'Ge' and op_int(b) == 1)) and (f.origins(a) & step_og):
                    ok = True
            ctx.inst(R, 'positive-step:' + f.path.split(' as ')[0].split('::')[-1].strip('<>'), ok and bool(news),
                     'values are picked with the resolved range only under a positive-step test' if ok else
                     'values are indexed directly with a resolve_clamped()/resolve() range without a positive-step test: for a negative step the offsets count from the end, so the inferred values are the mirrored window', c.loc())
    ctx.floor(R, 'value pick by resolved slice range', n, 1)

    # sibling agreement with the operator: Slice execution (rten::ops::slice::slice_ranges) always builds
    # SliceRange::new(start, Some(end), step) and lets clamping deal with INT_MAX / INT_MIN; inference must give the
    # range the same form, because an open end (None) differs from a clamped INT_MAX end for a negative step
    def end_forms(h):
        out = set()
        for c in h.calls():
            if (c.callee or '').endswith('SliceRange::new') and len(c.args) == 3:
                r = h.resolve_copy(c.args[1])
                if r[0] == 'rv' and r[1][0] == 'agg':
                    out.add(str(r[1][3]))
                elif r[0] == 'rv' and r[1][0] == 'use' and r[1][1][0] == 'k':
                    out.add('None' if 'None' in str(r[1][1][1]) else 'const')
                else:
                    out.add('computed')
        return out
    ex = fb.fn('rten::ops::slice::slice_ranges')
    inf = [x for x in fb.fns(crate='rten_shape_inference') if 'slice::Slice as' in x.path and x.path.endswith('::infer_shapes')]
    if ctx.anchor(R, 'slice_ranges + Slice::infer_shapes', ex is not None and ex.has_mir() and len(inf) == 1):
        fe = end_forms(ex) - {'const'}
        fi = end_forms(inf[0])
        ctx.inst(R, 'end-form-agrees-with-operator', bool(fi) and fi <= fe,
                 'inference builds the slice range end as %s, the operator as %s' % (sorted(fi), sorted(fe)) if fi <= fe else
                 'inference builds the slice range end as %s but the operator only as %s: an INT_MAX end rewritten to an open end selects down to the first element for a negative step where the operator yields nothing' % (sorted(fi), sorted(fe)), inf[0].loc())


def delegation(ctx, fb):
    R = 'C10.delegation'
    callers = callers_of(fb, 're:Operator::as_infer_shapes$', crates=['rten'])
    allowed = re.compile(r'^rten::infer_shapes::|^<?rten::ops::transform_inputs::|^rten::graph::|^<?rten::optimize::')
    bad = [f.path for f, c in callers if not allowed.search(f.path)]
    ctx.inst(R, 'callers', not bad and len(callers) >= 1, 'Operator::as_infer_shapes is consulted only by the graph inference driver (%d call sites)' % len(callers) if not bad else
             'as_infer_shapes is called from %s' % bad[0], '')


# ---------------------------------------------------------------------------------------------------------------
# reviewed pairs: shape-inference impl (type name in rten_shape_inference::ops) <-> the execution functions that resolve the
# same `axis` attribute.  An axis in [-r, r) is resolved against r ('rank'); an insertion position in [-(r+1), r] against
# r + 1 ('rank+k').  The two sides of a pair must use the same form, or negative axes land on different dimensions.
AXIS_PAIRS = {
    'Flatten': ('rten::ops::layout::flattened_shape',),
    'OneHot': ('rten::ops::generate::onehot',),
    'Concat': ('rten::ops::concat::concat', 'rten::ops::concat::concat_in_place'),
    'Gather': ('rten::ops::gather::gather',),
    'TopK': ('rten::ops::reduce::topk',),
}


def _axis_forms(f):
    out = []
    for c in f.calls():
        if re.search(r'::resolve_axis$', c.callee or '') and c.args:
            og = f.origins(c.args[0])
            out.append(('rank+k' if any(o[0] == 'binop' and 'Add' in str(o[1]) for o in og) else 'rank', c.loc()))
    return out


def axis_rank(ctx, fb):
    R = 'C10.axis-rank'
    n = 0
    for op, execs in sorted(AXIS_PAIRS.items()):
        inf = [f for f in fb.fns(crate='rten_shape_inference') if f.has_mir() and re.search(r'ops::\w+::%s as rten_shape_inference::infer_shapes::InferShapes>::infer_shapes$' % op, f.path)]
        ex = [fb.fn(p) for p in execs]
        if not ctx.anchor(R, 'infer_shapes of %s and %s' % (op, ', '.join(execs)), bool(inf) and all(e is not None and e.has_mir() for e in ex)):
            continue
        fi = _axis_forms(inf[0])
        fe = [x for e in ex for x in _axis_forms(e)]
        if not ctx.anchor(R, 'resolve_axis calls for ' + op, bool(fi) and bool(fe)):
            continue
        n += 1
        si, se = {x[0] for x in fi}, {x[0] for x in fe}
        ok = si == se and len(si) == 1
        ctx.inst(R, 'same-rank-form:' + op, ok,
                 'inference and execution both resolve the axis against %s' % ('the rank' if si == {'rank'} else 'rank + 1 (insertion position)') if ok else
                 'shape inference of %s resolves its axis against %s but execution (%s) against %s: a negative axis selects a different dimension in the two, so the inferred shape contradicts the executed one' % (op, sorted(si), ', '.join(e.split('::')[-1] for e in execs), sorted(se)), fi[0][1])
    ctx.floor(R, 'inference / execution pairs compared', n, 4)


# ---------------------------------------------------------------------------------------------------------------
def _reads_field(f, name):
    import json as _j
    for b in f.bbs:
        if b.get('c'):
            continue
        if ("'f', " in str(b['s']) or '"f"' in str(b['s'])) and ("'%s'" % name) in str(b['s']):
            return True
    return False


def reduce_empty_axes(ctx, fb):
    """Execution of the reduction operators treats an empty `axes` like a missing one (reduce every dimension) unless
    noop_with_empty_axes is set, in which case the input is returned unchanged.  Inference has to make the same two
    distinctions: (flag) every operator whose run() reads self.noop_with_empty_axes also reads it in infer_shapes();
    (empty) ReductionOp::infer_shapes tests the resolved axes list for emptiness."""
    R = 'C10.reduce-empty-axes'
    n = 0
    for f in fb.fns(crate='rten'):
        m = re.search(r'^<rten::ops::reduce::(\w+) as rten::operator::Operator>::run$', f.path)
        if not m or not f.has_mir():
            continue
        if not any(_reads_field(fb.fn(p), 'noop_with_empty_axes') for p in fb.with_closures(f.path) if fb.fn(p) is not None and fb.fn(p).has_mir()):
            continue
        op = m.group(1)
        inf = [g for g in fb.fns(crate='rten') if g.has_mir() and re.search(r'^<rten::ops::reduce::%s as rten_shape_inference::infer_shapes::InferShapes>::infer_shapes$' % op, g.path)]
        n += 1
        ok = bool(inf) and any(_reads_field(fb.fn(p), 'noop_with_empty_axes') for p in fb.with_closures(inf[0].path) if fb.fn(p) is not None and fb.fn(p).has_mir())
        ctx.inst(R, 'flag-read-by-inference:' + op, ok, 'run() and infer_shapes() both read noop_with_empty_axes' if ok else
                 '%s::run returns its input unchanged when noop_with_empty_axes is set and axes is empty or missing, but infer_shapes never reads the flag: the inferred shape has the dimensions reduced that execution keeps' % op,
                 inf[0].loc() if inf else f.loc())
    ctx.floor(R, 'reduction operators whose run() reads noop_with_empty_axes', n, 8)
    g = [x for x in fb.fns(crate='rten_shape_inference') if x.has_mir() and re.search(r'ReductionOp<.*> as rten_shape_inference::infer_shapes::InferShapes>::infer_shapes$', x.path)]
    if ctx.anchor(R, 'ReductionOp::infer_shapes', bool(g)):
        calls = [c for p in fb.with_closures(g[0].path) for c in (fb.fn(p).calls() if fb.fn(p) is not None and fb.fn(p).has_mir() else [])]
        ok = any(re.search(r'SmallVec::<.*>::is_empty$|SmallVec<.*>::is_empty$', c.callee or '') for c in calls)
        if not ok:
            # the `len() == 0` spelling of the same test
            for p_ in fb.with_closures(g[0].path):
                h = fb.fn(p_)
                if h is None or not h.has_mir():
                    continue
                for b in h.bbs:
                    for st in ([] if b.get('c') else b['s']):
                        if st[0] == '=' and st[2][0] == 'bin' and st[2][1] in ('Eq', 'Ne') and any(x[0] == 'k' and str(x[1]).startswith('0_') for x in (st[2][2], st[2][3])):
                            other = st[2][3] if st[2][2][0] == 'k' else st[2][2]
                            if any(o[0] == 'call' and re.search(r'SmallVec::<.*>::len$|SmallVec<.*>::len$', o[1] or '') for o in h.origins(other)):
                                ok = True
        ctx.inst(R, 'empty-axes-tested', ok, 'the resolved axes list is tested for emptiness (empty = reduce every dimension, as in execution)' if ok else
                 'ReductionOp::infer_shapes never tests the axes list for emptiness: an empty list reduces nothing in inference but every dimension in execution (ReduceSum([2,3], axes=[]) is inferred as [2,3] and produces a scalar)', g[0].loc())
