"""C13 In-place and commuted operator execution match normal execution - operator contract (sibling agreement)."""
import json, os, re
import re
from rulelib import *
from facts import op_int, op_local
import opsum

THOROUGH_CFGS = ('min_none', 'min_rten', 'min_onnx')   # reduced-feature builds of the rten crate (thorough tier)

EXPLANATION = (
    "Sibling agreement over every impl Operator (macro-generated ones included, all features on): in_place_inputs non-empty "
    "<=> run_in_place overridden; declared in-place indices < max_inputs and < 16; the commutative / associative sets equal "
    "the reviewed tables (the executor swaps operands of commutative operators and the pattern matcher matches either "
    "order); a commutative in-place operator obtains its other operand position-independently (no constant-index input "
    "access in run_in_place); in the binary element-wise family run_in_place's out-of-place fallback calls the same kernel "
    "function as run and the in-place kernel is guarded by can_run_binary_op_in_place; the delegating wrapper TransformInputs "
    "applies the same transform loop in run and run_in_place, drops in-place indices that have a transform, and does not forward "
    "is_commutative; (storage-order) TensorBase::into_non_contiguous_data, which returns the buffer in storage order, is called only under "
    "is_contiguous(), on a Contiguous<..> value or by a buffer-pool recycler - never by a kernel that re-wraps the buffer with the logical shape "
    "(an owned value reaching run_in_place may be non-contiguous). Decides the contract between operator and executor, not bit-equality of results.")
ASSUMPTIONS = ["operators' numeric kernels are not evaluated"]

INPUT_IDX = ('re:^rten::operator::InputList::<.a>::(get|get_as|require|require_as|get_mut)$',)


def optable():
    return json.load(open(os.path.join(os.path.dirname(__file__), '..', 'tables', 'operators.json')))


def run(ctx):
    fb = ctx.fb()
    T = optable()
    storage_order(ctx, fb, 'C13.storage-order')
    ops = opsum.all_ops(fb)
    ctx.floor('C13.pairing', 'impl Operator', len(ops), 160)
    n_inplace = 0
    comm, assoc = set(), set()
    for o in ops:
        ip = o.get('in_place_inputs')
        has_rip = o.overridden('run_in_place')
        # ---- pairing
        R = 'C13.pairing'
        if ip[0] == 'set':
            nonempty = bool(ip[1])
            ctx.inst(R, o.short, nonempty == has_rip,
                     'in_place_inputs=%s, run_in_place overridden=%s (a declared in-place input without run_in_place makes the executor call the failing default; an override that is never selected is dead)' % (sorted(ip[1]), has_rip),
                     fb.fn(o.path('run')).loc() if o.path('run') else '')
            if nonempty:
                n_inplace += 1
                mi = o.get('max_inputs')
                ok = all(i < 16 for i in ip[1]) and (mi[0] != 'opt' or mi[1] is None or not isinstance(mi[1], int) or all(i < mi[1] for i in ip[1]))
                ctx.inst('C13.index-range', o.short, ok, 'in-place indices %s within max_inputs=%s and < 16' % (sorted(ip[1]), mi[1] if mi[0] == 'opt' else mi[:2]))
        else:
            # non-constant: only the delegating wrapper
            ctx.inst(R, o.short, o.short in T['delegating'] and has_rip, 'in_place_inputs is computed (%s): allowed only for delegating wrappers that also override run_in_place' % ip[1])
        # ---- commutative / associative tables
        c, a = o.get('is_commutative'), o.get('is_associative')
        if c != ('bool', False):
            comm.add(o.short)
            ctx.inst('C13.commutative-set', 'commutative:' + o.short, c == ('bool', True) and o.short in T['commutative'],
                     'is_commutative()=%s -> %s' % (c[:2], T['commutative'].get(o.short, 'NOT IN TABLE: executor / pattern matcher would reorder operands of a non-commutative operator')),
                     fb.fn(o.path('is_commutative')).loc())
        if a != ('bool', False):
            assoc.add(o.short)
            ctx.inst('C13.commutative-set', 'associative:' + o.short, a == ('bool', True) and o.short in T['associative'],
                     'is_associative()=%s -> %s' % (a[:2], T['associative'].get(o.short, 'NOT IN TABLE')), fb.fn(o.path('is_associative')).loc())
        # ---- commutative & in-place: position-independent operand access
        if c == ('bool', True) and ip[0] == 'set' and ip[1] and has_rip:
            fns = [fb.fn(p) for p in fb.with_closures(o.path('run_in_place'))]
            idx_calls = [cc for f in fns for cc in f.calls() if call_is(cc, INPUT_IDX)]
            fp = [cc for f in fns for cc in f.calls() if call_is(cc, ('re:InputList::<.a>::(require_first_present_as|first_present)$',))]
            ctx.inst('C13.commutative', o.short, not idx_calls and bool(fp),
                     'commutative in-place operator takes the remaining operand via require_first_present_as/first_present (%d) and never by constant index (%d): the executor may have taken either operand in place' % (len(fp), len(idx_calls)),
                     fb.fn(o.path('run_in_place')).loc())
    ctx.floor('C13.pairing', 'operators with in-place support', n_inplace, 60)
    ctx.floor('C13.commutative-set', 'commutative operators found', len(comm), 7)

    # ---- binary element-wise fallback
    R = 'C13.fallback'
    BE = 'rten::ops::binary_elementwise::'
    fam = [o for o in ops if o.ty.startswith(BE) and o.overridden('run_in_place')]
    ctx.floor(R, 'binary element-wise in-place operators', len(fam), 5)
    for o in fam:
        def kernels(path):
            out = set()
            for p in fb.with_closures(path):
                f = fb.fn(p)
                for c in f.calls():
                    if not (c.callee and c.callee.startswith(BE)):
                        continue
                    rest = c.callee[len(BE):]
                    if ('::' not in rest and rest[0].islower()) or rest.startswith(o.short + '::'):
                        out.add(rest)
            return out
        kr, ki = kernels(o.path('run')), kernels(o.path('run_in_place'))
        helpers = {'can_run_binary_op_in_place'}
        ctx.inst(R, 'same-kernel:' + o.short, (kr - helpers) <= ki and bool(kr - helpers),
                 'out-of-place kernels of run %s are all used by run_in_place\'s fallback %s' % (sorted(kr - helpers), sorted(ki - helpers)), fb.fn(o.path('run_in_place')).loc())
        f = fb.fn(o.path('run_in_place'))
        inpl = [c for p in fb.with_closures(o.path('run_in_place')) for c in fb.fn(p).calls() if c.callee and c.callee.startswith(BE) and c.callee.endswith('_in_place') and not c.callee.endswith('can_run_binary_op_in_place')]
        if inpl:
            ok = all(guards_call(c.fn, c.bb, BE + 'can_run_binary_op_in_place', True) for c in inpl)
            ctx.inst(R, 'in-place-kernel-guarded:' + o.short, ok, '%d in-place kernel call(s) dominated by positive can_run_binary_op_in_place' % len(inpl), f.loc())

    # ---- the in-place predicate itself: true only if `b` broadcasts to `a`'s shape (otherwise the output shape of the
    # normal path differs from the shape of the in-place operand)
    pf = fb.fn(BE + 'can_run_binary_op_in_place')
    if pf is None or not pf.has_mir():
        ctx.inst(R, 'anchor:can_run_binary_op_in_place', False, 'predicate not found', '')
    else:
        bad = None
        nret = 0
        for (bb, j, kind, payload, dpl) in pf.defs().get(0, []):
            nret += 1
            if kind == 'call':
                if not re.search(r'::can_broadcast_to$', payload.callee or ''):
                    bad = 'returns the result of %s' % (payload.callee or '').split('::')[-1]
                continue
            rv = payload
            if rv[0] == 'use' and rv[1][0] == 'k':
                val = str(rv[1][1])
                if val.endswith('true') and not guards_call(pf, bb, 're:::can_broadcast_to$', True):
                    bad = 'returns true on a path that has not checked that the other operand broadcasts to the in-place operand\'s shape'
            else:
                r = pf.resolve_copy(rv[1]) if rv[0] == 'use' else ('rv', rv)
                if not (r[0] == 'call' and re.search(r'::can_broadcast_to$', r[1].callee or '')):
                    bad = 'returns a value that is not the broadcast check'
        ctx.inst(R, 'predicate:broadcast-checked', bad is None and nret >= 1, 'can_run_binary_op_in_place is true only when b.can_broadcast_to(a.shape())' if bad is None else
                 'can_run_binary_op_in_place %s: the in-place result would keep the in-place operand\'s shape while normal execution produces the broadcast shape' % bad, pf.loc())

    # ---- the in-place path does the work the normal path does: if every Ok path of `run` goes through a kernel of the
    # operator's module, so must every Ok path of `run_in_place`; a path that hands the in-place input back untouched
    # (an 'optimisation' for a case the normal path still transforms) makes the two executions differ
    R = 'C13.kernel-on-every-path'
    BYPASS_OK = {
        'Tile': 'returns the input itself only when every repeat is 1, where tile() copies the input unchanged',
        'Identity': 'the identity: nothing to compute',
    }
    nk = 0
    for o in ops:
        if not o.overridden('run_in_place'):
            continue
        fr, fi = fb.fn(o.path('run')), fb.fn(o.path('run_in_place'))
        if fr is None or fi is None or not fr.has_mir() or not fi.has_mir():
            continue
        mod = o.ty.rsplit('::', 1)[0] + '::'

        def bypass(f):
            ks = [c for c in f.calls() if (c.callee or '').startswith(mod) and ' as rten::operator::Operator>' not in (c.callee or '')]
            errs = set(bb for (bb, j, kind, payload, pl) in f.defs().get(0, []) if kind == 'rv' and payload[0] == 'agg' and payload[3] == 'Err') | \
                set(c.bb for c in f.calls() if 'from_residual' in (c.callee or ''))
            r = f.reach_from(0, avoid=set(c.bb for c in ks) | errs)
            return len(ks), bool(set(f.return_blocks()) & r)
        (kr, br), (ki, bi) = bypass(fr), bypass(fi)
        if kr == 0 or ki == 0:
            continue      # the work is not in module-local kernels (delegating / closure-based operators): not judged
        nk += 1
        if bi and not br and o.short not in BYPASS_OK:
            # a bypass taken only for an empty tensor is the identity whatever the kernel does: not judged
            ks_ = set(c.bb for c in fi.calls() if (c.callee or '').startswith(mod) and ' as rten::operator::Operator>' not in (c.callee or ''))
            errs_ = set(bb for (bb, j, kind, payload, pl) in fi.defs().get(0, []) if kind == 'rv' and payload[0] == 'agg' and payload[3] == 'Err') | \
                set(c.bb for c in fi.calls() if 'from_residual' in (c.callee or ''))
            reach_ = fi.reach_from(0, avoid=ks_ | errs_)
            ok_defs = [bb for (bb, j, kind, payload, pl) in fi.defs().get(0, []) if bb in reach_]
            def empty_guard(bb):
                for g in fi.guards(bb):
                    cd, t = unwrap_not(g.cond(), g.truth())
                    if cd[0] == 'call' and t is True and re.search(r'::is_empty$', cd[1].callee or ''):
                        return True
                for (op, a, b, g) in normalized_cmps(fi, bb):
                    if op == 'Eq' and op_int(b) == 0 and any(x[0] == 'call' and re.search(r'::len$', x[1] or '') for x in fi.origins(a)):
                        return True
                return False
            if ok_defs and all(empty_guard(bb) for bb in ok_defs):
                bi = False
        ok = br or not bi or o.short in BYPASS_OK
        ctx.inst(R, o.short, ok, ('reviewed: ' + BYPASS_OK[o.short]) if (bi and not br and o.short in BYPASS_OK) else
                 'run_in_place has no Ok path that skips the operator\'s kernels unless run has one too' if ok else
                 'run_in_place can return Ok without calling any kernel of %s while every Ok path of run calls one: for that case in-place execution returns the input unchanged where normal execution transforms it' % mod.rstrip(':'), fi.loc())
    ctx.floor(R, 'in-place operators whose work is in module-local kernels', nk, 40)

    # ---- run_in_place falling back to the operator's own run: the rebuilt input list keeps input positions (optional
    # inputs may be absent: a `flatten()` over the remaining inputs drops their placeholders and shifts later inputs)
    R = 'C13.fallback'
    nfb = 0
    for o in ops:
        if not o.overridden('run_in_place'):
            continue
        fi = fb.fn(o.path('run_in_place'))
        if fi is None or not fi.has_mir():
            continue
        self_run = [c for c in fi.calls() if c.callee == o.path('run')]
        if not self_run:
            continue
        nfb += 1
        flat = [c for c in fi.calls() if re.search(r'Iterator::(flatten|filter_map|flat_map)$|Iterator::filter$', c.callee or '')]
        pos = [c for c in fi.calls() if re.search(r'InputList::<.a>::from_optional$', c.callee or '')]
        ok = not flat and bool(pos)
        ctx.inst(R, 'positional-inputs:' + o.short, ok, 'the fallback to run rebuilds the inputs with InputList::from_optional and no dropping adaptor' if ok else
                 'the fallback to run rebuilds the input list through %s: the placeholder of an omitted optional input is dropped, later inputs shift position, and in-place execution differs from normal execution' % ((flat[0].callee or '').split('::')[-1] if flat else 'a non-positional constructor'), fi.loc())
    ctx.floor(R, 'run_in_place impls that fall back to their own run', nfb, 1)

    # ---- delegation (TransformInputs)
    R = 'C13.delegation'
    ti = [o for o in ops if o.short == 'TransformInputs']
    if ctx.anchor(R, 'impl Operator for TransformInputs', bool(ti)):
        o = ti[0]
        def seq(path):
            f = fb.fn(path)
            return [c.callee for c in sorted(f.calls(), key=lambda c: c.bb) if not call_is(c, ('re:^rten::operator::Operator::run(_in_place)?$',)) and c.callee and (c.callee.startswith(('rten::', '<rten::')))]
        s1, s2 = seq(o.path('run')), seq(o.path('run_in_place'))
        ctx.inst(R, 'same-transform-sequence', s1 == s2 and any('transform' in x.lower() for x in s1),
                 'run and run_in_place apply the same sequence of rten calls before delegating (%d calls; transform applied: %s)' % (len(s1), any('transform' in x.lower() for x in s1)), fb.fn(o.path('run')).loc())
        ctx.inst(R, 'commutativity-not-forwarded', o.get('is_commutative') == ('bool', False),
                 'TransformInputs::is_commutative = %s (a permuted operand must not be swapped by the executor)' % (o.get('is_commutative')[:2],))
        f = fb.fn(o.path('in_place_inputs'))
        fns = [fb.fn(p) for p in fb.with_closures(f.path)]
        gets = [c for g in fns for c in g.calls() if call_is(c, 're:bit_set::BitSet::<B>::get$')]
        rets = [(bb, kind, pl) for (bb, j, kind, pl, dp) in f.defs().get(0, [])]
        # the inner set is returned only when no transform touches an in-place input
        ok = False
        for bb, kind, pl in rets:
            if kind == 'rv' and pl[0] == 'use' and op_local(pl[1]) is not None:
                src = f.resolve_copy(pl[1])
                if src[0] == 'call' and call_is(src[1], 're:Operator::in_place_inputs$'):
                    gs = [g for g in f.guards(bb) if g.truth() is False]
                    ok = bool(gs) and bool(gets)
        ctx.inst(R, 'in-place-set-filtered', ok, 'inner in_place_inputs is returned only on the negative side of the any-transform-touches-an-in-place-input test (BitSet::get calls: %d)' % len(gets), f.loc())


def storage_order(ctx, fb, R):
    """TensorBase::into_non_contiguous_data hands out the buffer in storage order, which equals logical order only for a
    contiguous layout.  An owned value that reaches run_in_place may be non-contiguous (permuted owned input, in-place Slice),
    so a kernel that takes the raw buffer and re-wraps it with the logical shape returns different elements from the copying
    path.  Every call site must be one of: under an is_contiguous() test, on a Contiguous<..> wrapper, or a buffer-pool
    recycler (contents dead)."""
    n = 0
    for f in fb.fns():
        if not f.has_mir() or '::tests' in f.path or f.crate.name not in ('rten', 'rten_tensor', 'rten_generate', 'rten_imageproc', 'rten_text', 'rten_simd', 'rten_vecmath', 'rten_gemm', 'rten_base'):
            continue
        for c in f.calls():
            if not re.search(r'TensorBase::<.*>::into_non_contiguous_data$', c.callee or ''):
                continue
            n += 1
            short = f.path
            why = None
            if re.search(r'^rten_tensor::contiguous::Contiguous::<', f.path):
                why = 'receiver is the inner tensor of a Contiguous<..> wrapper, whose constructors establish contiguity'
            elif re.search(r' as rten::buffer_pool::ExtractBuffer>::extract_buffer$', f.path):
                why = 'buffer recycling: only the allocation is kept, the element order is dead'
            else:
                if guards_call(f, c.bb, ('re:::is_contiguous$',), True):
                    why = 'reached only when is_contiguous() returned true'
            k = 'raw-buffer:' + re.sub(r"<'?\w+>", '', short)
            ctx.inst(R, k, why is not None, why or
                     'into_non_contiguous_data() returns the elements in storage order; here it is neither under an is_contiguous() test, nor on a Contiguous<..> value, nor a buffer-pool recycler: for a non-contiguous owned tensor (permuted input, in-place Slice of an inner dimension) the buffer does not match the logical shape, so the in-place path returns other elements than the copying path (or panics on the length)', c.loc())
    ctx.floor(R, 'into_non_contiguous_data call sites', n, 3)
