"""C22 Concurrent use of one model gives sequential results: shared-state inventory + lock discipline."""
import re
from rulelib import *
from callgraph import CallGraph

THOROUGH_CFGS = ('min_none', 'min_rten', 'min_onnx')   # reduced-feature builds of the rten crate (thorough tier)

EXPLANATION = (
    "Model::run/partial_run take &self, so concurrent calls can only communicate through interior-mutable state "
    "reachable from &Model and through statics. (1) Type walk from rten::model::Model through every field type, generic "
    "argument and - at dyn Operator - every impl Operator type: the set of interior-mutability leaves, opaque third-party "
    "types, dyn holes, statics and unsafe Send/Sync impls must be inside the reviewed tables. (2) get_cached_plan: one "
    "lock(), not in a loop; the returned Arc<CachedPlan> is either a clone of the guarded value under a positive "
    "matches(inputs, outputs) guard on the function's own parameters, or re-read from the guarded cell after storing "
    "CachedPlan::new(inputs, outputs, create_plan(inputs, outputs)); the guard is alive across store and read. "
    "(3) No critical section (transitively, workspace call graph with CHA) acquires another lock or enters the thread "
    "pool. (4) Panic-capable sites inside the plan critical section are enumerated against a reviewed table (poisoning). "
    "Decides this structure for all schedules by construction; does not execute threads.")
ASSUMPTIONS = ["Rust's aliasing rules: state not reachable through interior mutability cannot be written through &Model",
               "std::sync::Mutex is a correct mutual-exclusion lock", "data-race freedom inside rayon-parallel kernels is delegated to the type system and the unsafe inventories of C06/C25"]

IM = re.compile(r'^(Mutex|RwLock|RefCell|Cell|UnsafeCell|SyncUnsafeCell|Atomic.*|OnceLock|OnceCell|LazyLock|LazyCell|Condvar|Once|Sender|Receiver|SyncSender|Barrier)$')
LIB_CRATES = {'rten', 'rten_tensor', 'rten_gemm', 'rten_simd', 'rten_vecmath', 'rten_base', 'rten_parallel',
              'rten_shape_inference', 'rten_onnx', 'rten_model_file'}
LOCKS = ('re:Mutex::<T>::(lock|try_lock)$', 're:RwLock::<T>::(read|write|try_read|try_write)$')
POOL = ('re:^rten::threading::ThreadPool::run$', 're:^rayon', 're:^rayon_core::', 're:ParallelIterator', 're:IntoParallelIterator')


def inventory(fb, root):
    seen, leaves, opaque, dyns = set(), set(), set(), set()

    def walk(p):
        if p in seen:
            return
        seen.add(p)
        a = fb.adt(p)
        if a is None:
            opaque.add(p)
            return
        for v in a['variants']:
            for f in v['fields']:
                for q in f['adts']:
                    if IM.match(q.split('::')[-1]):
                        leaves.add('%s.%s: %s' % (p, f['name'], q))
                for d in f['dyns']:
                    dyns.add(d)
                    for i in fb.impls(trait=d):
                        if i.get('self_adt'):
                            walk(i['self_adt'])
                for q in f['adts']:
                    walk(q)
    walk(root)
    return seen, leaves, opaque, dyns


def section_blocks(f, lock_call):
    """blocks executed while the guard returned by lock_call may be held: from the lock's target until a
    drop / mem::drop of the guard local (the unwrap() result)"""
    guard = None
    for c in f.calls():
        if call_is(c, ('re:Result::<T, E>::(unwrap|expect)$',)) and op_local(c.args[0]) == lock_call.dest[0]:
            guard = c.dest[0]
    if guard is None:
        guard = lock_call.dest[0]
    enders = set()
    for i, b in enumerate(f.bbs):
        t = b['t']
        if t[0] == 'drop' and t[1][0] == guard and len(t[1]) == 1:
            enders.add(i)
        if t[0] == 'call':
            c = Call(f, i, t)
            if call_is(c, 'core::mem::drop') and f.resolve_copy(c.args[0]) and op_local(c.args[0]) is not None:
                r = f.resolve_copy(c.args[0])
                if (r[0] == 'call' and r[1].dest[0] == guard) or (r[0] == 'place' and r[1][0] == guard):
                    enders.add(i)
    start = lock_call.target
    blocks = f.reach_from(start, avoid=set()) if start is not None else set()
    # stop at enders: recompute reach not passing beyond enders
    seen = set()
    st = [start] if start is not None else []
    while st:
        b = st.pop()
        if b in seen:
            continue
        seen.add(b)
        if b in enders:
            continue
        for s in f.succ()[b]:
            st.append(s)
    return guard, seen, enders


def run(ctx):
    fb = ctx.fb()
    cg = CallGraph(fb)
    T = ctx.tables

    # ---------------- C22.inventory
    R = 'C22.inventory'
    root = 'rten::model::Model'
    if ctx.anchor(R, 'adt ' + root, fb.adt(root) is not None):
        seen, leaves, opaque, dyns = inventory(fb, root)
        ctx.count('types_walked', len(seen))
        ctx.floor(R, 'types walked from Model', len(seen), 150)
        ops = [i for i in fb.impls(trait='rten::operator::Operator')]
        ctx.floor(R, 'impl Operator types filled into the dyn hole', len(ops), 150)
        for l in sorted(leaves):
            ctx.inst(R, 'leaf:' + l, l in T.get('leaves', {}), 'interior-mutable state reachable from &Model: %s -> %s' % (l, T.get('leaves', {}).get(l, 'NOT IN TABLE: new shared mutable state')))
        ctx.inst(R, 'leaf-anchor:cached_plan', any('Graph.cached_plan' in l for l in leaves), 'the plan cache mutex is found by the walk (sanity of the walk itself)', nontrivial=False)
        for d in sorted(dyns):
            ctx.inst(R, 'dyn:' + d, d in T.get('dyn_holes', {}), 'dyn hole %s: %s' % (d, T.get('dyn_holes', {}).get(d, 'NOT IN TABLE')))
        for o in sorted(o for o in opaque if not o.startswith(('core::', 'alloc::', 'std::'))):
            ctx.inst(R, 'opaque:' + o, o in T.get('opaque', {}), 'third-party type %s: %s' % (o, T.get('opaque', {}).get(o, 'NOT IN TABLE')))
    for s, c in fb.statics():
        if c.name not in LIB_CRATES:
            continue
        key = re.sub(r'::\{constant#\d+\}.*$', '', s['p'])
        shared_mut = (not s['freeze']) or s['mut']
        if not shared_mut:
            continue
        tab = T.get('tls_statics' if s['tls'] else 'statics', {})
        ctx.inst(R, ('tls:' if s['tls'] else 'static:') + key, key in tab, '%s static %s : %s -> %s' % ('thread-local' if s['tls'] else 'process-wide', key, s['ty'][:70], tab.get(key, 'NOT IN TABLE')), '%s:%s' % (s['f'], s['l']))
    for i in fb.impls():
        if i['unsafe'] and i['trait'] in ('core::marker::Send', 'core::marker::Sync'):
            key = '%s for %s' % (i['trait'].split('::')[-1], i['self'])
            ctx.inst(R, 'unsafe-impl:' + key, key in T.get('unsafe_send_sync', {}), 'unsafe impl %s -> %s' % (key, T.get('unsafe_send_sync', {}).get(key, 'NOT IN TABLE')), '%s:%s' % (i['f'], i['l']))
    # run entry points take &self
    R2 = 'C22.shared-ref'
    for p in ('rten::model::Model::run', 'rten::model::Model::partial_run', 'rten::model::Model::run_one', 'rten::model::Model::run_n',
              'rten::graph::Graph::run', 'rten::graph::Graph::partial_run', 'rten::graph::Graph::run_plan', 'rten::graph::Graph::get_cached_plan'):
        f = fb.fn(p)
        if ctx.anchor(R2, 'fn ' + p, f is not None):
            t0 = f.ty(f.o['sig_in'][0]) if f.o.get('sig_in') else ''
            ctx.inst(R2, 'self-by-shared-ref:' + p, t0.startswith('&') and not t0.startswith('&mut') and "mut " not in t0.split(' ')[0:2][-1:], '%s takes %s' % (p.split('::')[-1], t0[:60]), f.loc())

    # ---------------- C22.atomic-plan
    R = 'C22.atomic-plan'
    g = fb.fn('rten::graph::Graph::get_cached_plan')
    if ctx.anchor(R, 'fn get_cached_plan', g is not None and g.has_mir()):
        locks = [c for c in g.calls() if call_is(c, LOCKS)]
        ok1 = len(locks) == 1 and not g.in_loop(locks[0].bb) and has_param_origin(g.origins(locks[0].args[0]), 0, 'cached_plan')
        ctx.inst(R, 'single-lock', ok1, 'exactly one lock() of self.cached_plan outside any loop (found %d)' % len(locks), g.loc())
        if locks:
            guard, sect, enders = section_blocks(g, locks[0])
            derefs = [c for c in g.calls() if call_is(c, ('re:MutexGuard<.*> as core::ops::deref::Deref(Mut)?>::deref(_mut)?$',))]
            alive = all(not any(d.bb in g.reach_from(g.successors(e)[0]) for e in enders if g.successors(e)) for d in derefs)
            ctx.inst(R, 'guard-alive', bool(derefs) and alive and all(d.bb in sect for d in derefs),
                     'every access to the guarded cell happens while the guard local _%s is held (%d accesses, %d release points)' % (guard, len(derefs), len(enders)), g.loc())
            # producers of the returned Arc
            oks = [(bb, pl) for (bb, j, kind, pl, dp) in g.defs().get(0, []) if kind == 'rv' and pl[0] == 'agg' and pl[3] == 'Ok']
            ctx.floor(R, 'Ok exits', len(oks), 1)
            for bb, pl in oks:
                loc = op_local(pl[4][0])
                # walk trivial copies
                seenl = set()
                producers = []
                work = [loc]
                while work:
                    l = work.pop()
                    if l in seenl or l is None:
                        continue
                    seenl.add(l)
                    for (b2, j2, k2, p2, dp2) in g.defs().get(l, []):
                        if k2 == 'rv' and p2[0] == 'use' and op_local(p2[1]) is not None and len(op_place(p2[1])) == 1:
                            work.append(op_local(p2[1]))
                        else:
                            producers.append((b2, k2, p2))
                ctx.floor(R, 'producers of the returned plan', len(producers), 2)
                for b2, k2, p2 in producers:
                    if k2 == 'call' and call_is(p2, 're:<alloc::sync::Arc<T, A> as core::clone::Clone>::clone$'):
                        gm = guards_call(g, b2, 'rten::graph::planner::CachedPlan::matches', True)
                        okm = any(has_param_origin(g.origins(c.args[1]), 1) and has_param_origin(g.origins(c.args[2]), 2) and
                                  not has_param_origin(g.origins(c.args[1]), 2) and not has_param_origin(g.origins(c.args[2]), 1) for _, c in gm)
                        okd = has_origin_call(g.origins(p2.args[0]), 're:MutexGuard<.*> as core::ops::deref::Deref>::deref$')
                        ctx.inst(R, 'producer:clone-under-matches', okm and okd,
                                 'cached Arc cloned only under positive matches(inputs, outputs) on this call\'s own parameters (guard=%s) and read through the MutexGuard (%s)' % (okm, okd), p2.loc())
                    elif k2 == 'call' and call_is(p2, ('re:Option::<T>::(unwrap|expect)$',)) and has_origin_call(g.origins(p2.args[0]), 're:MutexGuard<.*> as core::ops::deref::Deref>::deref$'):
                        # must be dominated by a store of CachedPlan::new(inputs, outputs, create_plan(inputs, outputs))
                        stores = []
                        for i, b in enumerate(g.bbs):
                            if b.get('c'):
                                continue
                            for s in b['s']:
                                if s[0] == '=' and len(s[1]) == 2 and s[1][1] == '*' and has_origin_call(g.place_origins([s[1][0]]), 're:DerefMut>::deref_mut$') and g.dominates(i, b2):
                                    stores.append((i, s))
                        oks_ = False
                        for i, s in stores:
                            so = g.origins(s[2][1]) if s[2][0] == 'use' else set()
                            news = [c for c in g.calls() if call_is(c, 'rten::graph::planner::CachedPlan::new') and ('call', c.callee, c.bb, ()) in so]
                            for c in news:
                                a0, a1, a2 = (g.origins(x) for x in c.args[:3])
                                cps = [x for x in g.calls() if call_is(x, 'rten::graph::Graph::create_plan') and ('call', x.callee, x.bb, ('0',)) in a2 or ('call', x.callee, x.bb, ()) in a2]
                                okcp = any(has_param_origin(g.origins(x.args[1]), 1) and has_param_origin(g.origins(x.args[2]), 2) for x in cps if call_is(x, 'rten::graph::Graph::create_plan'))
                                if has_param_origin(a0, 1) and has_param_origin(a1, 2) and not has_param_origin(a0, 2) and not has_param_origin(a1, 1) and okcp:
                                    oks_ = True
                        ctx.inst(R, 'producer:reread-after-store', oks_,
                                 're-read of the guarded cell is dominated by storing Some(Arc::new(CachedPlan::new(inputs, outputs, create_plan(inputs, outputs)))) under the same guard', p2.loc())
                    else:
                        ctx.inst(R, 'producer:unrecognised', False, 'returned plan produced by an unrecognised path (%s) - cannot show it matches this call\'s inputs/outputs' % (p2.callee if k2 == 'call' else p2[0]), g.loc())
        matches_rules(ctx, fb, R)
        n = fb.fn('rten::graph::planner::CachedPlan::new')
        if ctx.anchor(R, 'fn CachedPlan::new', n is not None and n.has_mir()):
            aggs = [a for a in aggregates_of(fb, 'rten::graph::planner::CachedPlan') if a[0].path == n.path]
            ok = False
            if aggs:
                f, bb, s, rv = aggs[0]
                a = fb.adt('rten::graph::planner::CachedPlan')
                names = [fd['name'] for fd in a['variants'][0]['fields']]
                fl = dict(zip(names, rv[4]))
                ok = has_param_origin(n.origins(fl['inputs']), 0) and has_param_origin(n.origins(fl['outputs']), 1) and has_param_origin(n.origins(fl['plan']), 2) \
                    and not has_param_origin(n.origins(fl['inputs']), 1) and not has_param_origin(n.origins(fl['outputs']), 0)
            ctx.inst(R, 'new:fields-from-own-params', ok, 'CachedPlan{inputs,outputs,plan} filled from the matching parameters', n.loc())
        others = [(f, bb) for f, bb, s, rv in aggregates_of(fb, 'rten::graph::planner::CachedPlan') if f.path != 'rten::graph::planner::CachedPlan::new' and f.o.get('trait') != 'core::clone::Clone']
        ctx.inst(R, 'CachedPlan-single-constructor', not others, 'CachedPlan built only in CachedPlan::new (other sites: %s)' % [f.path for f, _ in others])
        # CachedPlan has no interior mutability and no &mut methods reachable from run
        cp = fb.adt('rten::graph::planner::CachedPlan')
        if cp:
            ctx.inst(R, 'CachedPlan-freeze', all(fd['freeze'] and not any(IM.match(q.split('::')[-1]) for q in fd['adts']) for v in cp['variants'] for fd in v['fields']), 'CachedPlan fields are plain Vec<NodeId> (no interior mutability): a plan shared between threads cannot change')

    # ---------------- C22.lock-order
    R = 'C22.lock-order'
    sites = [(f, c) for (f, c) in callers_of(fb, LOCKS) if f.crate.name in LIB_CRATES]
    ctx.floor(R, 'lock sites in library crates', len(sites), 5)
    tab = T.get('lock_sites', {})
    for f, c in sites:
        key = f.path
        ctx.inst(R, 'lock-site:' + key, key in tab, 'lock site in %s -> %s' % (key, tab.get(key, 'NOT IN TABLE (new lock: review ordering)')), c.loc())
        guard, sect, enders = section_blocks(f, c)
        inner_roots = []
        direct_bad = []
        for c2 in f.calls():
            if c2.bb in sect and c2.bb != c.bb:
                if call_is(c2, LOCKS):
                    direct_bad.append(c2)
                for q, cc, how in cg.callees(f):
                    if cc is c2 or (cc is not None and cc.bb == c2.bb):
                        inner_roots.append(q)
        # precise + sound where a monomorphic reach root exists for the callee; polymorphic graph otherwise
        pred = {}
        bad = []
        poly_roots = set()
        for q in set(inner_roots):
            r = fb.reach(q)
            if r is not None and not r.skipped:
                for dp, inst, node in r.instances():
                    pred.setdefault(dp, (None, None))
                    if suffix_match(dp, LOCKS) or suffix_match(dp, POOL):
                        bad.append('%s (mono-reachable from %s)' % (dp, q))
                if r.unresolved:
                    bad.append('unresolved callees in mono walk from %s: %s' % (q, r.unresolved[:3]))
                ctx.count('mono_reach_roots_used')
            else:
                poly_roots.add(q)
        pp = cg.closure(poly_roots)
        for p in pp:
            pred.setdefault(p, pp[p])
            fn2 = fb.fn(p)
            if suffix_match(p, LOCKS) or suffix_match(p, POOL):
                bad.append(p)
            elif fn2 is not None and fn2.has_mir():
                for c3 in fn2.calls():
                    if call_is(c3, LOCKS) or call_is(c3, POOL):
                        bad.append(p + ' -> ' + c3.callee)
        ctx.count('critical_section_closure_functions', len(pred))
        ctx.inst(R, 'no-nested-lock:' + key, not bad and not direct_bad,
                 'critical section of %s: %d blocks, %d functions in its call closure; nested lock / thread-pool entries: %s' % (f.name, len(sect), len(pred), (bad + [x.callee for x in direct_bad])[:4]), c.loc())
        # ---------------- C22.poison: panic sites inside the section closure
        if f.path == 'rten::graph::Graph::get_cached_plan':
            ptab = T.get('poison_panic_sites', {})
            n_sites = 0
            for p in sorted(set(pred) | {f.path}):
                fn2 = fb.fn(p)
                if fn2 is None or not fn2.has_mir() or not cg.is_workspace(p):
                    continue
                for s in panic_sites(fn2):
                    if p == f.path and s['bb'] not in sect:
                        continue
                    if s['exp'] and 'debug_assert' in str(s.get('detail', '')):
                        continue
                    k = '%s|%s' % (p, s['detail'] if s['kind'].startswith('call') else s['kind'])
                    n_sites += 1
                    ctx.inst('C22.poison', k, k in ptab, 'panic-capable site inside the plan-cache critical section: %s -> %s' % (k, ptab.get(k, 'NOT IN TABLE (a panic here poisons the plan mutex for every other thread)')), fn2.loc(s['line']))
            ctx.count('poison_sites', n_sites)


def matches_rules(ctx, fb, R):
    # CachedPlan::matches depends on both inputs and outputs
    m = fb.fn('rten::graph::planner::CachedPlan::matches')
    if ctx.anchor(R, 'fn CachedPlan::matches', m is not None and m.has_mir()):
        fns = [fb.fn(p) for p in fb.with_closures(m.path)]

        def unit_facts(f, pa, pb_test):
            """inside f (+ nested closures): length equality, membership search and duplicate check between the list
            selected by pa (origin predicate) and the one selected by pb_test"""
            sub = [fb.fn(p) for p in fb.with_closures(f.path)]
            leneq = False
            for b in f.bbs:
                for st in b['s']:
                    if st[0] == '=' and st[2][0] == 'bin' and st[2][1] == 'Eq':
                        oa, ob = f.origins(st[2][2]), f.origins(st[2][3])
                        la = has_origin_call(oa, 're:::len$') or any(o[0] == 'len_of' for o in oa)
                        lb = has_origin_call(ob, 're:::len$') or any(o[0] == 'len_of' for o in ob)
                        if la and lb and ((pa(oa) and pb_test(ob)) or (pa(ob) and pb_test(oa))):
                            leneq = True
            member = False
            for g in sub:
                for c in g.calls():
                    if not call_is(c, 're:binary_search$|re:::contains$'):
                        continue
                    if g is f:
                        member |= pb_test(f.origins(c.args[0]))
                    elif any(o[0] == 'upvar' for o in g.origins(c.args[0])):
                        # searched list is captured: look at what the closure was created with
                        for b in f.bbs:
                            for st in b['s']:
                                if st[0] == '=' and st[2][0] == 'agg' and st[2][1] == 'closure' and st[2][2] == g.path:
                                    member |= any(pb_test(f.origins(o)) for o in st[2][4])
            nodup = False
            for c in f.calls():
                if call_is(c, ('rten::graph::planner::first_duplicate_by', 're:::is_sorted', 're:::dedup')) and pa(f.origins(c.args[0])):
                    # the result must decide the outcome (is_none feeding the return value / a guard)
                    nodup = True
            return leneq, member, nodup

        units = {}
        # helper form: matches calls one of its own closures with (param list, self.<field>)
        for c in m.calls():
            if not (c.callee or '').startswith(m.path + '::{closure'):
                continue
            h = fb.fn(c.callee)
            tup = m.resolve_copy(c.args[1]) if len(c.args) > 1 else None
            if h is None or tup is None or tup[0] != 'rv' or tup[1][0] != 'agg' or len(tup[1][4]) != 2:
                continue
            o1, o2 = m.origins(tup[1][4][0]), m.origins(tup[1][4][1])
            for pi, fld in ((1, 'inputs'), (2, 'outputs')):
                if has_param_origin(o1, pi) and has_param_origin(o2, 0, fld) and not has_param_origin(o2, 0, 'outputs' if fld == 'inputs' else 'inputs'):
                    units[fld] = unit_facts(h, lambda og: has_param_origin(og, 1), lambda og: has_param_origin(og, 2))
        # direct form: everything inside matches itself
        for pi, fld in ((1, 'inputs'), (2, 'outputs')):
            if fld not in units:
                units[fld] = unit_facts(m, lambda og, pi=pi: has_param_origin(og, pi), lambda og, fld=fld: has_param_origin(og, 0, fld))
        dep = depends(m, 0)
        need = {'param inputs': any(l == 2 for l, f in dep), 'param outputs': any(l == 3 for l, f in dep),
                'self.inputs': any(l == 1 and 'inputs' in f for l, f in dep), 'self.outputs': any(l == 1 and 'outputs' in f for l, f in dep)}
        okb = all(u[0] and u[1] for u in units.values()) and all(need.values())
        ctx.inst(R, 'matches:both-sets', okb,
                 'matches compares each id list with the stored one: %s (length equality, membership search); the returned value depends (data/control) on %s'
                 % ({k: (v[0], v[1]) for k, v in units.items()}, need), m.loc())
        ctx.inst(R, 'matches:rejects-duplicates', all(u[2] for u in units.values()),
                 'a list of the right length whose ids are all present but repeated must not match (otherwise the cache bypasses the planner\'s duplicate checks and run_plan panics): duplicate check present for %s'
                 % {k: v[2] for k, v in units.items()}, m.loc())

