"""C25 Model runs are deterministic and leave model and inputs unchanged - immutability of model state and borrowed inputs."""
import re
from rulelib import *
from facts import op_int, op_local, op_place
import C02
import C13

THOROUGH_CFGS = ('min_none', 'min_rten', 'min_onnx')   # reduced-feature builds of the rten crate (thorough tier)
# instances whose subject does not exist in a reduced-feature build (format crates not linked, no random operators)
CFG_DEPENDENT_KEYS = ('C25.no-const-cast|crate:rten_model_file', 'C25.no-const-cast|crate:rten_onnx', 'C25.determinism|sink-reaching-operators-declare-nondeterminism')

EXPLANATION = (
    "Immutability, decided structurally: (shared-ref) Model::run/run_n/run_one/partial_run and Graph::run/partial_run/"
    "run_subgraph/run_plan take &self, so by Rust's aliasing rules a run can only change state behind interior mutability "
    "(inventoried by C22) or through an unsafe escape hatch; (no-storage-mut) no constant / borrowed storage type "
    "(ArcSlice, Arc<Vec>, ViewData, CowData) implements StorageMut - the impl inventory must equal {Vec<T>, ViewMutData}; "
    "(no-const-cast) the workspace-wide inventory of *const->*mut / &->&mut casts, transmutes to mutable pointers, "
    "integer-to-pointer casts, cast_mut, UnsafeCell::get and Cell/RefCell writes must equal the reviewed table (two casts "
    "on the uninitialised int8 GEMV output row; loader-time RefCells); (owned-only) the executor passes operators views of "
    "constants and borrowed inputs and takes a value for in-place mutation only when it is an owned temporary with "
    "refcount 1, counters saturate and a saturated count is never decremented; (determinism) every operator that reaches a "
    "randomness / entropy / time sink declares itself non-deterministic; (storage-order) the census of C13.storage-order: no kernel reads an owned "
    "tensor's raw buffer in storage order outside an is_contiguous() test, so an output cannot depend on whether an input was owned or borrowed. Bit-identical float results under different "
    "reduction orders are not decided.")
ASSUMPTIONS = ["safe Rust aliasing guarantees (a &T cannot be written without interior mutability or unsafe)", "std/third-party crates are not inventoried"]
LIBS = ['rten', 'rten_tensor', 'rten_gemm', 'rten_simd', 'rten_vecmath', 'rten_base', 'rten_parallel', 'rten_shape_inference', 'rten_model_file', 'rten_onnx']


def run(ctx):
    fb = ctx.fb()
    T = ctx.tables
    shared_ref(ctx, fb)
    storage_mut(ctx, fb, T)
    const_cast(ctx, fb, T)
    C02.inplace_gate(ctx, fb, 'C25.owned-only')
    C02.views_only(ctx, fb, 'C25.views-only')
    C02.refcount_pairing(ctx, fb, 'C25.refcounts')
    determinism(ctx, fb)
    C13.storage_order(ctx, fb, 'C25.storage-order')


def shared_ref(ctx, fb):
    R = 'C25.shared-ref'
    for p in ('rten::model::Model::run', 'rten::model::Model::run_n', 'rten::model::Model::run_one', 'rten::model::Model::partial_run',
              'rten::graph::Graph::run', 'rten::graph::Graph::partial_run', 'rten::graph::Graph::run_subgraph', 'rten::graph::Graph::run_plan'):
        f = fb.fn(p)
        if not ctx.anchor(R, 'fn ' + p, f is not None):
            continue
        t0 = f.ty(f.o['sig_in'][0]) if f.o.get('sig_in') else ''
        ctx.inst(R, p.split('::', 1)[1], t0.startswith('&') and not t0.startswith('&mut'), 'receiver type is %s' % t0, f.loc())
    f = fb.fn('rten::graph::node::Constant::as_view')
    if ctx.anchor(R, 'fn Constant::as_view', f is not None):
        ctx.inst(R, 'Constant::as_view', f.ty(f.o['sig_in'][0]).startswith('&') and 'ValueView' in f.ty(f.o['sig_out']), 'constants are exposed as ValueView from &self', f.loc())


def storage_mut(ctx, fb, T):
    R = 'C25.no-storage-mut'
    allowed = set(T.get('storage_mut_impls', []))
    impls = list(fb.impls(trait='rten_tensor::storage::StorageMut'))
    ctx.floor(R, 'impl StorageMut', len(impls), 2)
    for i in impls:
        ctx.inst(R, 'impl:' + i['self'], i['self'] in allowed, 'impl StorageMut for %s (only owned Vec<T> and ViewMutData may be mutable storage)' % i['self'], '%s:%s' % (i['f'], i['l']))
    st = set(i['self'] for i in fb.impls(trait='rten_tensor::storage::Storage'))
    const_like = [s for s in st if re.search(r'ArcSlice|Arc<|ViewData<|CowData<', s)]
    ctx.floor(R, 'constant / borrowed storage types', len(const_like), 4)
    # MUTABLE associated constant of immutable storages must be false (checked through who implements StorageMut)
    for s in const_like:
        ctx.inst(R, 'immutable:' + s, s not in set(i['self'] for i in impls), '%s implements Storage but not StorageMut' % s, '')


def const_cast(ctx, fb, T):
    R = 'C25.no-const-cast'
    table = RevTable({(e['fn'], e['what']): e['reason'] for e in T.get('escape_hatches', [])})
    n = 0
    nf = 0
    for cr in LIBS:
        if cr not in fb.crates:
            ctx.inst(R, 'crate:' + cr, False, 'crate %s missing from the fact base' % cr, '')
            continue
        for f in fb.fns(crate=cr):
            if not f.has_mir():
                continue
            nf += 1
            found = []
            for i, b in enumerate(f.bbs):
                if b.get('c'):
                    continue
                for s in b['s']:
                    if s[0] == '=' and s[2][0] == 'cast':
                        src, dst, k = f.ty(s[2][3]), f.ty(s[2][4]), s[2][1]
                        shared = src.startswith('*const') or (src.startswith('&') and not src.startswith('&mut'))
                        mut = dst.startswith('*mut') or dst.startswith('&mut')
                        if shared and mut:
                            found.append(('const->mut cast', s[3]))
                        elif k.startswith('Transmute') and mut and not (src.startswith('*mut') or src.startswith('&mut')):
                            found.append(('transmute to mutable', s[3]))
                        elif 'WithExposedProvenance' in k:
                            found.append(('int->ptr cast', s[3]))
            for c in f.calls():
                if c.exp and 'thread_local' in str(c.exp):
                    continue
                if call_is(c, ('re:ptr::const_ptr::<impl \\*const T>::cast_mut$',)):
                    found.append(('cast_mut', c.line))
                elif call_is(c, ('re:UnsafeCell::<T>::(get|raw_get)$',)):
                    found.append(('UnsafeCell::get', c.line))
                elif call_is(c, ('re:core::cell::Cell::<T>::(set|replace|swap|take)$', 're:RefCell::<T>::(borrow_mut|try_borrow_mut|replace|swap|take|replace_with)$')):
                    found.append((c.callee.split('::')[-3].split('<')[0] + '::' + c.callee.split('::')[-1], c.line))
            for what, line in found:
                n += 1
                r = table.get((f.path, what))
                ctx.inst(R, '%s|%s' % (f.path, what), r is not None, ('reviewed: ' + r) if r else '%s in %s is not in the reviewed escape-hatch table: shared data could become writable' % (what, f.path), f.loc(line))
    ctx.floor(R, 'functions scanned for escape hatches', nf, 5000)
    ctx.floor(R, 'escape hatches found (positive control: the two int8 GEMV output casts)', n, 2)


def determinism(ctx, fb):
    # the converse reading of C04.nondet-table is evaluated by the C04 module; here: RandomState iteration order
    R = 'C25.determinism'
    import C04 as c04
    sub = type(ctx)(ctx.prop, ctx.tier, ctx.fact_dirs, {}, ctx.repo_hash)
    sub._fbs = ctx._fbs
    sub.default_cfg = getattr(ctx, 'default_cfg', 'ws')
    c04.run(sub)
    bad = [i for i in sub.instances if i['rule'] == 'C04.nondet-table' and not i['ok']]
    n = len([i for i in sub.instances if i['rule'] == 'C04.nondet-table'])
    ctx.inst(R, 'sink-reaching-operators-declare-nondeterminism', not bad and n > 0,
             'C04.nondet-table evaluated over %d instances: every operator reaching fastrand / getrandom / time declares !is_deterministic()%s' % (n, '' if not bad else '; violated: ' + bad[0]['key']), '')
