"""C18 SIMD instruction sets agree and stay within slice bounds - no instruction without its CPU check; tail masks."""
import re
from rulelib import *
from facts import op_int, op_local, op_place
import loaderlib as L

EXPLANATION = (
    "Capability typestate for x86_64, decided over every call in the workspace whose callee carries #[target_feature] "
    "(the 22 workspace functions and ~500 core::arch intrinsic calls; requirements are read from the callee's codegen "
    "attributes): at each call site the required features must be contained in the implication-closure of what is "
    "established there - the caller's own target features, dominating positive CPU-detection guards "
    "(is_x86_feature_detected! expansions, summarised through helper functions such as is_avx512_supported and through "
    "`T::new()` returning Some), and the detection sets of ISA-token values the caller holds (self / parameters / call "
    "arguments). Token types (Avx2Isa, Avx512Isa, Avx512VnniDotProduct, kernels that contain them, ...) are sound because "
    "their fields are private and every construction site is inside their own `new`, whose success exits are dominated by "
    "the detection guards; a struct that contains a token inherits its detection set. Private helpers without a token "
    "propagate their requirement to all their callers. (mask) masked loads/stores outside arch/ take a mask built by "
    "first_n_mask from the residual length of the same slice, and the safe load/store wrappers compare the slice length "
    "with the vector length in a non-debug assert. (float-to-int) to_int_round / to_int_trunc only on values clamped on both "
    "sides or at reviewed sites; (min-max) generic float min / max have the x86 second-operand semantics and MaxNum / MinNum "
    "keep a NaN accumulator. Agreement of results across ISAs beyond these clauses is numerical and not decided; aarch64 / wasm32 code is not type-checked on this host.")
ASSUMPTIONS = ["x86 target-feature implication table as in rustc", "std_detect reports CPU features correctly", "only the x86_64 build is analysed"]

IMPLIES = {'avx512vnni': ['avx512f'], 'avx512bw': ['avx512f'], 'avx512dq': ['avx512f'], 'avx512vl': ['avx512f'], 'avx512f': ['avx2', 'fma', 'f16c'],
           'avx2': ['avx'], 'fma': ['avx'], 'f16c': ['avx'], 'avx': ['sse4.2'], 'sse4.2': ['sse4.1'], 'sse4.1': ['ssse3'], 'ssse3': ['sse3'], 'sse3': ['sse2'], 'sse2': ['sse'],
           'avx512cd': ['avx512f'], 'avx512vbmi': ['avx512bw'], 'popcnt': [], 'bmi1': [], 'bmi2': [], 'lzcnt': []}
BASELINE = {'sse', 'sse2'}   # guaranteed by the x86_64 target
CRATES = ('rten_simd', 'rten_gemm', 'rten_vecmath', 'rten', 'rten_tensor', 'rten_base', 'rten_generate', 'rten_imageproc', 'rten_text')


def closure(feats):
    out = set(feats) | BASELINE
    work = list(out)
    while work:
        f = work.pop()
        for g in IMPLIES.get(f, []):
            if g not in out:
                out.add(g)
                work.append(g)
    return out


class Caps:
    def __init__(self, fb):
        self.fb = fb
        self.memo = {}
        self.tok = None

    def guard_feats(self, f, bb):
        out = set()
        for g in f.guards(bb):
            c, t = unwrap_not(g.cond(), g.truth())
            if c[0] == 'call' and t is True:
                out |= self.call_feats(c[1])
        # `if let Some(isa) = T::new()` / `T::new()?`
        for callee, vs in L.success_guard_calls(f, bb, self.fb).items():
            out |= self.summary(callee)
        return out

    def call_feats(self, call):
        m = re.search(r'__is_feature_detected::(\w+)$', call.callee or '')
        if m:
            return {m.group(1).replace('_', '.') if m.group(1).startswith('sse4') else m.group(1)}
        return self.summary(call.callee)

    # (leaf, subleaf, register, bit) -> feature, from the Intel SDM; checked against the constants in the function body
    CPUID_BITS = {(7, 0, 'ecx', 11): 'avx512vnni', (7, 0, 'ebx', 16): 'avx512f', (7, 0, 'ebx', 5): 'avx2', (7, 0, 'ebx', 30): 'avx512bw',
                  (7, 0, 'ebx', 17): 'avx512dq', (7, 0, 'ebx', 31): 'avx512vl', (1, 0, 'ecx', 12): 'fma', (1, 0, 'ecx', 29): 'f16c'}

    def cpuid_bit(self, f):
        """`__cpuid_count(L, S).REG & (1 << B) != 0` as the whole body: returns the feature, else None"""
        cs = [c for c in f.calls() if call_is(c, 're:cpuid::__cpuid(_count)?$')]
        if len(cs) != 1 or len(list(f.calls())) != 1:
            return None
        leaf = op_int(cs[0].args[0])
        sub = op_int(cs[0].args[1]) if len(cs[0].args) > 1 else 0
        reg = bit = None
        ne = False
        for b in f.bbs:
            for st in b['s']:
                if st[0] != '=':
                    continue
                rv = st[2]
                if rv[0] == 'use' and rv[1][0] in ('c', 'm'):
                    flds = [e[2] for e in rv[1][1][1:] if isinstance(e, list) and e[0] == 'f']
                    if flds and flds[-1] in ('eax', 'ebx', 'ecx', 'edx'):
                        reg = flds[-1]
                if rv[0] == 'bin' and rv[1] == 'Shl' and op_int(rv[2]) == 1:
                    bit = op_int(rv[3])
                if rv[0] == 'bin' and rv[1] == 'Ne' and (op_int(rv[2]) == 0 or op_int(rv[3]) == 0) and st[1] == [0]:
                    ne = True
        if ne and reg and bit is not None:
            return self.CPUID_BITS.get((leaf, sub, reg, bit))
        return None

    def summary(self, path):
        """features detected whenever `path` returns true / Some(..)"""
        if path in self.memo:
            return self.memo[path]
        self.memo[path] = set()
        f = self.fb.fn(path)
        if f is None or not f.has_mir():
            return set()
        cb = self.cpuid_bit(f)
        if cb:
            self.memo[path] = {cb}
            return {cb}
        res = None
        found = False
        for (bb, j, k, payload, dplace) in f.defs().get(0, []):
            s = None
            if k == 'rv':
                rv = payload
                if rv[0] == 'use' and rv[1][0] == 'k' and rv[1][1] == 'false':
                    continue
                if rv[0] == 'agg' and rv[3] == 'None':
                    continue
                if (rv[0] == 'use' and rv[1][0] == 'k' and rv[1][1] == 'true') or (rv[0] == 'agg' and rv[3] == 'Some'):
                    s = self.guard_feats(f, bb)
                elif rv[0] == 'use' and rv[1][0] in ('c', 'm'):
                    r = f.resolve_copy(rv[1])
                    if r[0] == 'call':
                        s = self.guard_feats(f, bb) | self._tail(f, r[1])
                    else:
                        s = self.guard_feats(f, bb)
                else:
                    s = self.guard_feats(f, bb)
            else:
                if call_is(payload, 're:FromResidual<.*>>::from_residual$|FromResidual::from_residual$'):
                    continue    # `?` on a None / Err: a failure exit
                s = self.guard_feats(f, bb) | self._tail(f, payload)
            found = True
            res = s if res is None else (res & s)
        self.memo[path] = res if (found and res is not None) else set()
        return self.memo[path]

    def _tail(self, f, call):
        """features implied by a tail expression: `cond.then_some(v)`, `T::new().map(..)`, `helper()`"""
        if call_is(call, 're:bool>::then_some$|bool>::then$'):
            c = L.Progress(self.fb, set())._def_call(f, call.args[0])
            return self.call_feats(c) if c is not None else set()
        if call_is(call, ('re:Option::<T>::(map|and_then|filter)$',)):
            c = L.Progress(self.fb, set())._def_call(f, call.args[0])
            return self.call_feats(c) if c is not None else set()
        return self.call_feats(call)

    # ---- tokens ----------------------------------------------------------
    def tokens(self, ctx=None, R=None):
        if self.tok is not None:
            return self.tok
        fb = self.fb
        tok = {}
        why = {}
        cands = []
        for a in fb.all_adts():
            if not a['p'].startswith(('rten_simd::', 'rten_gemm::')) or a['kind'] != 'Struct':
                continue
            fields = a['variants'][0]['fields']
            if fields and any(fd['name'] == '_private' for fd in fields) and not any(fd['pub'] for fd in fields):
                cands.append(a)
        for a in cands:
            sites = aggregates_of(fb, a['p'])
            news = [s for s in sites if re.search(re.escape(a['p']) + r'::new(::\{closure#\d+\})*$', s[0].path)]
            other = [s for s in sites if s not in news and s[0].o.get('trait') not in ('core::clone::Clone', 'core::default::Default')]
            d = self.summary(a['p'] + '::new') if fb.fn(a['p'] + '::new') is not None else set()
            tok[a['p']] = d
            why[a['p']] = (len(news), [s[0].path for s in other])
        # derived tokens: structs containing a token value
        changed = True
        while changed:
            changed = False
            for a in fb.all_adts():
                if a['p'] in tok or not a['p'].startswith(('rten_simd::', 'rten_gemm::', 'rten_vecmath::', 'rten::')) or a['kind'] != 'Struct':
                    continue
                d = set()
                hit = False
                for fd in a['variants'][0]['fields']:
                    t = fd['ty']
                    # a field that *is* a token (not Option<token>)
                    for tk in list(tok):
                        if t == tk or t.startswith(tk + '<'):
                            d |= tok[tk]
                            hit = True
                if hit:
                    # if the struct is only ever built inside its own new(), what new() detects is proven as well
                    sites = aggregates_of(fb, a['p'])
                    own = [x for x in sites if re.search(re.escape(a['p']) + r'::new(::\{closure#\d+\})*$', x[0].path)]
                    if sites and len(own) == len([x for x in sites if x[0].o.get('trait') not in ('core::clone::Clone',)]) and fb.fn(a['p'] + '::new') is not None:
                        d |= self.summary(a['p'] + '::new')
                    tok[a['p']] = d
                    why[a['p']] = ('derived', [])
                    changed = True
        self.tok = tok
        self.tok_why = why
        return tok

    def held(self, f, call=None):
        """features proven by token values the function holds (parameter / self types, call argument types)"""
        tok = self.tokens()
        out = set()
        tys = [f.local_ty(i) for i in range(1, f.argc + 1)]
        if f.o.get('self'):
            tys.append(f.o['self'])
        if call is not None:
            for a in call.args:
                l = op_local(a)
                if l is not None:
                    tys.append(f.local_ty(l))
        g = f
        while '{closure#' in g.path:
            par = g.o.get('parent')
            g = self.fb.fn(par) if par else None
            if g is None:
                break
            tys += [g.local_ty(i) for i in range(1, g.argc + 1)]
            if g.o.get('self'):
                tys.append(g.o['self'])
        for t in tys:
            base = re.sub(r"^&(mut )?('[a-z_]+ )?", '', t)
            for tk, d in tok.items():
                if base == tk or base.startswith(tk + '<'):
                    out |= d
        return out


def run(ctx):
    fb = ctx.fb()
    T = ctx.tables
    caps = Caps(fb)
    token_rule(ctx, fb, caps)
    features(ctx, fb, caps, T)
    narrow(ctx, fb)
    masks(ctx, fb)
    float_to_int(ctx, fb, T)
    minmax(ctx, fb)


def token_rule(ctx, fb, caps):
    R = 'C18.token'
    tok = caps.tokens()
    base = {k: v for k, v in tok.items() if caps.tok_why[k][0] != 'derived'}
    ctx.floor(R, 'ISA token types (private unit field, built only in new)', len(base), 4)
    for p, d in sorted(base.items()):
        nnew, other = caps.tok_why[p]
        short = p.split('::')[-1]
        ctx.inst(R, 'constructed-only-in-new:' + short, not other and nnew >= 1, '%s is built at %d site(s) inside its own new(); other sites: %s' % (short, nnew, other[:3]), '')
        needs_detect = not short.lower().startswith('generic') and 'Generic' not in short
        ctx.inst(R, 'new-checks-cpu:' + short, bool(d) or not needs_detect,
                 '%s::new() returns a value only after detecting %s' % (short, sorted(d) or ('nothing (portable token)' if not needs_detect else 'NOTHING')), '', nontrivial=needs_detect)
    for p, d in sorted(tok.items()):
        if caps.tok_why[p][0] == 'derived':
            ctx.inst(R, 'derived:' + p.split('::')[-1], True, 'contains a token value, so holding it proves %s' % sorted(d), '', nontrivial=False)


def features(ctx, fb, caps, T):
    R = 'C18.features'
    # required features that a function passes on to its callers (declared target features, or unmet requirements
    # of private helpers)
    need = {}
    for cr in CRATES:
        if cr not in fb.crates:
            continue
        for f in fb.fns(crate=cr):
            if f.o.get('tfe'):
                need[f.path] = set(f.o['tfe'])
    nsites = 0
    nintr = 0
    reviewed = {e['fn']: e['reason'] for e in T.get('propagate_reviewed', [])}
    for rnd in range(4):
        new_need = {}
        results = []
        for cr in CRATES:
            if cr not in fb.crates:
                continue
            for p, line in fb.crates[cr].fn_lines.items():
                if '"ctf"' not in line and not any(q in line for q in need):
                    continue
                f = fb.fn(p)
                if not f.has_mir():
                    continue
                base = closure(set(f.o.get('tf') or []) | caps.held(f))
                own_need = set()
                for c in f.calls():
                    req = set(c.info.get('ctf') or [])
                    q = c.info.get('r') or c.info.get('d')
                    if q in need:
                        req |= need[q]
                    for a in c.args:
                        if a and a[0] == 'fn' and a[1] in need:
                            req |= need[a[1]]
                    if not req:
                        continue
                    est = closure(base | caps.guard_feats(f, c.bb) | caps.held(f, c))
                    # inherited guards for closures
                    g = f
                    while '{closure#' in g.path:
                        cc = closure_creation(fb, g)
                        if not cc:
                            break
                        est |= closure(caps.guard_feats(cc[0], cc[1]) | set(cc[0].o.get('tf') or []))
                        g = cc[0]
                    missing = req - est
                    results.append((f, c, req, missing))
                    own_need |= missing
                if own_need:
                    new_need[f.path] = own_need
        # private (or unsafe) functions pass unmet requirements to their callers
        changed = False
        for p, miss in new_need.items():
            f = fb.fn(p)
            private = f.o.get('vis') not in ('pub',) or f.o.get('unsafe') or '{closure#' in p
            if private and not (set(miss) <= need.get(p, set())):
                need[p] = need.get(p, set()) | miss
                changed = True
        if not changed:
            break
    seen = set()
    for (f, c, req, missing) in results:
        key = (f.path, c.bb)
        if key in seen:
            continue
        seen.add(key)
        nsites += 1
        intr = (c.callee or '').startswith('core::')
        nintr += 1 if intr else 0
        propagated = f.path in need and missing and missing <= need[f.path] and (f.o.get('vis') != 'pub' or f.o.get('unsafe') or '{closure#' in f.path)
        ok = not missing or propagated
        if intr and ok:
            continue    # thousands of identical intrinsic sites: only failures and workspace callees are listed
        ctx.inst(R, 'call:%s->%s' % (f.path.replace('rten_', '').split('::', 1)[-1][-70:], (c.callee or '').split('::')[-1]), ok,
                 ('requires %s: established at the call site' % sorted(req)) if not missing else
                 ('requires %s; %s not established here - %s' % (sorted(req), sorted(missing), 'passed on to the callers of this private/unsafe helper' if propagated else 'NO CPU check, token or enclosing target_feature covers it')), c.loc())
    ctx.inst(R, 'intrinsic-sites', True, '%d call sites with a target-feature requirement checked (%d core::arch intrinsics)' % (nsites, nintr), '', nontrivial=False)
    ctx.floor(R, 'call sites with target-feature requirements', nsites, 300)
    # propagated needs must end somewhere: a function with a propagated need that nobody calls with the features is flagged above;
    # list them for the record
    for p, n in sorted(need.items()):
        f = fb.fn(p)
        if not f.o.get('tfe'):
            callers = callers_of(fb, p)
            ctx.inst(R, 'helper:' + p.split('::')[-1], bool(callers) or p in reviewed, 'private helper needs %s from its %d caller(s) (each checked as a call site above)' % (sorted(n), len(callers)), f.loc(), nontrivial=False)


SATURATING = re.compile(r'_mm(256|512)?_(packs|packus)_epi(16|32)$|_mm(256|512)?_cvt(s|us)epi(16|32|64)_epi(8|16|32)$|::narrow_saturate$|::saturating_|::clamp$')
TRUNCATING = re.compile(r'_mm(256|512)?_cvtepi(16|32|64)_epi(8|16|32)$')


def narrow(ctx, fb):
    """sibling agreement: every ISA's NarrowSaturate implementation narrows with a saturating primitive"""
    R = 'C18.narrow-saturates'
    n = 0
    for i in fb.impls(trait='rten_simd::ops::NarrowSaturate'):
        m = i['items'].get('narrow_saturate')
        if not m or re.search(r'\bf(16|32|64)\b', i['trait_ref'].split('NarrowSaturate')[-1]):
            continue    # float narrowing rounds / overflows to infinity: not an integer saturation
        fns = [fb.fn(p) for p in fb.with_closures(m[1])]
        cals = set((c.callee or '') for f in fns if f is not None and f.has_mir() for c in f.calls())
        sat = sorted(x.split('::')[-1] for x in cals if SATURATING.search(x))
        trunc = sorted(x.split('::')[-1] for x in cals if TRUNCATING.search(x))
        n += 1
        ctx.inst(R, '%s:%s' % (i['self'].split('::')[-1], i['trait_ref'].split('NarrowSaturate')[-1].strip('<>')), bool(sat) and not trunc,
                 'narrow_saturate narrows with %s%s' % (sat or 'NO saturating primitive', (' but also uses truncating %s' % trunc) if trunc else ''), fb.fn(m[1]).loc())
    ctx.floor(R, 'NarrowSaturate impls', n, 4)


def per_lane(ctx, fb):
    """masked load/store implementations touch memory only through a native masked instruction given the caller's mask,
    or through per-lane raw accesses that are control-dependent on a test derived from that mask"""
    R = 'C18.mask'
    import C02
    NATIVE = re.compile(r'core::core_arch::.*::_mm\d*_(mask_|maskz_|mask)(load|store)u?_')
    PTR_ARITH = re.compile(r'::(add|offset|sub|cast|cast_mut|cast_const|wrapping_add|byte_add)$|::into$|::from$')
    n = 0
    for f in fb.fns(crate='rten_simd'):
        if not f.has_mir() or '/arch/' not in f.file or not re.search(r'::(load_ptr_mask|store_ptr_mask)$', f.path):
            continue
        n += 1
        is_load = f.path.endswith('load_ptr_mask')
        ptr_i, mask_i = (1, 2) if is_load else (2, 3)
        name = re.sub(r'rten_simd::arch::|rten_simd::ops::|<| as BitOps', '', f.path)[-60:]
        bad = None
        native = 0
        lanes = 0

        def derived(ff, op, idx, depth=8):
            # follow pointer arithmetic (add / offset / cast) back to the parameter, through closure captures
            cur = op
            while depth > 0 and cur is not None:
                depth -= 1
                og, of = outer_origins(fb, ff, cur)
                if of.path == f.path and any(o[0] == 'param' and o[1] == idx for o in set(og)):
                    return True
                r = ff.resolve_copy(cur)
                if r[0] == 'call' and PTR_ARITH.search(r[1].callee or '') and r[1].args:
                    cur = r[1].args[0]
                    continue
                if r[0] == 'rv' and r[1][0] == 'cast':
                    cur = r[1][2]
                    continue
                return False
            return False

        def mask_guarded(ff, bb):
            for (gf, g) in C02.inherited_guards(fb, ff, bb):
                cnd, t = unwrap_not(g.cond(), g.truth())
                ops_ = []
                if cnd[0] == 'cmp':
                    ops_ = [cnd[2], cnd[3]]
                elif cnd[0] in ('param', 'place'):
                    ops_ = [g.discr]
                elif cnd[0] == 'call':
                    ops_ = cnd[1].args
                for o in ops_:
                    og, of = outer_origins(fb, gf, o)
                    if of.path == f.path and any(x[0] == 'param' and x[1] == mask_i for x in og):
                        return True
                    if any(x[0] == 'call' and re.search(r'movemask|Mask>::to_array$|::to_array$', x[1] or '') for x in set(og) | set(gf.origins(o))):
                        return True
            return False
        for ff in [f] + [fb.fn(q) for q in fb.closures_of(f.path)]:
            if ff is None or not ff.has_mir():
                continue
            for c in ff.calls():
                cal = c.callee or ''
                pargs = [a for a in c.args if op_place(a) and derived(ff, a, ptr_i)]
                if not pargs or PTR_ARITH.search(cal):
                    continue
                if NATIVE.search(cal):
                    native += 1
                    if not any(derived(ff, a, mask_i) for a in c.args):
                        bad = bad or ('native masked %s is not given the caller\'s mask' % cal.split('::')[-1], c.loc())
                    continue
                if '{closure#' in cal or re.search(r'from_fn$', cal):
                    continue
                bad = bad or ('the pointer is passed to %s, which accesses memory without the mask' % cal.split('::')[-1], c.loc())
            for r in ff.o.get('rawd', []):
                line, bb, loc_, mut, kind = r
                if bb not in ff.live() or not derived(ff, ['c', [loc_]], ptr_i):
                    continue
                if kind in ('r', 'w', 'ref', 'refmut'):
                    lanes += 1
                    if not mask_guarded(ff, bb):
                        bad = bad or ('a raw %s through the pointer is not control-dependent on the mask' % ('read' if kind in ('r', 'ref') else 'write'), '%s:%d' % (ff.file, line))
        if bad is None and native + lanes == 0:
            bad = ('no memory access through the pointer was recognised', f.loc())
        ctx.inst(R, 'per-lane:' + name, bad is None, ('%d native masked instruction(s), %d mask-guarded lane access(es)' % (native, lanes)) if bad is None else
                 'masked %s implementation: %s - lanes whose mask bit is clear may be touched or active lanes skipped' % ('load' if is_load else 'store', bad[0]), bad[1] if bad else f.loc())
    ctx.floor(R, 'masked load/store implementations under arch/', n, 30)


def masks(ctx, fb):
    per_lane(ctx, fb)
    R = 'C18.mask'
    n = 0
    for cr in ('rten_simd', 'rten_vecmath', 'rten_gemm', 'rten'):
        for f in fb.fns(crate=cr):
            if not f.has_mir() or '/arch/' in f.file:
                continue
            for c in f.calls():
                if call_is(c, ('re:NumOps::(load_ptr_mask|store_ptr_mask)$', 're:::load_ptr_mask$', 're:::store_ptr_mask$')):
                    n += 1
                    mask = c.args[-1] if call_is(c, 're:load_ptr_mask$') else c.args[-1]
                    og = set()
                    for a in c.args[1:]:
                        og |= f.origins(a)
                    ok = has_origin_call(og, 're:::first_n_mask$')
                    ctx.inst(R, 'masked-access:%s' % f.path.replace('rten_', '').split('::', 1)[-1][-60:], ok, 'mask of a masked load/store comes from first_n_mask(n)', c.loc())
    ctx.floor(R, 'masked load/store sites outside arch/', n, 4)
    # safe wrappers: every safe default method of the ops traits that performs an unmasked raw vector load/store
    # (directly or in a closure it creates) checks a slice length against a multiple of len() on every path first
    nw = 0
    for f in fb.fns(crate='rten_simd'):
        if not f.has_mir() or not re.match(r'rten_simd::ops::\w+::\w+', f.path) or f.o.get('unsafe'):
            continue
        host, at = f, None
        if '{closure#' in f.path:
            cc = closure_creation(fb, f)
            if cc is None:
                continue
            host, at = cc[0], cc[1]
            if host.o.get('unsafe'):
                continue
        raw = [c for c in f.calls() if call_is(c, ('re:::load_ptr$', 're:::store_ptr$'))]
        if not raw:
            continue
        nw += 1
        ok = True
        for c in raw:
            cmp_ok = False
            for (op, a, b, g) in normalized_cmps(host, at if at is not None else c.bb):
                oa, ob = host.origins(a), host.origins(b)
                names = set((o[1] or '').split('::')[-1] for o in oa | ob if o[0] == 'call')
                lens = any(o[0] == 'len_of' for o in oa | ob) or 'len' in names
                if op in ('Ge', 'Le', 'Eq', 'Gt', 'Lt') and lens and 'len' in names:
                    cmp_ok = True
            ok = ok and cmp_ok
        ctx.inst(R, 'safe-wrapper:' + f.path.split('ops::', 1)[-1], ok, 'safe %s checks the slice length against the vector length (non-debug assert) on every path before the raw pointer access' % f.path.split('::')[-1], f.loc())
    ctx.floor(R, 'safe wrappers around raw vector loads/stores', nw, 5)



def float_to_int(ctx, fb, T):
    """float -> int conversion is the one primitive whose out-of-range behaviour differs by construction between the ISAs
    (x86 cvt(t)ps2dq yields i32::MIN for out-of-range / NaN input, the generic `as i32` saturates): a vectorized operation
    agrees across ISAs - and between its vector body and scalar tail - only if the converted value was clamped to a range
    where all agree (min/max/clamp immediately upstream), or the out-of-range lanes are provably replaced afterwards
    (reviewed table, one line of reason per site)."""
    R = 'C18.float-to-int'
    rev = RevTable({e['fn']: e['reason'] for e in T.get('float_to_int_reviewed', [])})
    n = 0
    seen = set()
    for cr in ('rten_vecmath', 'rten', 'rten_gemm', 'rten_generate'):
        for f, c in callers_of(fb, 're:::to_int_(round|trunc)$', crates=[cr]):
            n += 1
            arg = c.args[1] if len(c.args) > 1 else c.args[0]
            r = f.resolve_copy(arg)
            clamped = r[0] == 'call' and re.search(r'::(min|max|clamp)$', r[1].callee or '') is not None
            if clamped and re.search(r'::(min|max)$', r[1].callee or ''):
                # one-sided so far: the other bound must be directly upstream as well
                r2 = f.resolve_copy(r[1].args[1]) if len(r[1].args) > 1 else ('none',)
                other = 'max' if r[1].callee.endswith('min') else 'min'
                clamped = r2[0] == 'call' and re.search(r'::(%s|clamp)$' % other, r2[1].callee or '') is not None
            short = f.path.replace('rten_vecmath::', '')[-80:]
            key = short if short not in seen else short + '#%d' % n
            seen.add(short)
            rv = rev.get(f.path) if '{closure' not in f.path else rev.get(f.o.get('parent', f.path)) or rev.get(f.path)
            ok = clamped or rv is not None
            ctx.inst(R, key, ok, 'the converted value is clamped on both sides immediately before the conversion' if clamped else ('reviewed: ' + rv) if rv else
                     'to_int_round / to_int_trunc is applied to a value that is not clamped: out-of-range and NaN lanes become i32::MIN on x86 but saturate on the generic ISA (and in a scalar `as i32` tail), so results differ by ISA and by position in the slice', c.loc())
    ctx.floor(R, 'float -> int conversion sites in vectorized code', n, 3)



def minmax(ctx, fb):
    """(primitive) the generic ISA's float min / max must have the x86 semantics the AVX2 / AVX-512 impls get from
    minps / maxps (second operand on NaN or equal zeros): their closures are a plain `<` / `>` comparison-and-pick with no
    call of std's f32::min / f32::max (which return the non-NaN operand and so disagree for NaN);  (nan-sticky) MaxNum /
    MinNum, documented as NaN-propagating, keep a NaN accumulator: the fold closure tests `acc == acc` as well as `x == x`
    and its final select falls back to the accumulator."""
    R = 'C18.min-max'
    n = 0
    for f in fb.fns(crate='rten_simd'):
        m = re.search(r'^<rten_simd::arch::generic::GenericIsa as rten_simd::ops::NumOps<(f32|f64)>>::(min|max)::\{closure#0\}$', f.path)
        if not m or not f.has_mir():
            continue
        n += 1
        std = [c for c in f.calls() if re.search(r'<impl f(32|64)>::(min|max|minimum|maximum)$', c.callee or '')]
        cmps = [st for b in f.bbs if not b.get('c') for st in b['s'] if st[0] == '=' and st[2][0] == 'bin' and st[2][1] in ('Lt', 'Gt')]
        want = 'Lt' if m.group(2) == 'min' else 'Gt'
        ok = not std and any(st[2][1] == want and root_param(f, st[2][2]) == 2 and root_param(f, st[2][3]) == 3 for st in cmps)
        # closure params: _1 = closure env, _2 = x, _3 = y
        ctx.inst(R, 'generic-%s-%s' % (m.group(1), m.group(2)), ok, 'generic %s is `if x %s y { x } else { y }` (y on NaN / equal zeros, as %sps)' % (m.group(2), '<' if want == 'Lt' else '>', m.group(2)) if ok else
                 'generic float %s %s: it disagrees with AVX2 / AVX-512 (which return the second operand when either is NaN or both are zero)' % (m.group(2), 'calls std ' + (std[0].callee or '').split('::')[-1] if std else 'is not the x %s y comparison-and-pick' % ('<' if want == 'Lt' else '>')), f.loc())
    ctx.floor(R, 'generic float min / max closures', n, 2)
    k = 0
    for f in fb.fns(crate='rten_vecmath'):
        m = re.search(r'min_max::(MaxNum|MinNum)<.*> as rten_simd::dispatch::SimdOp>::eval::\{closure#\d+\}$', f.path)
        if not m or not f.has_mir():
            continue
        mm = [c for c in f.calls() if re.search(r'NumOps<.*>>?::(min|max)$|::(min|max)$', c.callee or '') and len(c.args) == 3]
        if not mm:
            continue      # the scalar reduction closure
        k += 1
        eqs = [c for c in f.calls() if re.search(r'::eq$', c.callee or '') and len(c.args) == 3]
        acc, x = 2, 3     # closure params: _1 env, _2 accumulator, _3 element
        def self_eq(l):
            return any(f.resolve_copy(c.args[1])[0] == 'param' and f.resolve_copy(c.args[1])[1] == l - 1 and f.resolve_copy(c.args[2])[0] == 'param' and f.resolve_copy(c.args[2])[1] == l - 1 for c in eqs) or \
                any(op_local(c.args[1]) is not None and op_local(c.args[2]) is not None and root_param(f, c.args[1]) == l and root_param(f, c.args[2]) == l for c in eqs)
        ok = self_eq(acc) and self_eq(x)
        ctx.inst(R, 'nan-sticky:' + m.group(1), ok, '%s tests both `acc == acc` and `x == x`: a NaN accumulator is kept' % m.group(1) if ok else
                 '%s does not test whether the running value is already NaN: max(NaN, x) = x on every ISA, so a NaN followed by other values is lost although the op is documented as NaN-propagating' % m.group(1), f.loc())
    ctx.floor(R, 'MaxNum / MinNum fold closures', k, 2)


def root_param(f, op, depth=6):
    l = op_local(op)
    while l is not None and depth > 0:
        if 1 <= l <= f.argc:
            return l
        d = f.def_of_local(l)
        if d is None or d[2] != 'rv' or d[3][0] not in ('use', 'ref') :
            return None
        src = d[3][1] if d[3][0] == 'use' else ['c', d[3][2]]
        l = op_local(src)
        depth -= 1
    return None
