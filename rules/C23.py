"""C23 The buffer pool hands out each buffer once with adequate capacity (DESIGN §5 C23)."""
from rulelib import *

THOROUGH_CFGS = ('min_none', 'min_rten', 'min_onnx')   # reduced-feature builds of the rten crate (thorough tier)

EXPLANATION = (
    "Static ownership / guard rules over rten::buffer_pool (MIR of the type-checked crate): Buffer is not "
    "Clone/Copy and is built in exactly one place; Vec::from_raw_parts in into_vec is dominated by a positive "
    "layout_match::<T> guard and every path from it to the return passes mem::forget(self); release rebuilds "
    "exactly one Vec with the T recorded by from_vec; can_fit is layout_match::<T> AND capacity >= requested; "
    "alloc<T> uses its own T for can_fit / into_vec / with_capacity and scans+removes under a single lock(); "
    "add/alloc honour min_size. Interleavings are covered by construction: all pool state is behind one mutex "
    "and every operation is one critical section. Decides these structural clauses, not runtime behaviour.")
ASSUMPTIONS = ["std::sync::Mutex, Vec::from_raw_parts, mem::forget and Layout::array behave as documented",
               "Rust's type system enforces that BufferPool.buffers is reachable only through a MutexGuard"]

BP = 'rten::buffer_pool::'
BUF = BP + 'Buffer'


def run(ctx):
    fb = ctx.fb()
    R = 'C23.ownership'
    # --- Buffer is neither Clone nor Copy
    ctx.anchor(R, 'adt ' + BUF, fb.adt(BUF) is not None)
    bad = [i for i in fb.impls() if i.get('self_adt') == BUF and i['trait'] in ('core::clone::Clone', 'core::marker::Copy')]
    ctx.inst(R, 'Buffer:no-Clone-Copy', not bad, 'impls of Clone/Copy for Buffer: %d (a duplicated Buffer would free or hand out the same allocation twice)' % len(bad))
    # --- who-may-construct Buffer
    aggs = aggregates_of(fb, BUF, crates=None)
    ctx.floor(R, 'Buffer aggregate sites', len(aggs), 1)
    for f, bb, s, rv in aggs:
        ctx.inst(R, 'construct:' + f.path, f.path == BUF + '::from_vec',
                 'Buffer{..} literal in %s (allowed only in Buffer::from_vec)' % f.path, f.loc(s[3]))
    for f, bb, s, field in field_writes(fb, BUF):
        ctx.inst(R, 'field-write:%s:%s' % (f.path, field), False,
                 'write to Buffer.%s outside construction' % field, f.loc(s[3]))
    # --- from_vec: layout from Layout::array::<T>(vec.capacity()); drop fn is release::<T> with the same T
    fv = fb.fn(BUF + '::from_vec')
    if ctx.anchor(R, 'fn from_vec', fv is not None and fv.has_mir()):
        agg = [a for a in aggs if a[0].path == fv.path]
        ok_drop = False
        detail = 'drop field is not a reified Buffer::release::<T>'
        if agg:
            f, bb, s, rv = agg[0]
            adt = fb.adt(BUF)
            names = [fd['name'] for fd in adt['variants'][0]['fields']]
            fields = dict(zip(names, rv[4]))
            # drop: fn pointer
            r = fv.resolve_copy(fields.get('drop'))
            if r[0] == 'rv' and r[1][0] == 'cast' and 'ReifyFnPointer' in r[1][1]:
                src = r[1][2]
                if src[0] == 'fn' and src[1] == BUF + '::release' and src[2] == '[T/#0]':
                    ok_drop = True
                    detail = 'drop = Buffer::release::<T> with from_vec\'s own T'
                else:
                    detail = 'drop = %s%s' % (src[1] if src[0] == 'fn' else src, src[2] if src[0] == 'fn' else '')
            ctx.inst('C23.once', 'from_vec:drop-is-release<T>', ok_drop, detail, fv.loc(s[3]))
            # layout: Layout::array::<T>
            lo = fv.origins(fields.get('layout'))
            arr = [c for c in fv.calls() if call_is(c, 'core::alloc::layout::Layout::array')]
            okl = bool(arr) and all(c.generic_types == ['T'] for c in arr) and any(
                has_origin_call(fv.origins(c.args[0]), 're:Vec::<T, A>::capacity$') for c in arr)
            ctx.inst('C23.fit', 'from_vec:layout=array<T>(capacity)', okl and has_origin_call(lo, 're:(unwrap|Layout::array)'),
                     'stored layout derives from Layout::array::<T>(vec.capacity())', fv.loc())
            co = fv.origins(fields.get('capacity'))
            ctx.inst('C23.fit', 'from_vec:capacity=vec.capacity', has_origin_call(co, 're:Vec::<T, A>::capacity$'),
                     'stored capacity derives from Vec::capacity', fv.loc())
            po = fv.origins(fields.get('ptr'))
            ctx.inst('C23.once', 'from_vec:ptr-from-ManuallyDrop', has_origin_call(po, 're:as_mut_ptr$') and
                     any(call_is(c, 're:ManuallyDrop::<T>::new$') for c in fv.calls()),
                     'pointer taken from a ManuallyDrop<Vec<T>> (the Vec will not free it)', fv.loc())

    # --- into_vec
    R = 'C23.once'
    iv = fb.fn(BUF + '::into_vec')
    if ctx.anchor(R, 'fn into_vec', iv is not None and iv.has_mir()):
        frp = list(iv.calls_to(lambda p: p.endswith('Vec::<T>::from_raw_parts')))
        ctx.floor(R, 'into_vec from_raw_parts', len(frp), 1)
        forgets = [c for c in iv.calls() if call_is(c, 'core::mem::forget')]
        forget_self = [c for c in forgets if has_param_origin(iv.origins(c.args[0]), 0)]
        for c in frp:
            g = guards_call(iv, c.bb, BUF + '::layout_match', True)
            okT = c.generic_types == ['T'] and all(x.generic_types == ['T'] for _, x in g)
            ctx.inst(R, 'into_vec:from_raw_parts-guarded', bool(g) and okT,
                     'Vec::from_raw_parts::<T> dominated by positive layout_match::<T>: %s' % (g[0][0].describe() if g else 'NO GUARD'),
                     c.loc())
            thr = {x.bb for x in forget_self}
            ok = bool(thr) and c.target is not None and iv.all_paths_pass(c.target, iv.return_blocks(), thr)
            ctx.inst(R, 'into_vec:forget-on-all-paths', ok,
                     'every path from from_raw_parts to return passes mem::forget(self) (else Drop frees what the Vec owns)',
                     c.loc())
            # arguments: ptr and capacity from self fields
            ctx.inst(R, 'into_vec:raw-parts-from-self',
                     has_param_origin(iv.origins(c.args[0]), 0, 'ptr') and has_param_origin(iv.origins(c.args[2]), 0, 'capacity')
                     and op_const(c.args[1]) == '0_usize',
                     'from_raw_parts(self.ptr, 0, self.capacity)', c.loc())
    rl = fb.fn(BUF + '::release')
    if ctx.anchor(R, 'fn release', rl is not None and rl.has_mir()):
        frp = list(rl.calls_to(lambda p: p.endswith('Vec::<T>::from_raw_parts')))
        ctx.inst(R, 'release:one-from_raw_parts<T>', len(frp) == 1 and frp[0].generic_types == ['T'] and
                 not rl.in_loop(frp[0].bb),
                 'release rebuilds exactly one Vec::<T> (found %d)' % len(frp), rl.loc())
    dr = fb.fn('<rten::buffer_pool::Buffer as core::ops::drop::Drop>::drop')
    if ctx.anchor(R, 'fn Buffer::drop', dr is not None and dr.has_mir()):
        ind = [c for c in dr.calls() if c.indirect]
        ok = len(ind) == 1 and any(o[0] == 'param' and 'drop' in o[2] for o in dr.origins(ind[0].info['ind']))
        ctx.inst(R, 'drop:calls-self.drop-once', ok and not dr.in_loop(ind[0].bb) if ind else False,
                 'Drop::drop calls the stored release fn pointer exactly once (indirect calls: %d)' % len(ind), dr.loc())

    # --- can_fit / layout_match
    R = 'C23.fit'
    cf = fb.fn(BUF + '::can_fit')
    if ctx.anchor(R, 'fn can_fit', cf is not None and cf.has_mir()):
        n_true = 0
        for (bb, j, kind, payload, dplace) in cf.defs().get(0, []):
            if kind == 'rv' and payload[0] == 'use' and op_const(payload[1]) == 'false':
                continue
            ok = False
            detail = 'result assignment not recognised'
            if kind == 'rv' and payload[0] == 'bin' and payload[1] in ('Ge', 'Le'):
                a, b = payload[2], payload[3]
                if payload[1] == 'Le':
                    a, b = b, a
                oa, ob = cf.origins(a), cf.origins(b)
                g = guards_call(cf, bb, BUF + '::layout_match', True)
                ok = has_param_origin(oa, 0, 'capacity') and has_param_origin(ob, 1) and bool(g) and all(x.generic_types == ['T'] for _, x in g)
                detail = 'true-capable result is (self.capacity >= capacity) under positive layout_match::<T>'
            n_true += 1
            ctx.inst(R, 'can_fit:conjunction', ok, detail, cf.loc())
        ctx.floor(R, 'can_fit true-capable results', n_true, 1)
    lm = fb.fn(BUF + '::layout_match')
    if ctx.anchor(R, 'fn layout_match', lm is not None and lm.has_mir()):
        arr = [c for c in lm.calls() if call_is(c, 'core::alloc::layout::Layout::array')]
        ok = len(arr) == 1 and arr[0].generic_types == ['T'] and has_param_origin(lm.origins(arr[0].args[0]), 0, 'capacity')
        ctx.inst(R, 'layout_match:array<T>(self.capacity)', ok, 'Layout::array::<T>(self.capacity)', lm.loc())
        uw = [c for c in lm.calls() if call_is(c, 're:Result::<T, E>::unwrap_or$')]
        ctx.inst(R, 'layout_match:error->false', len(uw) == 1 and op_const(uw[0].args[1]) == 'false',
                 'Layout::array error maps to false', lm.loc())
        # closure compares with self.layout via PartialEq (size and alignment)
        cl = [fb.fn(p) for p in fb.closures_of(lm.path)]
        eqs = [c for f in cl for c in f.calls() if call_is(c, 're:<core::alloc::layout::Layout as core::cmp::PartialEq>::eq$')]
        okc = False
        for f in cl:
            for c in f.calls():
                if call_is(c, 're:<core::alloc::layout::Layout as core::cmp::PartialEq>::eq$'):
                    os_ = f.origins(c.args[0]) | f.origins(c.args[1])
                    if any(o[0] == 'upvar' for o in os_) and any(o[0] == 'param' and o[1] == 1 for o in os_):
                        okc = True
        ctx.inst(R, 'layout_match:compares-whole-Layout', okc,
                 'map closure compares the computed Layout with self.layout via Layout::eq (size and alignment); eq calls=%d' % len(eqs), lm.loc())

    # --- alloc<T>
    al = fb.fn(BP + 'BufferPool::alloc')
    if ctx.anchor(R, 'fn BufferPool::alloc', al is not None and al.has_mir()):
        fns = [fb.fn(p) for p in fb.with_closures(al.path)]
        n = 0
        for f in fns:
            for c in f.calls():
                if call_is(c, (BUF + '::can_fit', BUF + '::into_vec', 're:^alloc::vec::Vec::<T>::with_capacity$')):
                    n += 1
                    ctx.inst(R, 'alloc:T-agreement:' + c.callee.split('::')[-1], c.generic_types == ['T'],
                             '%s instantiated with %s (must be alloc\'s own T)' % (c.callee, c.generic_types), c.loc())
        ctx.floor(R, 'alloc generic call sites', n, 3)
        # can_fit's capacity argument is alloc's requested capacity
        for f in fns:
            for c in f.calls():
                if call_is(c, BUF + '::can_fit'):
                    oc = f.origins(c.args[1])
                    ctx.inst(R, 'alloc:can_fit-capacity', any(o[0] == 'upvar' and 'capacity' in str(f.o.get('upvars', {}).get(str(o[1][0]) if o[1] else '', o[1])) or o[0] == 'upvar' for o in oc) or has_param_origin(oc, 1),
                             'can_fit is asked for the requested capacity (captured `capacity`)', c.loc())
        # single lock; remove under the same guard as the scan
        R2 = 'C23.ownership'
        locks = [c for c in al.calls() if call_is(c, 're:Mutex::<T>::lock$')]
        ctx.inst(R2, 'alloc:single-lock', len(locks) == 1 and not al.in_loop(locks[0].bb),
                 'alloc takes the pool mutex exactly once, outside any loop (found %d) - scan and remove share one critical section' % len(locks), al.loc())
        rem = [c for c in al.calls() if call_is(c, 're:Vec::<T, A>::remove$')]
        itr = [c for c in al.calls() if call_is(c, 're:slice::<impl \\[T\\]>::iter$')]
        def guard_local(call):
            r = al.resolve_copy(call.args[0])
            hops = 0
            while r[0] == 'call' and call_is(r[1], ('re:Deref(Mut)?>::deref(_mut)?$',)) and hops < 4:
                r = al.resolve_copy(r[1].args[0]); hops += 1
            if r[0] == 'call':
                return r[1].dest[0]
            if r[0] == 'rv' and r[1][0] == 'ref':
                return r[1][2][0]
            if r[0] == 'place':
                return r[1][0]
            return None
        if ctx.floor(R2, 'alloc remove sites', len(rem), 1) and ctx.floor(R2, 'alloc scan sites', len(itr), 1):
            gl_rem = {guard_local(c) for c in rem}
            gl_itr = {guard_local(c) for c in itr}
            lock_local = None
            if locks:
                # guard local = unwrap(lock result)
                for c in al.calls():
                    if call_is(c, 're:Result::<T, E>::unwrap$') and op_local(c.args[0]) == locks[0].dest[0]:
                        lock_local = c.dest[0]
            ok = len(gl_rem) == 1 and gl_rem == gl_itr and lock_local in gl_rem
            ctx.inst(R2, 'alloc:scan-and-remove-same-guard', ok,
                     'best-fit scan and Vec::remove go through the same MutexGuard local (_%s) obtained from the single lock()' % lock_local, rem[0].loc())
            # the index removed comes from the scan result
            ro = al.origins(rem[0].args[1])
            ctx.inst(R2, 'alloc:remove-index-from-scan', has_origin_call(ro, 're:Iterator::fold$|::fold$'),
                     'index passed to remove derives from the fold over the guarded Vec', rem[0].loc())
            # into_vec receives the removed item
            ivc = [c for c in al.calls() if call_is(c, BUF + '::into_vec')]
            ctx.inst(R2, 'alloc:into_vec-of-removed', bool(ivc) and all(has_origin_call(al.origins(c.args[0]), 're:Vec::<T, A>::remove$') for c in ivc),
                     'the Buffer converted is the one removed from the pool (moved out, so it cannot be handed out again)', al.loc())

    # --- min size
    R = 'C23.min-size'
    ad = fb.fn(BP + 'BufferPool::add')
    if ctx.anchor(R, 'fn BufferPool::add', ad is not None and ad.has_mir()):
        pushes = [c for c in ad.calls() if call_is(c, 're:Vec::<T, A>::push$')]
        ctx.floor(R, 'add push sites', len(pushes), 1)
        for c in pushes:
            ok = False
            for op, a, b, g in normalized_cmps(ad, c.bb):
                if op in ('Le', 'Gt'):
                    op, a, b = SWAP[op], b, a
                if op == 'Ge' and has_origin_call(ad.origins(a), 'core::alloc::layout::Layout::size') and has_param_origin(ad.origins(b), 0, 'min_size'):
                    ok = True
            ctx.inst(R, 'add:push-guarded-by-min_size', ok, 'push only when buf.layout.size() >= self.min_size', c.loc())
        locks = [c for c in ad.calls() if call_is(c, 're:Mutex::<T>::lock$')]
        ctx.inst('C23.ownership', 'add:single-lock', len(locks) == 1, 'add takes the mutex once', ad.loc())
    if al is not None and al.has_mir():
        wc = [c for c in al.calls() if call_is(c, 're:^alloc::vec::Vec::<T>::with_capacity$')]
        locks = [c for c in al.calls() if call_is(c, 're:Mutex::<T>::lock$')]
        early = [c for c in wc if locks and not al.dominates(locks[0].bb, c.bb)]
        okb = False
        for c in early:
            for op, a, b, g in normalized_cmps(al, c.bb):
                if op == 'Lt' and has_param_origin(al.origins(a), 1) and has_param_origin(al.origins(b), 0, 'min_size'):
                    okb = True
        ctx.inst(R, 'alloc:bypass-below-min_size', okb, 'small requests (capacity*size_of::<T>() < min_size) bypass the pool', al.loc())
        for c in wc:
            ctx.inst(R, 'alloc:fallback-capacity', has_param_origin(al.origins(c.args[0]), 1),
                     'fallback Vec::with_capacity(capacity) uses the requested capacity', c.loc())
