"""C05 Loading untrusted model bytes is safe, bounded and well-formed - untrusted-size discipline in the loaders."""
import re
from rulelib import *
from facts import op_int, op_local, op_place
import loaderlib as L
import callgraph

THOROUGH_CFGS = ('min_none', 'min_rten', 'min_onnx')   # reduced-feature builds of the rten crate (thorough tier)

EXPLANATION = (
    "Scope-complete rules over the byte-level loaders (rten::model::{rten_loader, onnx_loader, external_data, file_type, "
    "metadata}, Model/ModelOptions::load*, rten::constant_storage, rten_model_file::header) plus the rules of the shared "
    "components re-evaluated here (C38 protobuf decoder, C21 external data, C03 planner termination, which all run while "
    "loading): every overflow-checked arithmetic site, lossy integer cast, allocation with a non-constant size, panic-capable "
    "call (unwrap/expect/index/panic!), call into a workspace function that can panic on its arguments (incl. functions "
    "passed as values such as `map(NodeId::from_u32)`) and recursive cycle in that scope is an obligation that is discharged "
    "automatically or by a one-line reviewed table entry naming the check that makes it safe; anything else is a violation. "
    "(header) every Header field returned by Header::from_buf is guarded against the file size with saturating arithmetic; "
    "(verified-root) FlatBuffers data is only entered through the verifying root_as_model; (len-match) every tensor built "
    "from file-provided shape + data goes through try_from_data, and the panicking from_data is used only with a shape "
    "computed from the data's own length. The graph optimizer, shape inference and constant propagation (which execute "
    "the model) and the FlatBuffers verifier / std / memmap2 internals are outside this clause.")
ASSUMPTIONS = ["flatbuffers verifier (root_as_model) rejects out-of-bounds offsets and nesting deeper than its limit", "optimizer / shape inference / constant propagation panics are not covered",
               "TensorBase::try_from_data itself is the subject of C06 (layout overflow)"]

SCOPE = [r'^rten::model::(rten_loader|onnx_loader|external_data|file_type|metadata)::', r'^<rten::model::(rten_loader|onnx_loader|external_data|file_type|metadata)::',
         r'^<?rten::constant_storage::', r'^<?rten_model_file::header::',
         r'^rten::model::(Model|ModelOptions)::(load|load_file|load_static_slice|load_mmap|load_impl|load_storage|load_onnx|load_rten)[^:]*(::\{closure#\d+\})*$']
ALLOC = ('re:alloc::vec::from_elem$', 're:Vec::<T(, A)?>::with_capacity(_in)?$', 're:Vec::<T, A>::(reserve|reserve_exact|try_reserve|try_reserve_exact|resize|resize_with)$',
         're:String::(with_capacity|reserve|reserve_exact)$', 're:HashMap::<K, V(, S)?>::with_capacity', 're:Graph::with_capacity$', 're:SmallVec::<A>::with_capacity$',
         're:::zeros$', 're:::uninit$', 're:::with_capacity$')
W = {'u8': 8, 'u16': 16, 'u32': 32, 'u64': 64, 'usize': 64, 'i8': 8, 'i16': 16, 'i32': 32, 'i64': 64, 'isize': 64}


def in_scope(p):
    return any(re.search(x, p) for x in SCOPE)


def short(p):
    return p.replace('rten::model::', '').replace('rten::', '')


def run(ctx):
    fb = ctx.fb()
    T = ctx.tables
    sub_checks(ctx)
    header(ctx, fb)
    verified_root(ctx, fb)
    len_match(ctx, fb, T)
    sites(ctx, fb, T)
    recursion(ctx, fb, T)


def sub_checks(ctx):
    """the decoder (C38), external data (C21) and planner (C03) rules are part of 'loading': re-evaluate them here"""
    import C38, C21, C03
    from runner import load_tables
    for mod, name in ((C38, 'C38'), (C21, 'C21'), (C03, 'C03')):
        sub = type(ctx)(ctx.prop, ctx.tier, ctx.fact_dirs, load_tables(name), ctx.repo_hash)
        sub._fbs = ctx._fbs
        sub.default_cfg = getattr(ctx, 'default_cfg', 'ws')
        mod.run(sub)
        for i in sub.instances:
            if name == 'C03' and not i['rule'].startswith(('C03.worklist', 'C03.cycle-guard', 'C03.progress')):
                continue
            ctx.inst('C05.via-' + i['rule'], i['key'].split('|', 1)[1], i['ok'], i['detail'], i['loc'], nontrivial=i['nontrivial'])


def header(ctx, fb):
    R = 'C05.header'
    f = fb.fn('rten_model_file::header::Header::from_buf')
    if not ctx.anchor(R, 'fn Header::from_buf', f is not None and f.has_mir()):
        return
    oks = [(bb, k, i) for bb, k, i in L.return_defs(f) if k == 'ok']
    ctx.floor(R, 'Ok exits of Header::from_buf', len(oks), 1)
    agg = [a for a in aggregates_of(fb, 'rten_model_file::header::Header') if a[0].path == f.path]
    fields = [fd['name'] for fd in fb.adt('rten_model_file::header::Header')['variants'][0]['fields']]
    for (ff, bb, s, rv) in agg:
        ops = dict(zip(fields, rv[4]))
        cmps = normalized_cmps(f, bb)
        for fld in ('model_offset', 'model_len', 'tensor_data_offset'):
            val = ops.get(fld)
            vl = _root(f, op_local(val))
            good = False
            for (op, a, b, g) in cmps:
                if op in ('Gt', 'Ge'):
                    op, a, b = SWAP[op], b, a
                if op not in ('Le', 'Lt'):
                    continue
                oa, ob = f.origins(a), f.origins(b)
                # a <= file_size where file_size = buf.len()
                lim = any(o[0] == 'len_of' for o in ob) or has_origin_call(ob, 're:::len$')
                involves = _root(f, op_local(a)) == vl or any(_root(f, op_local(x)) == vl for x in _call_args(f, a))
                if fld == 'model_len':
                    # a length is bounded only together with its offset: (model_offset saturating+ model_len) <= file size
                    args = _call_args(f, a)
                    off = _root(f, op_local(ops.get('model_offset')))
                    involves = has_origin_call(oa, ('re:::saturating_add$', 're:::checked_add$')) and any(_root(f, op_local(x)) == vl for x in args) and any(_root(f, op_local(x)) == off for x in args)
                wraps = any(o[0] == 'binop' and o[1].startswith('Add') for o in oa)
                if lim and involves and not wraps:
                    good = True
            ctx.inst(R, 'bounded:' + fld, good, 'Header.%s is returned only under a guard (value or saturating sum) <= buf.len()' % fld, f.loc(s[3]))
    ctx.inst(R, 'no-plain-arithmetic', not [a for a in f.asserts() if a[1].startswith('Overflow')], 'Header::from_buf contains no overflow-checked (wrapping in release) arithmetic', f.loc())


def _root(f, loc):
    for _ in range(8):
        if loc is None:
            return None
        d = f.def_of_local(loc)
        if d is None or d[2] != 'rv':
            return loc
        rv = d[3]
        if rv[0] == 'use' and rv[1][0] in ('c', 'm') and len(rv[1][1]) == 1:
            loc = rv[1][1][0]
            continue
        return loc
    return loc


def _call_args(f, op):
    loc = op_local(op)
    d = f.def_of_local(loc) if loc is not None else None
    if d is not None and d[2] == 'call':
        return d[3].args
    return []


def verified_root(ctx, fb):
    R = 'C05.verified-root'
    bad = []
    good = 0
    for cr in ('rten', 'rten_model_file', 'rten_cli', 'rten_generate'):
        if cr not in fb.crates:
            continue
        for p, line in fb.crates[cr].fn_lines.items():
            if 'root_as' not in line and 'size_prefixed_root' not in line and 'root_unchecked' not in line:
                continue
            if p.startswith('rten_model_file::schema') or p.startswith('<rten_model_file::schema'):
                continue
            f = fb.fn(p)
            if not f.has_mir():
                continue
            for c in f.calls():
                cal = c.callee or ''
                if re.search(r'root_as_model_unchecked|root_unchecked|size_prefixed_root_as_model_unchecked|root_as_model_with_opts', cal):
                    bad.append((f, c))
                elif cal.endswith('schema_generated::rten::root_as_model') or cal.endswith('::root_as_model'):
                    good += 1
    ctx.inst(R, 'only-verifying-root', not bad, 'no unchecked / custom-option FlatBuffers root accessor is called outside the generated schema (%s)' % [short(b[0].path) for b in bad], bad[0][1].loc() if bad else '')
    ctx.floor(R, 'root_as_model call sites', good, 1)


def len_match(ctx, fb, T):
    R = 'C05.len-match'
    n = 0
    for cr in ('rten',):
        for p in fb.fn_paths(crate=cr):
            if not in_scope(p):
                continue
            f = fb.fn(p)
            if not f.has_mir():
                continue
            for c in f.calls():
                if not call_is(c, ('re:TensorBase::<S, L>::from_data$', 're:TensorBase::<S, L>::from_data_with_strides$', 're:::from_storage_and_layout$')):
                    continue
                n += 1
                og = f.origins(c.args[0])
                linked = (has_origin_call(og, 're:::len$') or any(o[0] == 'len_of' for o in og)) and not any(o[0] == 'param' for o in og)
                empty = all(o[0] in ('const', 'agg', 'cast', 'named_const') for o in og)
                ctx.inst(R, 'from_data:' + short(p), linked or empty,
                         'panicking from_data is given a shape derived from the data\'s own length (or the empty shape for a 1-element vec): %s' % ('len-linked' if linked else 'constant shape' if empty else 'shape comes from the file - use try_from_data'), c.loc())
    ctx.count('from_data_sites_in_loaders', n)
    # try_from_data is the constructor for file-provided shapes
    k = 0
    for p in fb.fn_paths(crate='rten'):
        if in_scope(p) and fb.fn(p).has_mir():
            k += sum(1 for c in fb.fn(p).calls() if call_is(c, 're:TensorBase::<S, L>::try_from_data$'))
    ctx.floor(R, 'try_from_data sites in the loaders', k, 6)


def panicky_callee(fb, cg, q, memo):
    """does workspace function q (or its direct workspace callees) contain a panic-capable site?"""
    if q in memo:
        return memo[q]
    memo[q] = None
    f = fb.fn(q)
    res = None
    if f is not None and f.has_mir():
        for s in panic_sites(f, include_overflow=False):
            if s['kind'].startswith('assert:') and s['kind'] != 'assert:BoundsCheck':
                continue
            res = '%s at %s' % (s['detail'].split('::')[-1], f.loc(s['line']))
            break
        if res is None:
            for q2, call, how in cg.callees(f):
                if how == 'direct' and cg.is_workspace(q2) and q2 != q:
                    f2 = fb.fn(q2)
                    if f2 is not None and f2.has_mir():
                        for s in panic_sites(f2, include_overflow=False):
                            if s['kind'].startswith('assert:') and s['kind'] != 'assert:BoundsCheck':
                                continue
                            res = '%s at %s (via %s)' % (s['detail'].split('::')[-1], f2.loc(s['line']), q2.split('::')[-1])
                            break
                if res:
                    break
    memo[q] = res
    return res


def sites(ctx, fb, T):
    site_census(ctx, fb, T, 'C05.sites', ('rten', 'rten_model_file'), in_scope, short, fn_floor=150, site_floor=40)


def site_census(ctx, fb, T, R, crates, in_scope, short, fn_floor, site_floor, std_arith=False, scope_label='loader-scope', extra_discharge=None):
    """scope-complete census of panic-capable / arithmetic / allocation / cast / panicking-callee sites"""
    rev = {}
    norm = lambda p_: re.sub(r'\{closure#\d+\}', '{closure}', p_)   # closure ordinals shift when an unrelated closure is added
    for e in T.get('reviewed', []):
        rev[(norm(e['fn']), e['what'])] = (e['reason'], e['fn'])
    cg = callgraph.CallGraph(fb)
    memo = {}
    nfn = 0
    counts = {'panic': 0, 'arith': 0, 'alloc': 0, 'cast': 0, 'callee': 0}
    used = set()

    def judge(f, what, auto, detail_bad, line, kind):
        counts[kind] += 1
        ok, why = auto
        if not ok and extra_discharge is not None:
            ex = extra_discharge(f, what, line, kind)
            if ex:
                ok, why = True, ex
        if not ok:
            r = rev.get((norm(f.path), what))
            if r:
                used.add((r[1], what))
                ok, why = True, 'reviewed: ' + r[0]
        ctx.inst(R, '%s|%s' % (short(f.path), what), ok, why if ok else detail_bad, f.loc(line))

    for cr in crates:
        for p in fb.fn_paths(crate=cr):
            if not in_scope(p):
                continue
            f = fb.fn(p)
            if not f.has_mir():
                continue
            nfn += 1
            for s in panic_sites(f):
                if s['kind'].startswith('assert:Overflow'):
                    op = s['kind'].split(':')[-1]
                    harmless = all(op_int(o) is not None or L.only_calls(f.origins(o), ('re:Enumerate<I> as core::iter::traits::iterator::Iterator>::next$',)) for o in s['ops'])
                    judge(f, 'arith:' + op, (harmless, 'constants / loop counters only'),
                          'unchecked %s on values that may derive from the file: use checked_/saturating_ arithmetic or add a reviewed entry' % op, s['line'], 'arith')
                elif s['kind'] == 'assert:BoundsCheck':
                    idx = s['ops'][1] if len(s['ops']) > 1 else None
                    judge(f, 'index', (op_int(idx) is not None or (idx is not None and op_local(idx) in f.const_locals()), 'constant index into a fixed-size array'),
                          'indexing that can go out of bounds', s['line'], 'panic')
                elif s['kind'].startswith('assert:'):
                    judge(f, s['kind'].split(':', 1)[1], (False, ''), 'panic-capable arithmetic (%s)' % s['kind'], s['line'], 'panic')
                else:
                    what = s['detail'].split('::')[-1]
                    judge(f, what, (False, ''), 'panic-capable call %s is neither discharged nor reviewed' % s['detail'], s['line'], 'panic')
            for c in f.calls():
                if std_arith and re.search(r'Iterator>?::(product|sum)$', c.callee or '') and re.search(r'\b(usize|u64|u32|i64|i32|isize)\b', str(c.info.get('ga') or '')):
                    judge(f, 'arith:' + c.callee.split('::')[-1], (False, ''), 'Iterator::%s over integers that may derive from the file: overflow panics in debug builds and wraps in release; use try_fold with checked arithmetic' % c.callee.split('::')[-1], c.line, 'arith')
                if call_is(c, ALLOC):
                    sized = [a for a in c.args if op_local(a) is not None and f.local_ty(op_local(a)) in ('usize', 'u64')]
                    consts = [a for a in c.args if op_int(a) is not None]
                    if sized:
                        og = f.origins(sized[-1])
                        from_len = all(o[0] in L.PURE_KINDS or o[0] == 'len_of' or (o[0] == 'call' and suffix_match(o[1], ('re:::len$', 're:::min$', 're:::unwrap_or$', 're:::map$', 're:::nodes$'))) or o[0] in ('param', 'agg', 'upvar') for o in og) \
                            and (has_origin_call(og, 're:::len$') or any(o[0] == 'len_of' for o in og))
                        judge(f, 'alloc:' + c.callee.split('::')[-1], (L.is_pure_counter(og) or from_len, 'size is a constant or the length of data already in memory'),
                              'allocation sized by a value from the file without a bound', c.line, 'alloc')
                # calls into panicking workspace functions outside the scope
                targets = []
                q = c.info.get('r') or c.info.get('d')
                if q and c.info.get('rk') != 'virtual' and not in_scope(q) and cg.is_workspace(q) and not q.startswith(('rten_model_file::schema', '<rten_model_file::schema', 'rten_onnx', '<rten_onnx')):
                    targets.append(q)
                for a in c.args:
                    if a and a[0] == 'fn' and cg.is_workspace(a[1]) and not a[1].startswith(('rten_model_file::schema', 'rten_onnx')):
                        fa = fb.fn(a[1])
                        if fa is not None and fa.has_mir():
                            targets.append(a[1])
                for q in targets:
                    why = panicky_callee(fb, cg, q, memo)
                    if why:
                        # argument-guarded: an upper-bound comparison on (a value derived from) the same argument dominates the call
                        guarded = False
                        argo = set()
                        for a in c.args:
                            argo |= set(o for o in f.origins(a) if o[0] in ('param', 'call', 'upvar'))
                        for (op, a, b, g) in normalized_cmps(f, c.bb):
                            if op in ('Gt', 'Ge'):
                                op, a, b = SWAP[op], b, a
                            if op in ('Lt', 'Le') and (set(o for o in f.origins(a) if o[0] in ('param', 'call', 'upvar')) & argo) and op_int(b) is None:
                                guarded = True
                        judge(f, 'calls:' + short(q).split('<')[0][-60:], (guarded, 'argument is range-checked before the call (dominating < / <= guard on the same value)'),
                              'call into %s, which can panic (%s); validate the arguments first or use the fallible variant' % (q, why), c.line, 'callee')
            for i, b in enumerate(f.bbs):
                if b.get('c') or i not in f.live():
                    continue
                for st in b['s']:
                    if st[0] == '=' and st[2][0] == 'cast' and st[2][1].startswith('IntToInt'):
                        src, dst = f.ty(st[2][3]), f.ty(st[2][4])
                        if src in W and dst in W:
                            ss, ds = src[0] == 'i', dst[0] == 'i'
                            lossless = (W[dst] > W[src] and (ds or not ss)) or (W[dst] == W[src] and ss == ds)
                            if not lossless:
                                judge(f, 'cast:%s->%s' % (src, dst), (L.is_pure_counter(f.origins(st[2][2])), 'constant / counter'),
                                      'lossy or sign-changing cast of a value that may derive from the file', st[3], 'cast')
    ctx.floor(R, scope_label + ' functions analysed', nfn, fn_floor)
    for k, v in counts.items():
        ctx.count('sites_' + k, v)
    ctx.floor(R, 'obligations enumerated in the %s' % scope_label.replace('-scope', ' scope'), sum(counts.values()), site_floor)
    return used


def recursion(ctx, fb, T):
    R = 'C05.recursion'
    cg = callgraph.CallGraph(fb)
    nodes = set(p for cr in ('rten', 'rten_model_file') for p in fb.fn_paths(crate=cr) if in_scope(p))
    # include the registries' read_op (they call back into load_graph for subgraphs)
    nodes |= set(p for p in fb.fn_paths(crate='rten') if re.search(r'op_registry::(rten_registry|onnx_registry)::', p))
    allowed = {e['fn']: e['reason'] for e in T.get('scc_reviewed', [])}
    n = 0
    for scc in cg.sccs(nodes):
        core = [p for p in scc if in_scope(p)]
        if not core:
            continue
        n += 1
        key = sorted(core)[0]
        r = allowed.get(key)
        ctx.inst(R, 'scc:' + short(key), r is not None, ('reviewed: ' + r) if r else 'unreviewed recursive cycle in the loaders: %s' % fmt_chain([short(x) for x in scc]), fb.fn(key).loc())
    ctx.floor(R, 'recursive cycles through the loaders', n, 1)
