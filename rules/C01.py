"""C01 Graph optimization preserves model semantics (framework clauses of the optimizer, structural)."""
import re
from rulelib import *
from rulelib import _rv_operands
from facts import op_int, op_local, op_place
import C02

THOROUGH_CFGS = ('min_none', 'min_rten', 'min_onnx')   # reduced-feature builds of the rten crate (thorough tier)

EXPLANATION = (
    "Decides the rewriting-framework clauses of C01 for all graphs, not the numerical equivalence of each fusion pattern: "
    "(out-ids) every Ok exit of GraphOptimizer::optimize passes through GraphMutator::finalize_graph, which installs the tracked "
    "output-id list with Graph::set_output_ids, and replace_value updates that list; (fusion-guards) in GraphMutator::apply_fusion "
    "a Replacement is produced only if no operator of the unfused subgraph was already claimed by an earlier fusion "
    "(ops_pending_removal test in the loop and before create_fusion), no intermediate output is used outside the subgraph "
    "(find_operator_output_used_outside_subgraph returned None) and none is captured by a subgraph "
    "(find_operator_output_captured_by_subgraph returned None); Graph::remove_nodes is called only there, after the scan; "
    "(identity-output) an Identity fusion rewires consumers only when the removed value is not a graph output, otherwise an "
    "Identity operator keeps the output id; (type-changing-casts) every pattern fusion whose pattern contains a Cast reads the "
    "matched Cast operator's target type and compares it before fusing; (const-prop) constant propagation obtains values only "
    "from Graph::partial_run (so it inherits C04's determinism gate) and installs them through replace_value; "
    "(index-pairing) in ComputeShapeFusion the input index stored for a symbol is the position of that symbol's own input id "
    "(position() result, or len()-1 immediately after pushing it); (commutative-set) shared with C13: the operators the pattern "
    "matcher may commute are exactly the reviewed set. That each fused operator computes the same values as the subgraph it "
    "replaces is numerical and not decided.")
ASSUMPTIONS = ["fusion patterns are semantically equivalent to the fused operators (value-level, not decided)"]
OPT = 'rten::optimize::GraphOptimizer::optimize'
MUT = 'rten::optimize::GraphMutator'


def captured_preserved(ctx, fb):
    """a fusion must not remove a value that an If / Loop subgraph captures by name (replace_value rewires operator inputs
    and graph outputs of the current graph only, never captures).  find_operator_output_captured_by_subgraph treats only
    the outputs of Fusion::Op as still produced after the fusion: anything it reads from the fusion to build that set is
    read under a `Fusion::Op` test alone (Identity and Constant fusions delete their producers)."""
    R = 'C01.fusion-guards'
    f = fb.fn('rten::optimize::find_operator_output_captured_by_subgraph')
    if not ctx.anchor(R, 'find_operator_output_captured_by_subgraph', f is not None and f.has_mir()):
        return
    # the fusion is parameter 4 (graph, captured_values, unfused_ops, fusion)
    fpar = [i for i in range(1, f.argc + 1) if 'Fusion' in f.local_ty(i)]
    if not ctx.anchor(R, 'fusion parameter', len(fpar) == 1):
        return
    fp = fpar[0]
    bad, nread = [], 0
    def variants_at(bb):
        vs = None
        for g in f.guards(bb):
            gv = guard_variants(g, fb)
            if gv and gv[1] is not None and str(gv[0]).endswith('Fusion'):
                vs = set(gv[1]) if vs is None else vs & set(gv[1])
        return vs
    for i, b in enumerate(f.bbs):
        if b.get('c') or i not in f.live():
            continue
        reads = []
        for st in b['s']:
            if st[0] == '=' and st[2][0] in ('use', 'ref', 'raw'):
                pl = op_place(st[2][1]) if st[2][0] == 'use' else st[2][2]
                if pl and pl[0] == fp and any(isinstance(e, list) and e[0] == 'f' for e in pl[1:]):
                    reads.append('field read')
        t = b['t']
        if t[0] == 'call' and any(op_local(a) == fp or any(o[0] == 'param' and o[1] == fp - 1 for o in f.origins(a)) for a in t[2]) and 'Fusion' in str(t[1].get('d', '')):
            reads.append('call ' + str(t[1].get('d', '')).split('::')[-1])
        for r in reads:
            nread += 1
            vs = variants_at(i)
            if vs != {'Op'}:
                bad.append('%s under %s' % (r, sorted(vs) if vs else 'no variant test'))
    ctx.inst(R, 'captured-output-preserved-only-by-op-fusion', not bad and nread >= 1,
             'outputs are treated as still produced only for Fusion::Op (%d read(s) of the fusion, all under a Fusion::Op test)' % nread if not bad and nread else
             'the set of outputs considered preserved is read from the fusion %s: a Constant / Identity fusion deletes the producers of a value that a subgraph captures by name, so the optimized model fails with a missing input where the original runs' % ('; '.join(bad) or '(no read found)'), f.loc())


def norm_keepdims(ctx, fb):
    """the LayerNormalization / RmsNormalization fusions replace `x - ReduceMean(x)` style subgraphs, in which the mean is
    broadcast back along the reduced axis: that only equals the fused operator if the ReduceMean keeps the reduced
    dimension.  Somewhere on the way to accepting the match (the fusion's maybe_fuse, op_applied_to_last_axis or
    ReduceMean's OperatorAxis::get_axis) the ReduceMean's keep_dims attribute must be read."""
    R = 'C01.fusion-guards'
    fns = [f for f in fb.fns(crate='rten') if f.has_mir() and re.search(
        r'optimize::fusions::(LayerNormalizationFusion|RmsNormalizationFusion) as .*>::maybe_fuse|optimize::fusions::op_applied_to_last_axis|ReduceMean as rten::optimize::fusions::OperatorAxis>::get_axis', f.path)]
    if not ctx.anchor(R, 'normalization fusions + ReduceMean::get_axis', len(fns) >= 3):
        return
    reads = 0
    for f in fns:
        for b in f.bbs:
            if b.get('c'):
                continue
            for st in b['s']:
                if st[0] == '=':
                    for o in _rv_operands(st[2]):
                        pl = op_place(o)
                        if pl and any(isinstance(e, list) and e[0] == 'f' and str(e[2]) == 'keep_dims' for e in pl[1:]):
                            reads += 1
            t = b['t']
            if t[0] == 'sw':
                pl = op_place(t[1])
                if pl and any(isinstance(e, list) and e[0] == 'f' and str(e[2]) == 'keep_dims' for e in pl[1:]):
                    reads += 1
    ctx.inst(R, 'norm-fusions-require-keep-dims', reads >= 1, 'the normalization fusions read ReduceMean.keep_dims before accepting a match' if reads else
             'neither the LayerNormalization / RmsNormalization fusions nor ReduceMean::get_axis read keep_dims: a `x - ReduceMean(x, keepdims=0)` subgraph (whose mean broadcasts along a different axis for square inputs) is replaced by LayerNormalization, changing a successful result', fns[0].loc())


def fusion_attrs(ctx, fb):
    """fusions that rewrite a subgraph must honour what the replaced operators' attributes / operand shapes say:
    (scalar) a constant operand is treated as a scalar (x+0, x*1, alpha, scale ...) only if its rank is 0 - a one-element
    tensor of higher rank changes the rank of the broadcast result; (bias) FusedMatMul hands its bias to the GEMM as a row
    bias only under `bias.len() == columns`; (shape-slice) ShapeSliceToConstant reads the Shape operator's start / end;
    (reduce-mean) the fused ReduceMean copies noop_with_empty_axes from the operator it replaces."""
    R = 'C01.fusion-attrs'
    def fn1(pat):
        fs = [f for f in fb.fns(crate='rten') if f.has_mir() and re.search(pat, f.path)]
        return fs[0] if len(fs) == 1 else None
    # (scalar)
    for pat, label, callee in ((r'Graph as rten::optimize::fusions::GraphQuery>::get_scalar$', 'get_scalar', r'::as_scalar$'),
                               (r'optimize::pattern_matcher::ConstantPattern::matches$', 'ConstantPattern::matches', r'::item$')):
        f = fn1(pat)
        if not ctx.anchor(R, label, f is not None):
            continue
        sites = [(h, c) for h in [fb.fn(q) for q in fb.with_closures(f.path)] if h is not None and h.has_mir() for c in h.calls() if re.search(callee, c.callee or '')]
        ok = bool(sites)
        for (h, c) in sites:
            g_ok = False
            for (op, a, b, g) in normalized_cmps(h, c.bb):
                if op == 'Eq' and op_int(b) == 0 and any(o[0] == 'call' and re.search(r'::ndim$', o[1] or '') for o in h.origins(a)):
                    g_ok = True
            ok = ok and g_ok
        ctx.inst(R, 'scalar-only-if-rank-0:' + label, ok, 'a constant is taken as a scalar only under ndim() == 0' if ok else
                 'a one-element constant of any rank is taken as a scalar: broadcasting with e.g. a [1,1] constant adds dimensions to the unfused result that the fused operator / elided identity does not produce', f.loc())
    # (bias)
    f = fn1(r'ops::matmul::FusedMatMul as rten::operator::Operator>::run$')
    if ctx.anchor(R, 'FusedMatMul::run', f is not None):
        hs = [h for h in [fb.fn(q) for q in fb.with_closures(f.path)] if h is not None and h.has_mir()]
        rows = [1 for h in hs for b in h.bbs if not b.get('c') for st in b['s'] if st[0] == '=' and st[2][0] == 'agg' and st[2][3] == 'Row']
        # the length test: a comparison between bias.len() and b.size(..) on which an early return depends
        ok = False
        for i, b in enumerate(f.bbs):
            if b.get('c') or i not in f.live():
                continue
            for st in b['s']:
                if st[0] == '=' and st[2][0] == 'bin' and st[2][1] in ('Eq', 'Ne'):
                    og = f.origins(st[2][2]) | f.origins(st[2][3])
                    if any(o[0] == 'call' and re.search(r'::len$', o[1] or '') for o in og) and any(o[0] == 'call' and re.search(r'::size$', o[1] or '') for o in og):
                        ok = True
        ok = ok and bool(rows)
        ctx.inst(R, 'row-bias-only-if-length-matches', ok, 'BiasVector::Row is built only under bias.len() == b.size(last)' if ok else
                 'the fused bias is handed to the GEMM without comparing its length with the number of output columns: a bias the unfused Add would broadcast panics (WrongBiasSize) in the fused operator', f.loc())
    # (shape-slice)
    f = fn1(r'ShapeSliceToConstant as rten::optimize::fusions::FusionVisitor>::maybe_fuse$')
    if ctx.anchor(R, 'ShapeSliceToConstant::maybe_fuse', f is not None):
        reads = set()
        for b in f.bbs:
            if b.get('c'):
                continue
            for st in b['s']:
                if st[0] == '=':
                    for o in _rv_operands(st[2]):
                        pl = op_place(o)
                        for e in (pl or [])[1:]:
                            if isinstance(e, list) and e[0] == 'f' and str(e[2]) in ('start', 'end') and str(e[3]).endswith('layout::Shape'):
                                reads.add(str(e[2]))
            t = b['t']
            if t[0] == 'call':
                for a in t[2]:
                    pl = op_place(a)
                    for e in (pl or [])[1:]:
                        if isinstance(e, list) and e[0] == 'f' and str(e[2]) in ('start', 'end') and str(e[3]).endswith('layout::Shape'):
                            reads.add(str(e[2]))
        ctx.inst(R, 'shape-slice-reads-start-end', reads == {'start', 'end'}, 'the Shape operator\'s start and end attributes are read before its output is replaced by a constant' if reads == {'start', 'end'} else
                 'ShapeSliceToConstant does not read Shape.start / Shape.end (%s read): Slice(Shape(x, start=1), ..) is replaced with dimensions counted from 0' % sorted(reads), f.loc())
    # (reduce-mean)
    f = fn1(r'ReduceMeanAxesFusion as rten::optimize::fusions::PatternFusion>::maybe_fuse$')
    if ctx.anchor(R, 'ReduceMeanAxesFusion::maybe_fuse', f is not None):
        aggs = [(i, st) for i, b in enumerate(f.bbs) if not b.get('c') for st in b['s'] if st[0] == '=' and st[2][0] == 'agg' and str(st[2][2]).endswith('reduce::ReduceMean')]
        adt = fb.adt('rten::ops::reduce::ReduceMean')
        names = [fd['name'] for fd in adt['variants'][0]['fields']] if adt else []
        ok = bool(aggs) and 'noop_with_empty_axes' in names
        for (i, st) in aggs:
            o = st[2][4][names.index('noop_with_empty_axes')] if ok else None
            if o is None or o[0] == 'k':
                ok = False
        ctx.inst(R, 'reduce-mean-copies-noop-flag', ok, 'the fused ReduceMean takes noop_with_empty_axes from the operator it replaces' if ok else
                 'the fused ReduceMean sets noop_with_empty_axes to a constant: ReduceMean(x, axes=[] constant, noop_with_empty_axes=1) reduces over all axes after optimization instead of returning x', f.loc())


def run(ctx):
    fb = ctx.fb()
    captured_preserved(ctx, fb)
    norm_keepdims(ctx, fb)
    fusion_attrs(ctx, fb)
    out_ids(ctx, fb)
    fusion_guards(ctx, fb)
    identity_output(ctx, fb)
    cast_targets(ctx, fb)
    const_prop(ctx, fb)
    index_pairing(ctx, fb)
    commutative(ctx, fb)


def need(ctx, fb, R, path):
    f = fb.fn(path)
    ok = f is not None and f.has_mir()
    if not ok:
        ctx.inst(R, 'anchor:' + path.split('::')[-1], False, '%s not found (fail closed)' % path, '')
    return f if ok else None


def out_ids(ctx, fb):
    R = 'C01.out-ids'
    f = need(ctx, fb, R, OPT)
    if f is None:
        return
    fin = [c for c in f.calls() if (c.callee or '').endswith('GraphMutator::finalize_graph')]
    n = 0
    ok = bool(fin)
    for i, b in enumerate(f.bbs):
        if b.get('c') or i not in f.live():
            continue
        for s in b['s']:
            if s[0] == '=' and s[1] == [0] and s[2][0] == 'agg' and s[2][3] == 'Ok':
                n += 1
                if not any(f.dominates(c.bb, i) for c in fin):
                    ok = False
                else:
                    # the returned graph is the finalize_graph result
                    og = f.origins(s[2][4][0])
                    if not any(o[0] == 'call' and (o[1] or '').endswith('finalize_graph') for o in og):
                        ok = False
    ctx.inst(R, 'optimize:ok-through-finalize', ok and n >= 1, 'every Ok(graph) of GraphOptimizer::optimize is the result of GraphMutator::finalize_graph (%d exits)' % n, f.loc())
    g = need(ctx, fb, R, MUT + '::finalize_graph')
    if g is not None:
        so = [c for c in g.calls() if (c.callee or '').endswith('Graph::set_output_ids')]
        ok = bool(so) and all(any(o[0] == 'param' and o[1] == 0 and 'output_ids' in [str(z) for z in o[2]] for o in g.origins(c.args[1])) for c in so)
        ctx.inst(R, 'finalize:installs-tracked-outputs', ok, 'finalize_graph calls Graph::set_output_ids(&self.output_ids)', g.loc())
    r = need(ctx, fb, R, MUT + '::replace_value')
    if r is not None:
        # writes through an iterator over self.output_ids (iter_mut) compared with old_value_id
        im = [c for c in r.calls() if re.search(r'::iter_mut$', c.callee or '') and any(o[0] == 'param' and o[1] == 0 and 'output_ids' in [str(z) for z in o[2]] for o in r.origins(c.args[0]))]
        ri = [c for c in r.calls() if (c.callee or '').endswith('Graph::replace_input')]
        ctx.inst(R, 'replace_value:updates-outputs-and-consumers', bool(im) and bool(ri), 'replace_value rewrites self.output_ids and every consumer input (Graph::replace_input)', r.loc())


def fusion_guards(ctx, fb):
    R = 'C01.fusion-guards'
    f = need(ctx, fb, R, MUT + '::apply_fusion::{closure#0}')
    par = need(ctx, fb, R, MUT + '::apply_fusion')
    if f is None or par is None:
        return
    repl = []
    for i, b in enumerate(f.bbs):
        if b.get('c') or i not in f.live():
            continue
        for s in b['s']:
            if s[0] == '=' and s[2][0] == 'agg' and str(s[2][2]).endswith('Replacement'):
                repl.append(i)
    ctx.inst(R, 'anchor:Replacement', len(repl) == 1, 'one construction site of Replacement in the scan closure', f.loc())
    if len(repl) != 1:
        return
    bb = repl[0]

    def none_guard(pat):
        for g in f.guards(bb):
            c = g.cond()
            if c[0] == 'disc':
                r = f.resolve_copy(['c', [c[1][0]]])
                if r[0] == 'call' and re.search(pat, r[1].callee or ''):
                    # the tested Option is the call's own result (no adaptor in between)
                    if (g.vals is not None and g.vals == [0]) or (g.vals is None and g.excluded == [1]):
                        return True
        return False
    ctx.inst(R, 'not-used-outside', none_guard(r'find_operator_output_used_outside_subgraph$'), 'Replacement only if find_operator_output_used_outside_subgraph(..) is None', f.loc())
    ctx.inst(R, 'not-captured', none_guard(r'find_operator_output_captured_by_subgraph$'), 'Replacement only if find_operator_output_captured_by_subgraph(..) is None', f.loc())
    # pending-removal: contains() tests with a `return None` on true, one before create_fusion and one in the loop over unfused ops
    cont = [c for c in f.calls() if re.search(r'HashSet<.*>::contains$|HashSet::<.*>::contains$', c.callee or '')]
    ins = [c for c in f.calls() if re.search(r'HashSet<.*>::insert$|HashSet::<.*>::insert$', c.callee or '')]
    in_loop = [c for c in cont if f.in_loop(c.bb)]
    pre = [c for c in cont if not f.in_loop(c.bb)]
    ok_loop = bool(in_loop) and bool(ins) and all(guards_call(f, i_.bb, 're:::contains$', truth=False) for i_ in ins)
    ctx.inst(R, 'claimed-ops-skip', ok_loop, 'each unfused operator is inserted into ops_pending_removal only after a negative contains() test in the loop; a positive test abandons the fusion', f.loc())
    # the Replacement is reached only after the loop's insertions (dominated by the loop header) and create_fusion is not called for an already claimed operator
    cf = [c for c in f.calls() if re.search(r'Fn<.*>>::call$|::call$', c.callee or '') and 'create_fusion' in str(f.names.get(str(op_local(c.args[0]) or ''), '')) or re.search(r'core::ops::function::Fn::call$', c.callee or '')]
    ok_pre = bool(pre) and all(guards_call(f, c.bb, 're:::contains$', truth=False) for c in cf) and bool(cf)
    ctx.inst(R, 'claimed-root-skip', ok_pre, 'create_fusion is consulted only for an operator that no earlier fusion has claimed', f.loc())
    # remove_nodes only in apply_fusion, after the scan
    callers = callers_of(fb, 're:Graph::remove_nodes$', crates=['rten'])
    bad = [x.path for x, c in callers if not x.path.startswith(MUT + '::apply_fusion') and not x.path.startswith('rten::graph::')]
    rn = [c for c in par.calls() if (c.callee or '').endswith('Graph::remove_nodes')]
    col = [c for c in par.calls() if re.search(r'Iterator>?::collect$', c.callee or '')]
    ok_rm = not bad and len(rn) == 1 and any(par.dominates(c.bb, rn[0].bb) for c in col)
    ctx.inst(R, 'remove-after-scan', ok_rm, 'Graph::remove_nodes is called only by apply_fusion, once, after the fusions were collected' if ok_rm else 'remove_nodes called from %s or before the scan completes' % (bad[:1] or 'apply_fusion'), par.loc())


def identity_output(ctx, fb):
    R = 'C01.identity-output'
    f = need(ctx, fb, R, MUT + '::apply_fusion')
    if f is None:
        return
    rv = [c for c in f.calls() if (c.callee or '').endswith('GraphMutator::replace_value')]
    n = 0
    ok = True
    for c in rv:
        # the Identity arm: old value = output_id of the Identity variant
        gv = [guard_variants(g, fb) for g in f.guards(c.bb)]
        is_identity = any(v and v[1] == {'Identity'} for v in gv)
        if not is_identity:
            continue
        n += 1
        if not guards_call(f, c.bb, 're:::contains$', truth=False):
            ok = False
    ctx.inst(R, 'rewire-only-non-outputs', ok and n >= 1, 'in the Identity arm replace_value is reached only when graph.output_ids() does not contain the removed value (%d site)' % n, f.loc())


def cast_targets(ctx, fb):
    R = 'C01.type-changing-casts'
    n = 0
    for imp in fb.impls(trait='rten::optimize::fusions::PatternFusion'):
        pf = fb.fn(imp['items'].get('pattern', (None, None))[1] or '')
        mf = fb.fn(imp['items'].get('maybe_fuse', (None, None))[1] or '')
        if pf is None or not pf.has_mir():
            continue
        strs = set()
        for c in pf.calls():
            for a in c.args:
                for o in pf.origins(a):
                    if o[0] == 'const' and str(o[1]).startswith('"'):
                        strs.add(str(o[1]).strip('"'))
        if 'Cast' not in strs:
            continue
        n += 1
        name = imp['self'].split('::')[-1]
        ok = False
        if mf is not None and mf.has_mir():
            go = [c for c in mf.calls() if re.search(r'get_operator$', c.callee or '') and 'convert::Cast' in str(c.info.get('ga') or '')]
            # a comparison involving the `to` field of the fetched operator controls an exit
            for c in mf.calls():
                if re.search(r'PartialEq.*::(ne|eq)$', c.callee or ''):
                    og = set()
                    for a in c.args:
                        og |= mf.origins(a)
                    if any(o[0] == 'call' and re.search(r'get_operator$|from_residual$|branch$|ok_or$', o[1] or '') for o in og) and go:
                        ok = True
            if not ok and go:
                for i, b in enumerate(mf.bbs):
                    for s in b['s']:
                        if s[0] == '=' and s[2][0] in ('disc',) and go:
                            og = mf.place_origins(s[2][1])
                            if any(o[0] == 'call' and re.search(r'get_operator$|branch$', o[1] or '') for o in og) and any(isinstance(e, list) and e[0] == 'f' and str(e[2]) == 'to' for e in s[2][1][1:]):
                                ok = True
        ctx.inst(R, 'fusion:' + name, ok, 'the pattern contains a Cast and maybe_fuse compares the matched Cast\'s target type before fusing' if ok else
                 'the pattern contains a Cast but maybe_fuse never looks at its target type: a Cast to another type would be fused as if it were the expected one', mf.loc() if mf is not None else '')
    ctx.floor(R, 'pattern fusions containing a Cast', n, 2)


def const_prop(ctx, fb):
    R = 'C01.const-prop'
    f = need(ctx, fb, R, 'rten::optimize::GraphOptimizer::propagate_constants')
    if f is None:
        return
    pr = [c for c in f.calls() if (c.callee or '').endswith('Graph::partial_run')]
    rv = [c for c in f.calls() if (c.callee or '').endswith('GraphMutator::replace_value')]
    ok = len(pr) == 1 and bool(rv)
    # replaced id = key of the partial_run result; new id = the constant just added
    for c in rv:
        og_new = f.origins(c.args[2])
        if not any(o[0] == 'call' and re.search(r'GraphMutator::add_constant$', o[1] or '') for o in og_new):
            ok = False
        og_old = f.origins(c.args[1])
        if not any(o[0] == 'call' and re.search(r'partial_run$|::next$|branch$', o[1] or '') for o in og_old):
            ok = False
    others = [x.path for x, c in callers_of(fb, 're:Graph::(run_plan|run)$', crates=['rten']) if x.path.startswith('rten::optimize')]
    ctx.inst(R, 'values-from-partial-run', ok and not others, 'constant propagation evaluates only through Graph::partial_run and installs each leaf with replace_value(leaf id, new constant id)', f.loc())


def index_pairing(ctx, fb):
    R = 'C01.index-pairing'
    fs = [f for f in fb.fns(crate='rten') if re.search(r'ComputeShapeFusion as .*FusionVisitor>::maybe_fuse', f.path) and f.has_mir()]
    site = None
    for f in fs:
        for i, b in enumerate(f.bbs):
            if b.get('c') or i not in f.live():
                continue
            for s in b['s']:
                if s[0] == '=' and s[2][0] == 'agg' and str(s[2][2]).endswith('SymbolInfo'):
                    site = (f, i, s)
    if site is None:
        ctx.inst(R, 'anchor:SymbolInfo', False, 'construction of SymbolInfo in ComputeShapeFusion::maybe_fuse not found', '')
        return
    f, bb, s = site
    adt = fb.adt(s[2][2])
    idx = [j for j, fd in enumerate(adt['variants'][0]['fields']) if fd['name'] == 'input'] if adt else []
    if not idx:
        ctx.inst(R, 'anchor:SymbolInfo.input', False, 'field SymbolInfo.input not found', f.loc())
        return
    op = s[2][4][idx[0]]
    # definitions of the index variable: position() payload, or len()-1 dominated by a push
    ok = True
    why = []
    l = op_local(op)
    seen = set()
    work = [l]
    ndefs = 0
    while work:
        x = work.pop()
        if x is None or x in seen:
            continue
        seen.add(x)
        for d in f.defs().get(x, []):
            if d[2] == 'call':
                cal = d[3].callee or ''
                if re.search(r'::len$', cal):
                    ndefs += 1
                    pushes = [c for c in f.calls() if re.search(r'Vec::<T, A>::push$|::push$', c.callee or '') and f.dominates(c.bb, d[0])]
                    if not pushes:
                        ok = False
                        why.append('an index computed from len() is not dominated by the push of the id it is meant to denote')
                elif re.search(r'::position$', cal):
                    ndefs += 1
                else:
                    for a in d[3].args:
                        if op_place(a):
                            work.append(op_place(a)[0])
            else:
                rv = d[3]
                if rv[0] == 'use' and op_place(rv[1]) and any(isinstance(e, list) and e[0] == 'f' for e in op_place(rv[1])[1:]):
                    # payload of Some(position): follow the option local
                    work.append(op_place(rv[1])[0])
                else:
                    for o in _rv_operands(rv):
                        if op_place(o):
                            work.append(op_place(o)[0])
    ctx.inst(R, 'symbol-input-index', ok and ndefs >= 2, 'SymbolInfo.input is the position() of the symbol\'s own input id, or len()-1 right after pushing it' if ok and ndefs >= 2 else
             ('; '.join(why) or 'cannot find both the position() and the push/len() definitions of the index'), f.loc())


def commutative(ctx, fb):
    """the pattern matcher commutes operands of is_commutative operators: re-evaluate C13's table rule here"""
    import C13
    from runner import load_tables
    sub = type(ctx)(ctx.prop, ctx.tier, ctx.fact_dirs, load_tables('C13'), ctx.repo_hash)
    sub._fbs = ctx._fbs
    sub.default_cfg = getattr(ctx, 'default_cfg', 'ws')
    C13.run(sub)
    n = 0
    for i in sub.instances:
        if i['rule'] == 'C13.commutative-set':
            n += 1
            ctx.inst('C01.via-C13.commutative-set', i['key'].split('|', 1)[1], i['ok'], i['detail'], i['loc'], nontrivial=i['nontrivial'])
    ctx.floor('C01.via-C13.commutative-set', 'commutative / associative operators checked against the reviewed table', n, 7)
