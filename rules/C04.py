"""C04 Partial evaluation composes with full evaluation - non-determinism gate."""
import json, os, re
from rulelib import *
from facts import op_local
import opsum

THOROUGH_CFGS = ('min_none', 'min_rten', 'min_onnx')   # reduced-feature builds of the rten crate (thorough tier)

EXPLANATION = (
    "Random operators are never folded or partially evaluated: for every impl Operator (all features on) the "
    "monomorphic reachability set of run / run_in_place / run_subgraph is intersected with variation sinks (fastrand, "
    "fastrand_contrib, getrandom, rten_tensor::rng, std::time); an operator that reaches one must override "
    "is_deterministic with a summary that is not constant true (Dropout's seed.is_some() is accepted because its entropy "
    "source is guarded by the None arm of the same field). Operators that delegate to other operators through a virtual "
    "Operator::run edge (TransformInputs, If, Loop) must forward is_deterministic to the inner operators or be "
    "constructor-restricted to deterministic inner operators. prune_plan keeps an operator only under a positive "
    "is_deterministic() guard, and Planner::prune_plan is reachable only through Graph::partial_run, which is the "
    "single door used by constant propagation; operator outputs added to the candidate output list exclude supplied inputs "
    "(no value listed twice). Decides the gate, not the composition equality.")
ASSUMPTIONS = ["std::time reached only through rten::timing (profiler timers) is measurement, not output", "variation sinks outside the table (environment variables read for thread-pool sizing, HashMap RandomState seeds) do not flow into operator outputs"]

SINK = re.compile(r'^(fastrand|fastrand_contrib|getrandom)::|^rten_tensor::rng::|^std::time::|^std::sys::.*::time::')
ENTROPY = re.compile(r'^fastrand::global_rng::|^getrandom::|^std::time::|^<fastrand::Rng as core::default::Default>::default')
OPT = 'rten::operator::Operator'


def optable():
    return json.load(open(os.path.join(os.path.dirname(__file__), '..', 'tables', 'operators.json')))


def name_literal(fb, o):
    p = o.path('name')
    f = fb.fn(p) if p else None
    if f is None or not f.has_mir():
        return None
    for (bb, j, kind, pl, dp) in f.defs().get(0, []):
        if kind == 'rv':
            r = f.resolve_copy(['c', pl[2]] if pl[0] == 'ref' else pl[1]) if pl[0] in ('ref', 'use') else None
            if r and r[0] == 'op' and r[1] and r[1][0] == 'k':
                return r[1][1].strip('"')
            if r and r[0] == 'rv' and r[1][0] == 'use' and r[1][1][0] == 'k':
                return r[1][1][1].strip('"')
    return None


def receiver_local(f, op):
    """local a `&mut set` receiver operand refers to (through reborrows)"""
    l = op_local(op)
    for _ in range(4):
        d = f.def_of_local(l) if l is not None else None
        if d is not None and d[2] != 'call' and d[3][0] in ('ref', 'raw') and not any(isinstance(e, list) for e in d[3][2][1:]):
            l = d[3][2][0]
            continue
        if d is not None and d[2] != 'call' and d[3][0] == 'use' and op_local(d[3][1]) is not None:
            l = op_local(d[3][1])
            continue
        break
    return l


def fl_all(fb, f):
    return [fb.fn(p) for p in fb.closures_of(f.path) if fb.fn(p) is not None and fb.fn(p).has_mir()]


def run(ctx):
    fb = ctx.fb()
    T = optable()
    ops = opsum.all_ops(fb)
    feats = set(fb.crates['rten'].header['features'])
    R = 'C04.nondet-table'
    ctx.inst(R, 'cfg:random-feature-analysed', 'random' in feats, 'rten analysed with features %s' % sorted(feats), nontrivial=False)
    ctx.floor(R, 'impl Operator', len(ops), 160)
    n_sink_ops = 0
    deleg = []
    for o in ops:
        hits = {}
        virt = set()
        missing_root = False
        for m in ('run', 'run_in_place'):
            r = fb.reach(o.root(m))
            if r is None or r.skipped:
                if m == 'run' or o.overridden(m):
                    missing_root = True
                continue
            if r.unresolved:
                ctx.inst(R, 'unresolved:%s::%s' % (o.short, m), False, 'mono walk has unresolved callees %s' % r.unresolved[:3])
            for idx in r.find(lambda p: bool(SINK.search(p))):
                if any(x.startswith('rten::timing::') for x in r.chain(idx)):
                    continue   # profiling timers: measurement only, never an operator output
                hits.setdefault(r._s[r.nodes[idx][0]], (m, r, idx))
            virt |= {p for p in r.virtual_paths() if p.startswith('rten::operator::Operator::run')}
        rs = fb.reach('<<%s as rten::operator::SubgraphOperator>>::run_subgraph' % o.ty)
        if rs is not None and not rs.skipped:
            for idx in rs.find(lambda p: bool(SINK.search(p))):
                if any(x.startswith('rten::timing::') for x in rs.chain(idx)):
                    continue
                hits.setdefault(rs._s[rs.nodes[idx][0]], ('run_subgraph', rs, idx))
            virt |= {p for p in rs.virtual_paths() if p.startswith('rten::operator::Operator::run')}
        if missing_root:
            ctx.inst(R, 'root:' + o.short, False, 'no monomorphic reachability root for %s::run (generic impl?) - fail closed' % o.ty)
            continue
        det = o.get('is_deterministic')
        if hits:
            n_sink_ops += 1
            sink, (m, r, idx) = sorted(hits.items())[0]
            chain = fmt_chain(r.chain(idx))
            if det[0] == 'bool':
                ctx.inst(R, 'declares-nondeterministic:' + o.short, det[1] is False and o.overridden('is_deterministic') and o.short in T['nondeterministic'],
                         '%s reaches variation sink %s via %s: is_deterministic()=%s (must be overridden, not constant true, and listed in tables/operators.json)' % (o.short, sink, chain, det[1]),
                         fb.fn(o.path('run')).loc())
            else:
                # non-constant summary: accepted only in the reviewed form `self.F.is_some()` with the entropy sink on the None arm
                okf = False
                why = 'non-constant is_deterministic (%s) not in a recognised form' % det[1]
                f = det[2]
                field = None
                if f is not None:
                    for c in f.calls():
                        if call_is(c, 're:Option::<T>::is_some$') and c.dest[0] == 0:
                            for og in f.origins(c.args[0]):
                                if og[0] == 'param' and og[1] == 0 and og[2]:
                                    field = og[2][-1]
                if field:
                    rf = fb.fn(o.path('run'))
                    direct = [c for c in rf.calls() if ENTROPY.search(c.callee or '')]
                    guarded = []
                    for c in direct:
                        g_ok = False
                        for g, h, vs, place in guards_variant(rf, c.bb, fb):
                            po = rf.place_origins(place)
                            if vs == {'None'} and any(og[0] == 'param' and og[1] == 0 and field in og[2] for og in po) and not any(og[0] in ('call', 'binop', 'agg') for og in po):
                                g_ok = True
                        guarded.append(g_ok)
                    # every entropy instance in the reach set must be below one of those direct calls (i.e. no other entry)
                    ent_nodes = r.find(lambda p: bool(ENTROPY.search(p)))
                    entry_ok = all(any(r.chain(i)[1] == (c.callee) for c in direct) for i in ent_nodes if len(r.chain(i)) > 1)
                    okf = bool(direct) and all(guarded) and entry_ok and o.short in T['nondeterministic']
                    why = 'is_deterministic = self.%s.is_some(); entropy sources in run: %d direct call(s), all on the %s==None arm: %s; no other entry to an entropy sink: %s' % (field, len(direct), field, all(guarded), entry_ok)
                ctx.inst(R, 'declares-nondeterministic:' + o.short, okf, why, fb.fn(o.path('run')).loc())
        if virt:
            deleg.append((o, virt))
    ctx.floor(R, 'operators reaching a variation sink', n_sink_ops, 6)
    ctx.count('operators_with_sinks', n_sink_ops)

    # ---- delegation
    R = 'C04.wrapper'
    ctx.floor(R, 'delegating operators (virtual Operator::run edge)', len(deleg), 3)
    for o, virt in deleg:
        det = o.get('is_deterministic')
        fwd = False
        rd = fb.reach(o.root('is_deterministic'))
        if o.overridden('is_deterministic') and rd is not None and not rd.skipped:
            fwd = any(p == 'rten::operator::Operator::is_deterministic' for p in rd.virtual_paths())
        if fwd:
            # forwarding must be a conjunction over all subgraphs / inner operators: checked structurally for subgraph ops
            detail = 'is_deterministic is overridden and consults the inner operators through a virtual Operator::is_deterministic call'
            ok = True
            sub = fb.adt(o.ty)
            graphs = [fd['name'] for v in (sub['variants'] if sub else []) for fd in v['fields'] if 'rten::graph::Graph' in fd['adts']]
            f = fb.fn(o.path('is_deterministic'))
            used = set()
            for c in f.calls():
                for a in c.args:
                    for og in f.origins(a):
                        if og[0] == 'param' and og[1] == 0:
                            used |= set(og[2])
            missing = [g for g in graphs if g not in used]
            if missing:
                ok = False
                detail += '; but subgraph field(s) %s are not consulted' % missing
            else:
                detail += '; subgraph fields consulted: %s' % graphs
            # result must be false-capable only through those calls (conjunction): no constant-true shortcut
            cr = const_return(f)
            if cr[0] == 'const' and cr[1] == 'true':
                ok = False
            ctx.inst(R, 'forwards-determinism:' + o.short, ok and o.short in T['delegating'], detail, f.loc())
        else:
            # constructor restriction
            ok = False
            detail = '%s delegates to inner operators (%s) but is_deterministic()=%s does not consult them' % (o.short, sorted(virt)[0], det[:2])
            if o.short == 'TransformInputs':
                sites = callers_of(fb, 'rten::ops::transform_inputs::TransformInputsBuilder::build', crates={'rten'})
                lits_ok = bool(sites)
                nd_names = set()
                for o2 in ops:
                    if o2.get('is_deterministic') != ('bool', True):
                        nd_names.add(name_literal(fb, o2))
                for f, c in sites:
                    gs = guards_call(f, c.bb, 're:slice::<impl \\[T\\]>::contains$', True)
                    names = set()
                    for g, cc in gs:
                        for og in f.origins(cc.args[0]):
                            if og[0] == 'const' and og[1].startswith('promoted['):
                                names |= set(x.strip().strip('"') for x in og[1][9:-1].split(','))
                        # the tested value must be the wrapped operator's name
                        if not has_origin_call(f.origins(cc.args[1]), 're:Operator::name$'):
                            names = set()
                    site_ok = f.path.startswith('<rten::optimize::fusions::TransposeFusion') and bool(names) and not (names & nd_names) and None not in nd_names
                    lits_ok &= site_ok
                    ctx.inst(R, 'transform-inputs-site:' + f.path, site_ok,
                             'TransformInputsBuilder::build only under name-allowlist %s, disjoint from non-deterministic operator names %s' % (sorted(names), sorted(x or '?' for x in nd_names)), c.loc())
                aggs = [a for a in aggregates_of(fb, 'rten::ops::transform_inputs::TransformInputs') if a[0].o.get('trait') != 'core::clone::Clone']
                only_build = all(a[0].path == 'rten::ops::transform_inputs::TransformInputsBuilder::build' for a in aggs)
                ok = lits_ok and only_build and bool(aggs)
                detail = 'TransformInputs is built only by TransformInputsBuilder::build (%s), called only under the deterministic-name allowlist (%s)' % (only_build, lits_ok)
            ctx.inst(R, 'constructor-restricted:' + o.short, ok and o.short in T['delegating'], detail, fb.fn(o.path('run')).loc())

    # ---- prune gate
    R = 'C04.prune-gate'
    pp = fb.fn("rten::graph::planner::Planner::<'a>::prune_plan")
    if ctx.anchor(R, 'fn Planner::prune_plan', pp is not None and pp.has_mir()):
        pushes = [c for c in pp.calls() if call_is(c, ('re:Vec::<T, A>::push$', 're:ResolvedValueSet(::<.*>)?::extend$', 're:Extend<.*>>::extend$'))]
        keep = []
        for c in pushes:
            dt = pp.local_ty(op_local(c.args[0])) if op_local(c.args[0]) is not None else ''
            keep.append(c)
        n = 0
        for c in keep:
            # only the collections that decide what is evaluated / resolved: pruned_plan, resolved_values, candidate_outputs
            tgt = None
            op = c.args[0]
            for _ in range(6):
                l = op_local(op)
                d = pp.def_of_local(l) if l is not None else None
                if d is None or d[2] != 'rv':
                    break
                rv = d[3]
                if rv[0] in ('ref', 'raw'):
                    tgt = pp.names.get(str(rv[2][0]))
                    if tgt is None and len(rv[2]) == 2 and rv[2][1] == '*':
                        op = ['c', [rv[2][0]]]
                        continue
                    break
                if rv[0] == 'use':
                    op = rv[1]
                    continue
                break
            if tgt not in ('pruned_plan', 'resolved_values'):
                continue
            if not pp.in_loop(c.bb):
                continue
            n += 1
            g = guards_call(pp, c.bb, 're:Operator::is_deterministic$', True)
            ctx.inst(R, 'guarded:' + str(tgt), bool(g), '%s.%s inside the plan loop is dominated by a positive is_deterministic() guard' % (tgt, c.callee.split('::')[-1]), c.loc())
        ctx.floor(R, 'evaluation-deciding updates in prune_plan', n, 2)
        # an operator whose subgraphs capture values from an *outer* graph (names that are not nodes of this graph) has
        # dependencies operator_dependencies() cannot list; partial evaluation has no capture environment, so such an
        # operator must be pruned, not kept
        kept = [c for c in pp.calls() if call_is(c, 're:Vec::<T, A>::push$') and pp.in_loop(c.bb) and guards_call(pp, c.bb, 're:Operator::is_deterministic$', True)]
        okc = bool(kept) and all(guards_call(pp, c.bb, 're:Graph::has_outer_captures$', False) for c in kept)
        if not okc and kept:
            # `let avail = !has_outer && deps.all(..); let prune = !det || !avail;` - the availability flag is the constant
            # false on the true edge of has_outer_captures, and the keep decision is the negation of a flag computed from it
            hcs = [c for c in pp.calls() if (c.callee or '').endswith('Graph::has_outer_captures') and pp.in_loop(c.bb)]
            flags = set()
            for hc in hcs:
                t = pp.bbs[hc.target]['t'] if hc.target is not None else None
                if not t or t[0] != 'sw' or pp.resolve_copy(t[1])[0] != 'call':
                    continue
                true_targets = [tb for v, tb in t[2] if int(v) != 0] + ([t[3]] if all(int(v) == 0 for v, tb in t[2]) else [])
                for tb in true_targets:
                    for st in pp.bbs[tb]['s']:
                        if st[0] == '=' and st[2][0] == 'use' and st[2][1][0] == 'k' and str(st[2][1][1]) == 'false' and len(st[1]) == 1:
                            flags.add(st[1][0])
            def decided_by_flag(bb):
                for g in pp.guards(bb):
                    cd = g.cond()
                    if cd[0] == 'place' and g.truth() is False and len(cd[1]) == 1:
                        for d in pp.defs().get(cd[1][0], []):
                            if d[2] == 'rv' and d[3][0] == 'un' and d[3][1] == 'Not' and (pp.resolve_copy(d[3][2])[0] in ('rv', 'place', 'call') or True):
                                src = op_local(d[3][2])
                                # follow one copy
                                while src is not None and src not in flags:
                                    dd = pp.defs().get(src, [])
                                    if len(dd) == 1 and dd[0][2] == 'rv' and dd[0][3][0] == 'use' and op_local(dd[0][3][1]) is not None:
                                        src = op_local(dd[0][3][1])
                                    else:
                                        break
                                if src in flags:
                                    return True
                return False
            okc = bool(flags) and all(decided_by_flag(c.bb) for c in kept)
        ctx.inst(R, 'outer-captures-pruned', okc, 'an operator is kept only under !graph.has_outer_captures(op)' if okc else
                 'prune_plan can keep an operator whose subgraphs capture values from an outer graph: those values are unavailable in partial evaluation, so constant propagation inside a subgraph runs a nested If / Loop without its captured inputs (panic at model load)', pp.loc())
    # ---- leaves: a pruned operator's already-resolved inputs must be returned by partial_run
    R = 'C04.leaves'
    if pp is not None and pp.has_mir():
        main = None
        for h, body in pp.loops():
            if any(c.bb in body for c in pp.calls() if call_is(c, 're:Operator::is_deterministic$')):
                if main is None or len(body) > len(main[1]):
                    main = (h, body)
        def is_leaf_set(c):
            nm = (pp.names or {}).get(str(receiver_local(pp, c.args[0])), '')
            return 'pruned' in nm or 'resolved_inputs' in nm or 'leaves' in nm
        ins = [c for c in pp.calls() if call_is(c, 're:HashSet::<T, S, A>::insert$|HashSet::<T, S>::insert$') and pp.in_loop(c.bb) and is_leaf_set(c)]
        ext = [c for c in pp.calls() if call_is(c, 're:HashSet<T, S, A> as core::iter::traits::collect::Extend<.*>>::extend$|HashSet::<T, S, A>::extend$') and main and c.bb in main[1] and is_leaf_set(c)]
        push = [c for c in pp.calls() if call_is(c, 're:Vec::<T, A>::push$') and main and c.bb in main[1]]
        if ctx.anchor(R, 'prune_plan main loop with is_deterministic, leaf-set insert/extend and pruned_plan.push', bool(main and (ins or ext) and push)):
            H, body = main
            # header of the inner loop (or the block of the extend call) that records resolved inputs of a pruned operator
            inner = [h2 for h2, b2 in pp.loops() if h2 != H and any(c.bb in b2 for c in ins) and b2 < body] + [c.bb for c in ext]
            # the recorded values come from the same dependency relation the availability test uses (explicit inputs AND
            # subgraph captures), not from the operator's explicit input list alone
            import C17 as _c17
            rec_ok = True
            for c in ins:
                og = _c17.iter_source_origins(fb, pp, op_local(c.args[1]))
                if not any(o[0] == 'call' and (o[1] or '').endswith('Graph::operator_dependencies') for o in og):
                    rec_ok = False
            for c in ext:
                og = pp.origins(c.args[1])
                if not any(o[0] == 'call' and (o[1] or '').endswith('Graph::operator_dependencies') for o in og):
                    rec_ok = False
            ctx.inst(R, 'recorded-from-dependency-relation', rec_ok, 'the leaves recorded for a pruned operator are drawn from Graph::operator_dependencies (inputs and subgraph captures)' if rec_ok else
                     'the leaves recorded for a pruned operator are not drawn from Graph::operator_dependencies: values reached only through a subgraph capture are dropped from partial_run\'s result', pp.loc())
            # entry blocks of the region where the plan element is known to be an operator node
            region = set()
            for b in body:
                for g, hd, vs, place in guards_variant(pp, b, fb):
                    if vs and 'Operator' in vs and len(vs) == 1:
                        region.add(b)
            entries = [b for b in region if not any(p_ in region for p_ in pp.pred()[b])]
            ok = bool(inner) and bool(entries)
            bad_from = None
            for e in entries:
                r = pp.reach_from(e, avoid=set(inner) | {c.bb for c in push})
                # reaching the main header again = an operator was skipped without recording its resolved inputs
                if H in r:
                    ok = False
                    bad_from = e
            ctx.inst(R, 'pruned-op-inputs-recorded', ok,
                     'every path that handles an operator node reaches the next iteration only through pruned_plan.push or the loop that records its resolved inputs as leaves'
                     + ('' if ok else ' - VIOLATED from bb%s: an operator can be skipped without recording its available inputs, so partial_run no longer returns them' % bad_from), pp.loc())
            fl = [fb.fn(p) for p in fb.closures_of(pp.path)]
            used = any(call_is(c, 're:HashSet::<T, S, A>::contains$|HashSet::<T, S>::contains$') for f2 in fl for c in f2.calls())
            # the candidate list starts as the supplied inputs; operator outputs appended in the loop must not repeat one of
            # them (an input supplied for one output of a multi-output operator that is kept), else partial_run returns the
            # value twice / run_plan removes it twice ("missing output value")
            cand = [c for c in pp.calls() if c.bb in body and call_is(c, 're:Vec<T, A> as core::iter::traits::collect::Extend<.*>>::extend$|Vec::<T, A>::extend$|Vec::<T, A>::push$')
                    and 'candidate' in (pp.names or {}).get(str(receiver_local(pp, c.args[0])), '')]
            uniq = bool(cand)
            for c in cand:
                chain_ok = False
                cur = c.args[1]
                for _ in range(6):
                    r = pp.resolve_copy(cur)
                    if r[0] != 'call':
                        break
                    if re.search(r'Iterator::filter$', r[1].callee or ''):
                        cty = pp.local_ty(op_local(r[1].args[1]) or 0)
                        for f2 in fl_all(fb, pp):
                            if (':%d:' % f2.line) in cty and any(re.search(r'::contains$', x.callee or '') for x in f2.calls()):
                                chain_ok = True
                    if not r[1].args:
                        break
                    cur = r[1].args[0]
                uniq = uniq and chain_ok
            dedup = any(call_is(c, 're:Vec::<T, A>::dedup$|Itertools::unique$') for c in pp.calls())
            ctx.inst(R, 'candidate-outputs-unique', uniq or dedup, 'operator outputs are appended to the candidate list only if they are not supplied inputs (which the list starts with)' if uniq or dedup else
                     'operator outputs are appended to the candidate list without excluding supplied inputs: a value supplied for one output of a kept multi-output operator is listed twice', cand[0].loc() if cand else pp.loc())
            ctx.inst(R, 'leaf-set-consulted', used, 'the returned output list is filtered by membership in the recorded leaf set', pp.loc())

    # ---- single door
    R = 'C04.single-door'
    callers = callers_of(fb, "rten::graph::planner::Planner::<'a>::prune_plan", crates={'rten'})
    ctx.floor(R, 'prune_plan callers', len(callers), 1)
    for f, c in callers:
        ctx.inst(R, 'prune_plan-caller:' + f.path, f.path == 'rten::graph::Graph::partial_run', 'prune_plan called from %s (only Graph::partial_run may)' % f.path, c.loc())
    pc = fb.fn('rten::optimize::GraphOptimizer::propagate_constants')
    if ctx.anchor(R, 'fn GraphOptimizer::propagate_constants', pc is not None and pc.has_mir()):
        fns = [fb.fn(p) for p in fb.with_closures(pc.path)]
        evals = [c for f in fns for c in f.calls() if call_is(c, ('re:^rten::graph::Graph::(run|partial_run|run_subgraph|run_plan)$', 're:Operator::run(_in_place)?$'))]
        ctx.inst(R, 'const-prop-uses-partial_run', bool(evals) and all(call_is(c, 're:^rten::graph::Graph::partial_run$') for c in evals),
                 'constant propagation evaluates operators only through Graph::partial_run (%s)' % sorted(set(c.callee for c in evals)), pc.loc())
