"""C17 Quantized integer kernels are exact (structural clauses)."""
import re
from rulelib import *
from rulelib import _rv_operands
from facts import op_int, op_local, op_place, Guard
import C02
import C16

EXPLANATION = (
    "Decides the structural clauses of int8 exactness for every path, not the arithmetic: (saturate) for every impl of "
    "Kernel<u8,i8,i32> compiled on this host, if the monomorphic reachability set of kernel/gemv_kernel contains a saturating "
    "intermediate instruction (pmaddubsw family) then may_saturate is overridden and is not constant false; a field-dependent "
    "summary (`self.vnni_dot.is_none()`) is accepted only if every call site in kernel/gemv_kernel through which such an "
    "instruction is reached lies on the None side of the same field; GemmExecutor::may_saturate returns the kernel's answer and "
    "the operator layer (shift_cast_gemm_lhs_to_u8, used by MatMulInteger and ConvInteger before every int8 GEMM) branches on it; "
    "(zp-index) every read of a per-row/per-column zero point in the int8 packing code and in gemm_block/gemv is indexed by an "
    "expression that depends on the panel/tile index times MR/NR (or a range starting there): panel p uses the zero points of "
    "its own rows/columns; (accumulate) in every int8 kernel function the accumulate/beta flag only selects whether the previous "
    "output value is added: every value assigned under a beta guard and live outside it derives from an output read (or is the "
    "zero that replaces it), so the zero-point correction terms (k*za*zb, row/column sums) are applied on every depth block. "
    "Exactness of the i32 arithmetic itself, the reduced-range claim and dynamic quantisation error are numerical and not decided. (accumulator-width) no scalar add / sub / mul on an integer type narrower than 32 bits in the int8 packing and kernel functions, with the count of i32 arithmetic seen there as positive control.")
ASSUMPTIONS = ["pmaddubsw-family intrinsics are the only saturating intermediates of the x86 int8 kernels (enumerated by name: maddubs)",
               "non-x86 kernels (Arm dot-product/i8mm, wasm) are not compiled on this host and are not analysed"]

SAT = re.compile(r'core::core_arch::.*(maddubs|pmaddubsw)')
K_TRAIT = 'rten_gemm::kernels::Kernel'


def run(ctx):
    fb = ctx.fb()
    saturate(ctx, fb)
    forward_consumer(ctx, fb)
    zp_index(ctx, fb)
    accumulate_only(ctx, fb, 'C17.accumulate', lambda f: is_int8_fn(f))
    quant_params_used(ctx, fb)
    im2col_padding(ctx, fb)
    depth_block(ctx, fb)
    accumulator_width(ctx, fb)


def is_int8_fn(f):
    return bool(re.search(r'int8|Kernel<u8, i8, i32>', f.path)) and f.path.startswith(('rten_gemm::kernels', '<rten_gemm::kernels'))


# ---------------------------------------------------------------------------------------------------------------
def saturate(ctx, fb):
    R = 'C17.saturate'
    n = 0
    for imp in fb.impls(trait=K_TRAIT):
        if 'u8, i8, i32' not in str(imp.get('trait_args', '')) and 'Kernel<u8, i8, i32>' not in str(imp.get('for', '')) + str(imp.get('path', '')) + str(imp.get('items', '')):
            continue
        items = imp['items']
        kpath = items.get('kernel', (None, None))[1]
        gpath = items.get('gemv_kernel', (None, None))[1]
        if not kpath or 'Kernel<u8, i8, i32>' not in kpath:
            continue
        n += 1
        name = re.sub(r'^<|rten_gemm::kernels::| as Kernel<u8, i8, i32>>::kernel$', '', kpath)
        sat_sites = []   # (root Fn, chain, instance strings)
        missing = []
        for rp in (kpath, gpath):
            if not rp:
                continue
            root = '<' + rp.replace('>::', '>>::', 1) if not rp.startswith('<<') else rp
            R_ = None
            for cand in (root, rp):
                try:
                    R_ = fb.reach(cand)
                except Exception:
                    R_ = None
                if R_ is not None:
                    break
            if R_ is None:
                missing.append(rp)
                continue
            for i in R_.find(lambda p: bool(SAT.search(p))):
                insts = []
                j = i
                while j >= 0:
                    nd = R_.nodes[j]
                    insts.append(R_._s[nd[1]])
                    j = nd[2]
                sat_sites.append((fb.fn(rp), R_.chain(i), list(reversed(insts))))
        if missing:
            ctx.inst(R, 'reach:' + name, False, 'no monomorphic reachability set for %s: cannot decide' % missing[0], '')
            continue
        ms = items.get('may_saturate', (None, None))[1]
        mf = fb.fn(ms) if ms else None
        summ = const_return(mf) if mf is not None else ('const', 'default:false')
        loc = mf.loc() if mf is not None else (fb.fn(kpath).loc() if fb.fn(kpath) else '')
        if not sat_sites:
            ctx.inst(R, 'kernel:' + name, True, 'no saturating intermediate instruction reachable from kernel/gemv_kernel (may_saturate = %s)' % (summ[1],), loc)
            continue
        via = ' -> '.join(x.split('::')[-1] for x in sat_sites[0][1][-3:])
        if summ[0] == 'const':
            ok = summ[1] in ('true', 'const true') or str(summ[1]).endswith('true')
            ctx.inst(R, 'kernel:' + name, ok, ('reaches %s and reports may_saturate = true' % via) if ok else
                     'reaches the saturating %s but may_saturate() is %s: callers would feed full-range inputs and get wrong sums' % (via, summ[1]), loc)
            continue
        # field-dependent summary: `self.F.is_none()`
        fld = field_is_none(mf)
        if fld is None:
            ctx.inst(R, 'kernel:' + name, False, 'reaches the saturating %s and may_saturate() is neither constant true nor `self.<field>.is_none()` (%s)' % (via, summ[1]), loc)
            continue
        bad = None
        for (rf, chain, insts) in sat_sites:
            sites = first_hop_calls(rf, chain, insts)
            if not sites:
                bad = 'cannot locate the call in %s through which %s is reached' % (rf.path.split('::')[-1], via)
                break
            for c in sites:
                if not on_none_side(rf, c.bb, fld):
                    bad = 'the call %s at %s reaches the saturating %s but is not on the `%s == None` side, while may_saturate() is `self.%s.is_none()`' % (
                        (c.callee or '').split('::')[-1], c.loc(), via, fld, fld)
                    break
            if bad:
                break
        ctx.inst(R, 'kernel:' + name, bad is None, bad or 'saturating %s only reached on the `%s == None` side; may_saturate() = self.%s.is_none()' % (via, fld, fld), loc)
    ctx.floor(R, 'impls of Kernel<u8,i8,i32>', n, 3)


def field_is_none(mf):
    """name of field F if the body is `self.F.is_none()`"""
    ds = mf.defs().get(0, [])
    if len(ds) != 1 or ds[0][2] != 'call':
        return None
    c = ds[0][3]
    if not re.search(r'Option::<T>::is_none$', c.callee or ''):
        return None
    for o in mf.origins(c.args[0]):
        if o[0] == 'param' and o[1] == 0 and len(o) > 2 and o[2]:
            return str(o[2][0])
    return None


def first_hop_calls(rf, chain, insts):
    """calls in the root function whose callee is chain[1] with matching generic instance"""
    if len(chain) < 2:
        return []
    out = []
    tgt = chain[1]
    inst = insts[1] if len(insts) > 1 else ''
    for c in rf.calls():
        r = c.info.get('r') or c.callee
        if r != tgt and c.callee != tgt:
            continue
        ga = c.info.get('ga') or ''
        if isinstance(ga, list):
            ga = '[' + ', '.join(str(g) for g in ga) + ']'
        ga = ga.strip()[1:-1] if ga.startswith('[') else ga
        if ga:
            want = re.sub(r'(\d)_(usize|isize|u\d+|i\d+)\b', r'\1', ga)
            want = want.replace('const ', '')
            if ('<' + want + '>') not in inst.replace('const ', ''):
                continue
        out.append(c)
    return out


def on_none_side(f, bb, fld):
    for g in f.guards(bb):
        c = g.cond()
        if c[0] == 'disc':
            pl = c[1]
            names = [str(e[2]) for e in pl[1:] if isinstance(e, list) and e[0] == 'f']
            if fld in names and pl[0] == 1:
                # Option: None = 0, Some = 1
                if g.vals is not None and g.vals == [0]:
                    return True
                if g.vals is None and g.excluded == [1]:
                    return True
    return False


# ---------------------------------------------------------------------------------------------------------------
def forward_consumer(ctx, fb):
    R = 'C17.forward'
    f = fb.fn('rten_gemm::GemmExecutor::<LhsT, RhsT, OutT>::may_saturate')
    ok = False
    if f is not None and f.has_mir():
        ds = f.defs().get(0, [])
        ok = len(ds) == 1 and ds[0][2] == 'call' and (ds[0][3].callee or '').endswith('Kernel::may_saturate')
    ctx.inst(R, 'executor', ok, 'GemmExecutor::may_saturate returns the selected kernel\'s may_saturate()', f.loc() if f else '')
    g = fb.fn('rten::ops::matmul::shift_cast_gemm_lhs_to_u8')
    ok = False
    why = 'shift_cast_gemm_lhs_to_u8 not found'
    if g is not None and g.has_mir():
        ms = [c for c in g.calls() if (c.callee or '').endswith('GemmExecutor::<LhsT, RhsT, OutT>::may_saturate')]
        # the full-range sign-flip cast must not be reachable when may_saturate() returned true for i8 input
        flips = [c for c in g.calls() if re.search(r'ShiftCast<.*>>::shift_cast(_in)?$|::shift_cast(_in)?$', c.callee or '')]
        guarded = [c for c in g.calls() if guards_call(g, c.bb, 're:GemmExecutor::<LhsT, RhsT, OutT>::may_saturate$', truth=True)]
        rets = [c for c in guarded if re.search(r'map_in$|::map$|collect$|into_cow$', c.callee or '')]
        ok = bool(ms) and bool(rets) and bool(flips)
        # the executor asked is the u8 x i8 -> i32 one
        ga_ok = any('u8' in str(c.info.get('ga')) and 'i8' in str(c.info.get('ga')) for c in ms) or any('GemmExecutor<u8, i8, i32>' in g.local_ty(op_local(c.args[0]) or 0) for c in ms)
        ok = ok and ga_ok
        why = 'the i8 -> u8 LHS conversion consults GemmExecutor::<u8,i8,i32>::may_saturate() and uses the minimal shift when it is true' if ok else \
            'shift_cast_gemm_lhs_to_u8 no longer branches on GemmExecutor::<u8,i8,i32>::may_saturate() (calls=%d guarded=%d)' % (len(ms), len(rets))
    ctx.inst(R, 'consumer:shift_cast_gemm_lhs_to_u8', ok, why, g.loc() if g else '')
    # the operators obtain their u8 LHS through it
    for p, arg in (('rten::ops::matmul::matmul_integer', 'a'), ('rten::ops::conv::conv_integer', 'kernel')):
        h = fb.fn(p)
        ok = h is not None and h.has_mir() and any((c.callee or '').endswith('shift_cast_gemm_lhs_to_u8') for c in h.calls())
        ctx.inst(R, 'uses-consumer:' + p.split('::')[-1], ok, '%s converts its LHS through shift_cast_gemm_lhs_to_u8' % p.split('::')[-1], h.loc() if h else '')


# ---------------------------------------------------------------------------------------------------------------
def iter_source_origins(fb, f, local, depth=10):
    """origins of a loop variable: walk `next` receivers / iterator adaptors back to the iterated expression"""
    og = set()
    seen = set()
    work = [local]
    while work and depth > 0:
        l = work.pop()
        if l in seen:
            continue
        seen.add(l)
        depth -= 0
        o1, _ = outer_origins(fb, f, ['c', [l]])
        og |= set(o1) | set(f.origins(['c', [l]]))
        for dd in f.defs().get(l, []):
            if dd[2] == 'call':
                c = dd[3]
                if re.search(r'::next$|::into_iter$|::enumerate$|::rev$|::zip$|::by_ref$|::clone$|::skip$|::take$|::iter$', c.callee or ''):
                    for a in c.args:
                        if op_place(a):
                            work.append(op_place(a)[0])
            else:
                for o in _rv_operands(dd[3]):
                    if op_place(o):
                        work.append(op_place(o)[0])
    return og


def panel_scaled(og):
    """the index origins contain a multiplication and a panel-size constant / kernel tile size"""
    has_mul = any(o[0] == 'binop' and o[1].startswith('Mul') for o in og)
    has_size = any((o[0] == 'const' and o[1] in ('MR', 'NR')) or (o[0] == 'named_const') or
                   (o[0] == 'call' and re.search(r'Kernel::(mr|nr)$', o[1] or '')) for o in og)
    has_var = any(o[0] in ('param', 'upvar') or (o[0] == 'call' and (o[1] or '').endswith('::next')) for o in og)
    return has_mul and (has_size or has_var)


def zp_index(ctx, fb):
    R = 'C17.zp-index'
    n = 0
    cnt = {}
    for f in fb.fns(crate='rten_gemm'):
        if not f.has_mir():
            continue
        if not re.search(r'packing::int8::pack_[ab]_impl|rten_gemm::gemm_block|rten_gemm::gemv', f.path):
            continue
        # reads zp[i] where zp is a zero-point slice
        for i, b in enumerate(f.bbs):
            if b.get('c') or i not in f.live():
                continue
            for s in b['s']:
                if s[0] != '=':
                    continue
                for o in _rv_operands(s[2]):
                    pl = op_place(o)
                    if not pl:
                        continue
                    for e in pl[1:]:
                        if isinstance(e, list) and e[0] == 'i' and re.search(r'^&\[(i8|u8)\]', f.local_ty(pl[0])) and is_zero_point(fb, f, pl[0]):
                            n += 1
                            og = iter_source_origins(fb, f, e[1])
                            short = f.path.replace('rten_gemm::', '')[-50:]
                            cnt[short] = cnt.get(short, 0) + 1
                            ok = panel_scaled(og)
                            ctx.inst(R, 'index:%s#%d' % (short, cnt[short]), ok, 'zero-point index depends on panel index * panel size' if ok else
                                     'a zero point is read at an index that does not depend on the panel index: every panel would use the zero points of panel 0', '%s:%s' % (f.file, s[3] if len(s) > 3 else ''))
        # sub-slices zero_point[range] for a tile
        for c in f.calls():
            if re.search(r'Index<.*>>::index$|::index$', c.callee or '') and len(c.args) == 2 and is_zero_point(fb, f, op_local(c.args[0])) and 'Range' in f.local_ty(op_local(c.args[1]) or 0):
                n += 1
                og = iter_source_origins(fb, f, op_local(c.args[1]))
                short = f.path.replace('rten_gemm::', '')[-50:]
                cnt[short] = cnt.get(short, 0) + 1
                ok = panel_scaled(og)
                ctx.inst(R, 'slice:%s#%d' % (short, cnt[short]), ok, 'zero-point sub-slice of a tile starts at tile index * tile size' if ok else
                         'the zero-point range of a tile does not depend on the tile index', c.loc())
    ctx.floor(R, 'zero-point reads in packing / gemm_block', n, 6)


def is_zero_point(fb, f, local):
    if local is None:
        return False
    og, of = outer_origins(fb, f, ['c', [local]])
    for ff, oo in ((of, og), (f, f.origins(['c', [local]]))):
        for o in oo:
            if o[0] == 'param':
                nm = (ff.names or {}).get(str(o[1] + 1), '')
                if 'zero_point' in nm or nm in ('zp', 'a_quant', 'b_quant', 'aq', 'bq'):
                    return True
                if len(o) > 2 and any('zero_point' in str(x) for x in o[2]):
                    return True
    return False


# ---------------------------------------------------------------------------------------------------------------
def flip(g):
    t = g.truth()
    if t is None:
        return None
    return Guard(g.fn, g.bb, g.discr, [0] if t else [1], None, g.line)


def beta_sense(fb, gf, g):
    """True: beta != 0 side; False: beta == 0 side; None: not a beta guard"""
    if C16.nonzero_beta_guard(fb, gf, g):
        return True
    fg = flip(g)
    if fg is not None and C16.nonzero_beta_guard(fb, gf, fg):
        return False
    return None


def derives_from_output(fb, f, op, depth=7, _seen=None):
    """the value depends (through any operand / call argument) on a read of the output"""
    if _seen is None:
        _seen = set()
    if C16.output_read_derived(fb, f, op):
        return True
    pl = op_place(op)
    if pl is None or depth <= 0:
        return False
    if '*' in pl and f.local_ty(pl[0]).startswith('*mut'):
        return True
    l = pl[0]
    if l in _seen:
        return False
    _seen.add(l)
    for dd in f.defs().get(l, []):
        if dd[2] == 'call':
            c = dd[3]
            cal = c.callee or ''
            if C16.ASSUME.search(cal):
                return True
            if C16.LOADS.search(cal) and C16.from_mut_ptr(fb, f, c.args[1] if 'load_ptr' in cal else c.args[0]):
                return True
            for a in c.args:
                if derives_from_output(fb, f, a, depth - 1, _seen):
                    return True
        else:
            for o in _rv_operands(dd[3]):
                if derives_from_output(fb, f, o, depth - 1, _seen):
                    return True
            rv = dd[3]
            if rv[0] == 'use' and op_place(rv[1]) and '*' in op_place(rv[1]) and f.local_ty(op_place(rv[1])[0]).startswith('*mut'):
                return True
    return False


def uses_of(f):
    """local -> set of blocks where it is read"""
    if getattr(f, '_uses', None) is not None:
        return f._uses
    u = {}

    def note(o, bb):
        pl = op_place(o) if o is not None else None
        if pl:
            u.setdefault(pl[0], set()).add(bb)
            for e in pl[1:]:
                if isinstance(e, list) and e[0] == 'i':
                    u.setdefault(e[1], set()).add(bb)
    for i, b in enumerate(f.bbs):
        if b.get('c') or i not in f.live():
            continue
        for s in b['s']:
            if s[0] == '=':
                for o in _rv_operands(s[2]):
                    note(o, i)
                rv = s[2]
                if rv[0] in ('ref', 'raw'):
                    note(['c', rv[2]], i)
                if rv[0] == 'disc':
                    note(['c', rv[1]], i)
                if len(s[1]) > 1:
                    # writing through a projection uses the base (and index locals)
                    for e in s[1][1:]:
                        if isinstance(e, list) and e[0] == 'i':
                            u.setdefault(e[1], set()).add(i)
        t = b['t']
        if t[0] == 'sw':
            note(t[1], i)
    for c in f.calls():
        for a in c.args:
            note(a, c.bb)
    f._uses = u
    return u


def accumulate_only(ctx, fb, R, pred, label='int8 kernel functions with an accumulate/beta test', floor=5):
    n = 0
    nsites = 0
    for f in fb.fns(crate='rten_gemm'):
        if not f.has_mir() or not pred(f):
            continue
        # blocks under a beta guard (either sense)
        region = {}
        for i, b in enumerate(f.bbs):
            if b.get('c') or i not in f.live():
                continue
            for g in f.guards(i):
                sns = beta_sense(fb, f, g)
                if sns is not None:
                    region[i] = (g.bb, sns)
        if not region:
            continue
        n += 1
        uses = uses_of(f)
        short = re.sub(r'<|>| as kernels::Kernel', '', f.path.replace('rten_gemm::', ''))[-60:]
        # definitions inside the region
        defs_in = {}
        for i in region:
            for s in f.bbs[i]['s']:
                if s[0] == '=':
                    defs_in.setdefault(s[1][0], []).append((i, 'rv', s))
        for c in f.calls():
            if c.bb in region and c.dest:
                defs_in.setdefault(c.dest[0], []).append((c.bb, 'call', c))
        bad = []
        for l, ds in sorted(defs_in.items()):
            # region-local temporaries: every definition and every use inside the region of the same guard & side
            sides = set(region[bb] for (bb, _, _) in ds)
            all_defs = f.defs().get(l, [])
            outside_def = any(dd[0] not in region for dd in all_defs) or (1 <= l <= f.argc)
            outside_use = any(ub not in region for ub in uses.get(l, ()))
            cross = len(sides) > 1
            if not outside_def and not outside_use and not cross:
                continue
            if l == 0:
                continue
            ty = f.local_ty(l)
            if ty in ('()', '!') or ty.startswith(('core::ops::Range', 'core::option::Option<usize>', 'core::iter')):
                continue
            # live-out variable: some definition in the region must derive from an output read and the rest be zero
            nsites += 1
            der = False
            other = []
            for (bb, k, d) in ds:
                if k == 'call':
                    c = d
                    cal = c.callee or ''
                    if C16.ASSUME.search(cal) or (C16.LOADS.search(cal)) or any(derives_from_output(fb, f, a) for a in c.args):
                        der = True
                    elif re.search(r'::(store_ptr(_mask)?|write|write_unchecked|store|next|into_iter|len|add|as_ptr|as_mut_ptr|get_unchecked_mut|get_unchecked|index_mut|index|deref_mut|deref|from_residual|branch)$|closure', cal):
                        continue
                    else:
                        other.append((bb, cal.split('::')[-1], c.loc()))
                else:
                    s = d
                    rv = s[2]
                    if len(s[1]) > 1 and '*' in s[1] and f.local_ty(s[1][0]).startswith(('*mut', '&mut')) and rv[0] == 'use':
                        # a store through the output pointer
                        continue
                    if any(derives_from_output(fb, f, o) for o in _rv_operands(rv)):
                        der = True
                    elif rv[0] == 'use' and C16.is_zero_only(f, rv[1]):
                        continue
                    elif rv[0] in ('ref', 'raw', 'disc') or (rv[0] == 'use' and f.local_ty(l).startswith(('&', '*'))):
                        continue
                    elif rv[0] == 'agg' and not rv[4]:
                        continue
                    else:
                        other.append((bb, rv[0], '%s:%s' % (f.file, s[3] if len(s) > 3 else '')))
            if other and not all_loop_counter(f, l):
                nm = (f.names or {}).get(str(l), '_%d' % l)
                bad.append((nm, other[0][2], der))
        ok = not bad
        ctx.inst(R, 'fn:' + short, ok, 'the accumulate/beta flag only selects whether the previous output value is added' if ok else
                 'variable `%s` is assigned under a test of the accumulate/beta flag to a value that does not come from the output, and is used outside that test: the flag changes more than whether the previous output is added (e.g. a zero-point correction term is dropped)' % bad[0][0],
                 bad[0][1] if bad else f.loc())
    ctx.floor(R, label, n, floor)


def all_loop_counter(f, l):
    ty = f.local_ty(l)
    return ty in ('usize', 'core::ops::Range<usize>') and False



def quant_params_used(ctx, fb):
    """zero points may be given with the GEMM call (GemmOptions.a_quant / b_quant) or when a panel is packed; prepacked
    inputs are packed without them, so a kernel that ignores its a_quant / b_quant parameters computes with zero points of
    zero: every Kernel<u8,i8,i32>::kernel impl must read both parameters (sibling agreement with the generic kernel)"""
    R = 'C17.quant-params'
    n = 0
    for imp in fb.impls(trait=K_TRAIT):
        kp = imp['items'].get('kernel', (None, None))[1]
        if not kp or 'Kernel<u8, i8, i32>' not in kp:
            continue
        f = fb.fn(kp)
        if f is None or not f.has_mir():
            continue
        n += 1
        name = re.sub(r'^<|rten_gemm::kernels::| as Kernel<u8, i8, i32>>::kernel$', '', kp)
        names = f.names or {}
        idx = {v: int(k) for k, v in names.items() if int(k) <= f.argc}
        uses = uses_of(f)
        for pn in ('a_quant', 'b_quant'):
            cands = [l for nm, l in idx.items() if nm.lstrip('_') == pn]
            used = bool(cands) and bool(uses.get(cands[0]))
            ctx.inst(R, '%s:%s' % (name, pn), used, 'the kernel reads the zero points supplied with the call' if used else
                     'the kernel never reads its %s parameter: zero points passed with the GEMM call are ignored, so prepacked inputs (packed without zero points) are multiplied as if their zero point were 0' % pn, f.loc())
    ctx.floor(R, 'impls of Kernel<u8,i8,i32>::kernel', n, 3)


def im2col_padding(ctx, fb):
    """int8 im2col packing: an element outside the image must be written as the input zero point (so that it contributes
    nothing), and every stored element is also added to the column sum"""
    R = 'C17.im2col-padding'
    fs = [f for f in fb.fns(crate='rten_gemm') if f.has_mir() and re.search(r"im2col::Im2Col::<'_, i8>::pack_block_int8$|Im2Col::<.*i8>::pack_block_int8$", f.path)]
    if not fs:
        ctx.inst(R, 'anchor:pack_block_int8', False, 'Im2Col::<i8>::pack_block_int8 not found', '')
        return
    f = fs[0]
    names = f.names or {}
    zp = [int(k) for k, v in names.items() if v == 'zero_point' and int(k) <= f.argc]
    writes = [c for c in f.calls() if re.search(r'MaybeUninit::<T>::write$', c.callee or '') and f.in_loop(c.bb)]
    ok = bool(zp) and bool(writes)
    n_dep = 0
    for c in writes:
        og = f.origins(c.args[1])
        if any(o[0] == 'param' and o[1] == zp[0] - 1 for o in og):
            n_dep += 1
    # metadata writes (bytes of the panel meta) are in a different loop and do not carry image data: require that every
    # write whose value derives from the image data also has the zero point among its origins
    img_writes = [c for c in writes if any(o[0] == 'call' and re.search(r'get_unchecked$', o[1] or '') for o in f.origins(c.args[1]))]
    ok = ok and bool(img_writes) and all(any(o[0] == 'param' and o[1] == zp[0] - 1 for o in f.origins(c.args[1])) for c in img_writes)
    ctx.inst(R, 'padding-is-zero-point', ok, 'every packed image element is either image data or the zero_point parameter (%d store sites)' % len(img_writes) if ok else
             'an element stored by the int8 im2col packer can be a constant instead of the input zero point for positions outside the image: padded positions then contribute -zero_point * weight to every border output', f.loc())

    # sibling agreement over every int8 kernel: pack_im2col must read its zero_point parameter (the generic kernel used to
    # ignore it and pad with 0) and hand it to the packer
    nk = 0
    for g in fb.fns(crate='rten_gemm'):
        if not g.has_mir() or not re.search(r' as rten_gemm::kernels::Kernel<u8, i8, i32>>::pack_im2col$', g.path):
            continue
        nk += 1
        zl = [int(k) for k, v in (g.names or {}).items() if v in ('zero_point', '_zero_point') and 1 <= int(k) <= g.argc]
        used = False
        for b in g.bbs:
            if b.get('c'):
                continue
            for st in b['s']:
                if st[0] == '=' and any(op_local(o) in zl for o in _rv_operands(st[2])):
                    used = True
            t = b['t']
            if t[0] == 'call' and any(op_local(a) in zl for a in t[2]):
                used = True
        m = re.search(r'kernels::(\w+)::(\w+) as', g.path)
        ctx.inst(R, 'zero-point-used:' + (m.group(2) if m else g.path[-40:]), used and bool(zl),
                 'pack_im2col passes its zero_point on to the packer' if used else
                 'pack_im2col ignores its zero_point parameter: the padding region of a quantized image is packed as 0 instead of the zero point, so padded ConvInteger outputs are wrong on this kernel', g.loc())
    ctx.floor(R, 'int8 Kernel::pack_im2col impls', nk, 3)


def depth_block(ctx, fb):
    """the int8 packers and kernels consume K in tiles of 4 and the im2col packer pads a partial K tile only at the *end*
    of the whole depth range (rows beyond n_rows): every depth block except the last must therefore be a multiple of the
    K tile.  depth_block_size() guarantees this in one of two ways, checked on every value that can reach its return:
    the value is a min / max composition of the parameters and the constant `1024 / size_of::<RhsT>()` (a non-final block
    is then that constant), or it passed through next_multiple_of(..).  Any other arithmetic on the depth (e.g. splitting
    it into equal blocks) can make a non-final block end inside a K tile, which corrupts the column sums used for
    zero-point correction."""
    R = 'C17.depth-block'
    f = fb.fn('rten_gemm::depth_block_size')
    if not ctx.anchor(R, 'rten_gemm::depth_block_size', f is not None and f.has_mir()):
        return
    bad = []

    def ok_value(op, depth=8, seen=None):
        seen = seen if seen is not None else set()
        if op is None or depth <= 0:
            return False
        if op[0] == 'k':
            return True
        l = op_local(op)
        if l is None or l in seen:
            return l in seen
        seen.add(l)
        if 1 <= l <= f.argc:
            return True
        ds = f.defs().get(l, [])
        if not ds:
            return False
        for d in ds:
            if d[2] == 'call':
                cal = d[3].callee or ''
                if re.search(r'next_multiple_of$', cal):
                    continue
                if re.search(r'Ord::(min|max)$|::(min|max)$|Option::<T>::unwrap_or$|core::mem::size_of$', cal):
                    if all(ok_value(a, depth - 1, seen) for a in d[3].args):
                        continue
                bad.append('call %s' % cal.split('::')[-1])
                return False
            rv = d[3]
            if rv[0] == 'use':
                if not ok_value(rv[1], depth - 1, seen):
                    return False
            elif rv[0] == 'bin' and rv[1].startswith('Div') and rv[2][0] == 'k':
                # the constant block size: literal / size_of::<RhsT>()
                if not ok_value(rv[3], depth - 1, seen):
                    return False
            elif rv[0] in ('agg', 'disc', 'cast'):
                if not all(ok_value(o, depth - 1, seen) for o in _rv_operands(rv)):
                    return False
            else:
                bad.append('%s %s' % (rv[0], rv[1] if len(rv) > 1 else ''))
                return False
        return True
    ok = ok_value(['c', [0]])
    ctx.inst(R, 'non-final-blocks-tile-aligned', ok, 'the depth block size is min/max of the depth, the constant 1024 / size_of and the minimum size (or rounded with next_multiple_of): non-final blocks are multiples of the K tile' if ok else
             'the depth block size is computed with %s: a non-final depth block need not be a multiple of the int8 K tile (4), and the im2col packer then gathers rows of the next block into the padding of a partial tile (wrong column sums, every ConvInteger output off by zero_point * spurious elements)' % (', '.join(sorted(set(bad))) or 'unrecognised arithmetic'), f.loc())


# ---------------------------------------------------------------------------------------------------------------
def accumulator_width(ctx, fb):
    """'Integer GEMM is exact in i32': the row / column sums of the packed operands and the scalar accumulators of the int8
    kernels add up to K (<= depth block 1024) products or elements of magnitude up to 255 * 128, so any scalar
    accumulation in a type narrower than 32 bits wraps (release) or panics (debug) for bright rows.  Zero-expected rule
    over the int8 packing and kernel functions; the count of i32 arithmetic seen is the positive control."""
    R = 'C17.accumulator-width'
    wide = 0
    nf = 0
    for f in fb.fns(crate='rten_gemm'):
        if not f.has_mir() or '::tests' in f.path:
            continue
        if not (is_int8_fn(f) or f.path.startswith(('rten_gemm::packing::int8', '<rten_gemm::packing::int8'))):
            continue
        nf += 1
        k = 0
        for i, b in enumerate(f.bbs):
            if b.get('c'):
                continue
            for st in b['s']:
                if st[0] == '=' and st[2][0] == 'bin' and re.match(r'(Add|Sub|Mul)', st[2][1]) and len(st[2]) > 4:
                    ty = f.ty(st[2][4])
                    if ty == 'i32':
                        wide += 1
                    elif ty in ('u8', 'i8', 'u16', 'i16'):
                        k += 1
                        short = re.sub(r'^<?rten_gemm::', '', f.path)[-70:]
                        ctx.inst(R, 'narrow:%s#%d' % (short, k), False,
                                 '%s on %s in an int8 GEMM function: sums of u8 / i8 elements or products over a depth block (up to 1024 x 255) do not fit, so the zero-point correction (row / column sums) or the dot product wraps' % (st[2][1], ty),
                                 '%s:%s' % (f.file, st[3]))
    ctx.floor(R, 'int8 packing / kernel functions scanned', nf, 20)
    ctx.floor(R, 'i32 arithmetic statements seen in them (positive control)', wide, 30)
