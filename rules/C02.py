"""C02 Run results are independent of execution strategy - executor ownership discipline (also used by C24, C25)."""
import re
from rulelib import *
from facts import op_int, op_local, op_place, const_int
import loaderlib as L

THOROUGH_CFGS = ('min_none', 'min_rten', 'min_onnx')   # reduced-feature builds of the rten crate (thorough tier)

EXPLANATION = (
    "Ownership discipline of the executor (Graph::run_plan and its closures), decided for every path: (inplace-gate) every "
    "site that removes a value from the temporary-value map or takes a by-value capture is classified - taken for an "
    "operator only under refcount(id) == 1 (guards inherited through closure creation sites), released to the pool only "
    "under dec(id) == Some(0), or extracted as a final output after the plan loop; in-place execution is chosen only if "
    "refcount == 1 holds for all candidates and the in-place values come from that take; (refcount-pairing) the increment "
    "loop, the decrement loop and the by-value-capture loop all iterate Graph::operator_dependencies(op_node), requested "
    "outputs are incremented, counters saturate and never decrement a saturated count; (views-only) operator input lists "
    "are built only from constant / input / temporary / capture *views*; (prepack-index) a prepacked weight is looked up "
    "under the node id of the operator input it replaces and subgraph weight caches are indexed in the order of "
    "SubgraphOperator::subgraphs(). A value taken while still referenced, or a decrement over a different dependency set, "
    "would make a later operator read a mutated or recycled buffer. (owned-borrowed) an owned input is moved into the "
    "temporaries only if its node is a value node, and operator outputs never replace a value the caller supplied, so "
    "owned and borrowed inputs are looked up alike. Equality with a naive evaluation is not decided.")
ASSUMPTIONS = ["operators honour the Operator contract (C13); kernels are deterministic w.r.t. thread count (not decided)"]

RP = 'rten::graph::Graph::run_plan'
COUNT = 'rten::graph::NodeRefCount::count'
VM_REMOVE = 'rten::graph::value_map::ValueMap::remove'
TAKE_INPUT = "rten::graph::capture_env::CaptureEnv::<'a>::take_input"
TAKE_ALL = "rten::graph::capture_env::CaptureEnv::<'a>::take_all_inputs"
DEPS = 'rten::graph::Graph::operator_dependencies'


def inherited_guards(fb, f, bb, depth=5):
    """guards at bb plus the guards that dominate the creation site of each enclosing closure"""
    out = [(f, g) for g in f.guards(bb)]
    if depth > 0 and '{closure#' in f.path:
        cc = closure_creation(fb, f)
        if cc:
            out += inherited_guards(fb, cc[0], cc[1], depth - 1)
    return out


def is_count_eq_one(f, g):
    cnd, t = unwrap_not(g.cond(), g.truth())
    if cnd[0] != 'cmp' or t is None:
        return False
    op = cnd[1] if t else NEG[cnd[1]]
    if op != 'Eq':
        return False
    a, b = cnd[2], cnd[3]
    for x, y in ((a, b), (b, a)):
        if op_int(y) == 1 and has_origin_call(f.origins(x), COUNT):
            return True
    return False


def is_dec_zero(f, g):
    cnd, t = unwrap_not(g.cond(), g.truth())
    if cnd[0] == 'call' and t is True and call_is(cnd[1], 're:Option<T> as core::cmp::PartialEq>::eq$'):
        og = set()
        for a in cnd[1].args:
            og |= f.origins(a)
        return has_origin_call(og, 'rten::graph::NodeRefCount::dec') and any(o[0] == 'const' and o[1] in ('promoted[0_usize]',) for o in og)
    if cnd[0] == 'cmp' and t is not None:
        op = cnd[1] if t else NEG[cnd[1]]
        if op == 'Eq':
            for x, y in ((cnd[2], cnd[3]), (cnd[3], cnd[2])):
                if op_int(y) == 0 and has_origin_call(f.origins(x), 'rten::graph::NodeRefCount::dec'):
                    return True
    return False


def plan_loop(fb):
    """(run_plan Fn, header, body) of the loop that executes operators"""
    f = fb.fn(RP)
    if f is None or not f.has_mir():
        return None
    best = None
    for h, body in f.loops():
        if any(c.bb in body for c in f.calls() if call_is(c, 're:Operator::run$')):
            if best is None or len(body) > len(best[1]):
                best = (h, body)
    return (f, best[0], best[1]) if best else None


def top_creation(fb, f):
    """(outermost fn, bb) where the chain of closures containing f is created"""
    bb = None
    while '{closure#' in f.path:
        cc = closure_creation(fb, f)
        if not cc:
            return f, None
        f, bb = cc[0], cc[1]
    return f, bb


CUT_OFF = ('map_while', 'take_while', 'skip_while', 'take', 'skip', 'step_by', 'filter', 'filter_map', 'find', 'find_map', 'scan', 'rev', 'zip', 'peekable')


def cut_off(origins):
    """iterator adapters between the source and the loop that can drop or cut off elements"""
    return sorted(set((o[1] or '').split('::')[-1] for o in origins if o[0] == 'call') & set(CUT_OFF))


def owned_borrowed(ctx, fb, R):
    """'... and whether inputs were passed as owned values or borrowed views': borrowed inputs are looked up before
    temporaries and never for constant ids, so owned inputs must behave the same: (value-nodes-only) an owned input is moved
    into the temporaries map only under a test that its node is Node::Value (a value supplied for a constant id is ignored,
    as a view would be - otherwise it becomes an in-place candidate); (caller-value-wins) operator outputs are saved to
    the temporaries through a filter that consults the ids recorded in that same extraction loop, so an output never
    replaces a value the caller supplied (a view would shadow it)."""
    f = fb.fn(RP)
    if not ctx.anchor(R, 'Graph::run_plan', f is not None and f.has_mir()):
        return
    ins = [c for c in f.calls() if (c.callee or '').endswith('value_map::ValueMap::insert')]
    # the extraction insert: its key comes from the `inputs` parameter
    ext = [c for c in ins if any(o[0] == 'param' and o[1] == 1 for o in f.origins(c.args[1])) or any(o[0] == 'call' and re.search(r'Vec::<T(, A)?>::remove$', o[1] or '') for o in f.origins(c.args[1]))]
    if not ctx.anchor(R, 'owned-input extraction insert', len(ext) == 1):
        return
    c = ext[0]
    kinds = None
    for g in f.guards(c.bb):
        gv = guard_variants(g, fb)
        if gv and gv[1] is not None and str(gv[0]).endswith('node::Node'):
            kinds = set(gv[1]) if kinds is None else (kinds & set(gv[1]))
    kinds = kinds or set()
    okv = kinds == {'Value'}
    ctx.inst(R, 'value-nodes-only', okv, 'owned inputs are moved into the temporaries only when their node is Node::Value (guards: %s)' % sorted(kinds) if okv else
             'an owned input is moved into the temporaries map without testing that its node is a value node (guards seen: %s): a value supplied for a constant id becomes an in-place candidate and the run differs from passing the same value as a view' % sorted(kinds), c.loc())
    # ids recorded in the same region
    recs = [k for k in f.calls() if re.search(r'Vec::<T(, A)?>::push$', k.callee or '') and 'NodeId' in f.local_ty(op_local(k.args[1]) or 0) and f.dominates(c.bb, k.bb) or
            (re.search(r'Vec::<T(, A)?>::push$', k.callee or '') and 'NodeId' in f.local_ty(op_local(k.args[1]) or 0) and set(g.bb for g in f.guards(k.bb)) == set(g.bb for g in f.guards(c.bb)))]
    exts = [k for k in f.calls() if (k.callee or '').endswith('value_map::ValueMap::extend')]
    okw = False
    where = exts[0].loc() if exts else f.loc()
    for k in exts:
        cur = k.args[1]
        for _ in range(6):
            r = f.resolve_copy(cur)
            if r[0] != 'call':
                break
            if re.search(r'Iterator::filter$', r[1].callee or ''):
                # the predicate closure reads a Vec<NodeId> with contains(); that Vec is the one pushed to during extraction
                cty = f.local_ty(op_local(r[1].args[1]) or 0)
                for q in fb.closures_of(f.path):
                    cf = fb.fn(q)
                    if cf is None or not cf.has_mir():
                        continue
                    if (':%d:' % cf.line) in cty:     # the closure type names its source position
                        if any(re.search(r'::contains$', x.callee or '') for x in cf.calls()) and recs:
                            okw = True
            if not r[1].args:
                break
            cur = r[1].args[0]
    ctx.inst(R, 'caller-value-wins', okw, 'operator outputs are saved through a filter on the ids of the caller\'s owned inputs (recorded during extraction)' if okw else
             'operator outputs are written to the temporaries without excluding ids the caller supplied: the output of a multi-output operator that still runs replaces an owned input value, while a borrowed view of the same value would shadow it', where)


def run(ctx):
    fb = ctx.fb()
    owned_borrowed(ctx, fb, 'C02.owned-borrowed')
    inplace_gate(ctx, fb, 'C02.inplace-gate')
    refcount_pairing(ctx, fb, 'C02.refcount-pairing')
    views_only(ctx, fb, 'C02.views-only')
    prepack_index(ctx, fb, 'C02.prepack-index')


def inplace_gate(ctx, fb, R):
    pl = plan_loop(fb)
    if not ctx.anchor(R, 'Graph::run_plan operator loop', pl is not None):
        return
    rp, H, body = pl
    fns = [fb.fn(p) for p in fb.with_closures(RP)]
    sites = []
    for f in fns:
        for c in f.calls():
            if c.callee in (VM_REMOVE, TAKE_INPUT, TAKE_ALL):
                sites.append((f, c))
    ctx.floor(R, 'owned-value extraction sites in run_plan', len(sites), 5)
    n_take = 0
    for f, c in sites:
        gs = inherited_guards(fb, f, c.bb)
        short = f.path.replace(RP, 'run_plan') + '|' + c.callee.split('::')[-1]
        top, tbb = top_creation(fb, f)
        site_bb = c.bb if f.path == RP else tbb
        in_loop = site_bb in body if site_bb is not None else True
        if any(is_count_eq_one(gf, g) for gf, g in gs):
            n_take += 1
            ctx.inst(R, 'take:' + short, True, 'value is taken for an operator only under refcount(id) == 1 (no later consumer)', c.loc())
        elif c.callee == VM_REMOVE and any(is_dec_zero(gf, g) for gf, g in gs):
            # released value must go to the pool, not to an operator
            ok = any(x.bb in f.reach_from(c.bb) and call_is(x, 're:Value::add_to_pool$') for x in f.calls())
            ctx.inst(R, 'release:' + short, ok, 'value removed after dec(id) == Some(0) and handed to the buffer pool', c.loc())
        elif not in_loop and site_bb is not None and rp.dominates(H, site_bb):
            ctx.inst(R, 'final:' + short, True, 'extraction happens after the operator loop (requested outputs / unused captures)', c.loc())
        else:
            ctx.inst(R, 'unguarded:' + short, False,
                     'owned value extracted inside the operator loop without a refcount(id) == 1 or dec(id) == Some(0) guard: a value that a later operator still needs could be moved or mutated', c.loc())
    ctx.floor(R, 'take-for-operator sites guarded by refcount == 1', n_take, 2)

    # run_in_place decision: all candidates have refcount == 1
    dec_ok = False
    for f in fns:
        if f.path == RP or not f.has_mir():
            continue
        cs = [c for c in f.calls() if c.callee == COUNT]
        if not cs:
            continue
        if f.local_ty(0) != 'bool':
            continue
        # every non-false definition of the return value is dominated by count == 1
        good = True
        anydef = False
        for (bb, j, k, payload, dplace) in f.defs().get(0, []):
            if k == 'rv' and payload[0] == 'use' and const_int(payload[1][1]) == 0 if (k == 'rv' and payload[0] == 'use' and payload[1][0] == 'k') else False:
                continue
            anydef = True
            if not any(is_count_eq_one(f, g) for g in f.guards(bb)):
                good = False
        cc = closure_creation(fb, f)
        used_by_all = False
        if cc:
            pf, cbb, _ = cc
            for x in pf.calls():
                if call_is(x, 're:Iterator>::all$|Iterator::all$') and any(o[0] == 'agg' and o[1] == 'closure' and o[2] == f.path for o in pf.origins(x.args[1])):
                    used_by_all = True
        if used_by_all:
            dec_ok = good and anydef
            ctx.inst(R, 'decision:all-candidates-refcount-1', dec_ok,
                     'run_in_place requires candidates.iter().all(|id| refcount(id) == 1 && available): every true result of the predicate is behind count == 1', f.loc())
    if not dec_ok:
        ctx.inst(R, 'decision:found', dec_ok, 'no all(|..| refcount == 1 ..) predicate found for the in-place decision', rp.loc())
    # in-place values come from take_value
    takers = [f for f in fns if any(c.callee == VM_REMOVE for c in f.calls()) and any(is_count_eq_one(f, g) for c in f.calls() if c.callee == VM_REMOVE for g in f.guards(c.bb))]
    ok = False
    for f in fns:
        if f.path == RP:
            continue
        for c in f.calls():
            if takers and c.callee == takers[0].path:
                # value expect()-ed into the in-place tuple
                og = f.origins(['c', [0]])
                if any(o[0] == 'call' and o[1] == takers[0].path for o in og):
                    cc = closure_creation(fb, f)
                    if cc and any(g.truth() is True for g in cc[0].guards(cc[1])):
                        ok = True
    ctx.inst(R, 'inplace-values-from-take', ok, 'the values handed to run_in_place are produced by the refcount-guarded take closure, under the run_in_place flag', rp.loc())


def refcount_pairing(ctx, fb, R):
    pl = plan_loop(fb)
    if not ctx.anchor(R, 'Graph::run_plan operator loop', pl is not None):
        return
    rp, H, body = pl
    fns = [fb.fn(p) for p in fb.with_closures(RP)]
    incs = [c for c in rp.calls() if c.callee == 'rten::graph::NodeRefCount::inc']
    decs = [c for c in rp.calls() if c.callee == 'rten::graph::NodeRefCount::dec']
    deps_calls = [(f, c) for f in fns for c in f.calls() if c.callee == DEPS]
    ctx.floor(R, 'operator_dependencies call sites in run_plan', len(deps_calls), 3)

    def loop_over_deps(c):
        """is call c inside a loop whose iterator comes from operator_dependencies(op_node)?"""
        for h, b in rp.loops():
            if c.bb not in b:
                continue
            for x in rp.calls():
                if x.bb in b and call_is(x, 're:Iterator>::next$|Iterator::next$') and has_origin_call(rp.origins(x.args[0]), DEPS) and not cut_off(rp.origins(x.args[0])):
                    return True
        return False
    inc_deps = [c for c in incs if loop_over_deps(c)]
    def loop_over_param(c, pi):
        for h, b in rp.loops():
            if c.bb not in b:
                continue
            for x in rp.calls():
                if x.bb in b and call_is(x, 're:Iterator>::next$|Iterator::next$') and has_param_origin(rp.origins(x.args[0]), pi) \
                        and not has_origin_call(rp.origins(x.args[0]), DEPS) and not cut_off(rp.origins(x.args[0])):
                    return True
        return False
    inc_out = [c for c in incs if not loop_over_deps(c) and loop_over_param(c, 3)]
    ctx.inst(R, 'inc-over-dependencies', bool(inc_deps) and all(c.bb not in body for c in inc_deps), 'use counts are incremented in a loop over operator_dependencies(op_node) for every planned operator, before execution starts', inc_deps[0].loc() if inc_deps else rp.loc())
    ctx.inst(R, 'inc-requested-outputs', bool(inc_out) and all(c.bb not in body for c in inc_out), 'every requested output is incremented once (so it survives until it is returned)', inc_out[0].loc() if inc_out else rp.loc())
    dec_deps = [c for c in decs if loop_over_deps(c) and c.bb in body]
    ctx.inst(R, 'dec-over-dependencies', bool(dec_deps) and len(dec_deps) == len(decs), 'use counts are decremented, after each operator, in a loop over the same operator_dependencies(op_node) relation', decs[0].loc() if decs else rp.loc())
    # dec happens after the operator ran (dominated by the run call result handling)
    if dec_deps:
        runs = [c for c in rp.calls() if call_is(c, ('re:Operator::run$', 're:Operator::run_in_place$', 're:SubgraphOperator::run_subgraph$'))]
        after = all(any(c.bb in rp.reach_from(r.bb) for r in runs) for c in dec_deps) and not any(r.bb in rp.reach_from(dec_deps[0].bb, avoid={H}) for r in runs)
        ctx.inst(R, 'dec-after-run', after, 'the decrement loop runs after the operator and cannot reach another operator call without passing the loop header', dec_deps[0].loc())
    # NodeRefCount arithmetic
    for name, callee in (('inc', 'saturating_add'), ('dec', 'saturating_sub')):
        f = fb.fn('rten::graph::NodeRefCount::' + name)
        if ctx.anchor(R, 'fn NodeRefCount::' + name, f is not None and f.has_mir()):
            ok = any(call_is(c, 're:::%s$' % callee) for c in f.calls()) and not any(a[1].startswith('Overflow') for a in f.asserts())
            ctx.inst(R, name + ':saturating', ok, 'NodeRefCount::%s uses %s (no wrap-around of the u8 counter)' % (name, callee), f.loc())
    f = fb.fn('rten::graph::NodeRefCount::dec')
    if f is not None and f.has_mir():
        sub = [c for c in f.calls() if call_is(c, 're:::saturating_sub$')]
        sticky = bool(sub) and all(any((op == 'Ne' and (op_int(a) == 255 or op_int(b) == 255)) for (op, a, b, g) in normalized_cmps(f, c.bb)) for c in sub)
        ctx.inst(R, 'dec:sticky-max', sticky, 'a saturated count (u8::MAX) is never decremented, so a value used >= 255 times is never released early', f.loc())


def views_only(ctx, fb, R):
    rp = fb.fn(RP)
    if not ctx.anchor(R, 'fn Graph::run_plan', rp is not None and rp.has_mir()):
        return
    pushes = []
    for c in rp.calls():
        if call_is(c, 're:SmallVec::<A>::push$|Vec::<T, A>::push$') and len(c.args) > 1:
            ty = rp.local_ty(op_local(c.args[1])) if op_local(c.args[1]) is not None else ''
            if 'ValueView' in ty:
                pushes.append(c)
    ctx.floor(R, 'operator-input pushes', len(pushes), 3)
    allowed = ('re:run_plan::\\{closure#\\d+\\}$', 're:Value::as_view$', 're:run_plan::get_value_from_capture$', 're:ValueMap::get$', 're:Constant::as_view$', 're:ValueOrView::<.*>::as_view$',
               're:CaptureEnv::<.*>::get_input$', 're:Iterator>::next$', 're:Iterator::next$', 're:::iter$', 're:::into_iter$', 're:::enumerate$', 're:OperatorNode::input_ids$', 're:Option::<T>::as_ref$')
    for c in pushes:
        og = rp.origins(c.args[1])
        bad = [o[1] for o in og if o[0] == 'call' and not suffix_match(o[1], allowed)]
        owned = [o[1] for o in og if o[0] == 'call' and suffix_match(o[1], ('re:ValueMap::remove$', 're:take_input$', 're:to_owned$', 're:into_owned$'))]
        ctx.inst(R, 'push', not bad and not owned, 'operator inputs are views obtained from constants / request inputs / temporaries / captures (%s)' % sorted(set(x.split('::')[-1] for x in [o[1] for o in og if o[0] == 'call']))[:6], c.loc())
    # the view producers themselves
    f0 = None
    for p in fb.closures_of(RP):
        f = fb.fn(p)
        if any(call_is(c, 're:Constant::as_view$') for c in f.calls()):
            f0 = f
    if ctx.anchor(R, 'closure get_value_from_constant_or_input', f0 is not None):
        names = set((c.callee or '').split('::')[-1] for p in fb.with_closures(f0.path) for c in fb.fn(p).calls())
        ctx.inst(R, 'constant-or-input:as_view', 'as_view' in names and not (names & {'clone', 'to_owned', 'into_owned', 'as_mut', 'data_mut'}),
                 'constants and borrowed inputs are exposed to operators through as_view only', f0.loc())


def prepack_index(ctx, fb, R):
    # closure |input_index| op_node.input_ids().get(input_index)... wc.get(node_id)
    gets = []
    for p in fb.with_closures(RP):
        f = fb.fn(p)
        for c in f.calls():
            if c.callee == 'rten::weight_cache::WeightCache::get':
                gets.append((f, c))
    ctx.floor(R, 'WeightCache::get sites in run_plan', len(gets), 1)
    for f, c in gets:
        # walk up to the closure that takes input_index
        g = f
        chain_ok = False
        while '{closure#' in g.path:
            names = [(x.callee or '').split('::')[-1] for x in g.calls()]
            if 'input_ids' in names and 'get' in names:
                getc = [x for x in g.calls() if call_is(x, 're:core::slice::<impl \\[T\\]>::get$')]
                chain_ok = any(set(o for o in g.origins(x.args[1]) if o[0] != 'cast') == {('param', 1, ())} for x in getc) and any(has_origin_call(g.origins(x.args[0]), 're:OperatorNode::input_ids$') for x in getc)
                break
            cc = closure_creation(fb, g)
            if not cc:
                break
            g = cc[0]
        key_is_param = has_param_origin(f.origins(c.args[1]), 1) or any(o[0] == 'upvar' for o in f.origins(c.args[1]))
        ctx.inst(R, 'key-is-input-id', chain_ok and key_is_param, 'prepacked weights are looked up under op_node.input_ids()[input_index] for the requested input_index', c.loc())
    # subgraph caches: keyed by the subgraph operator's own id
    sc = [(fb.fn(p), c) for p in fb.with_closures(RP) for c in fb.fn(p).calls() if c.callee == 'rten::weight_cache::WeightCache::get_subgraph_caches']
    ctx.floor(R, 'get_subgraph_caches sites', len(sc), 1)
    for f, c in sc:
        og, of = outer_origins(fb, f, c.args[1])
        # op_node_id is the plan loop element
        ok = any(o[0] == 'call' and suffix_match(o[1], ('re:Iterator>::next$', 're:Iterator::next$')) for o in og) or any(o[0] == 'param' for o in og)
        ctx.inst(R, 'subgraph-caches-by-op-id', ok, 'subgraph weight caches are fetched under the id of the operator being executed', c.loc())
    # SubgraphOperator impls: cache index agrees with subgraphs() order
    n = 0
    for impl in fb.impls(trait='rten::operator::SubgraphOperator'):
        items = impl['items']
        sg = fb.fn(items['subgraphs'][1]) if 'subgraphs' in items else None
        rs = fb.fn(items['run_subgraph'][1]) if 'run_subgraph' in items else None
        if sg is None or rs is None or not sg.has_mir() or not rs.has_mir():
            continue
        # order of graph fields in subgraphs(): array aggregate of refs to self.<field>
        order = []
        for b in sg.bbs:
            for st in b['s']:
                if st[0] == '=' and st[2][0] == 'agg' and st[2][1] == 'array':
                    for o in st[2][4]:
                        flds = [x[2] for x in sg.origins(o) if x[0] == 'param' and x[1] == 0 and x[2]]
                        order.append(flds[0][-1] if flds else None)
        if not order or None in order:
            ctx.inst(R, 'subgraphs-order:' + impl['self'].split('::')[-1], False, 'cannot read the order of graphs returned by subgraphs()', sg.loc())
            continue
        def closure_index(o):
            """constant index K of a `|wcs| &wcs[K]` closure origin"""
            if not (o[0] == 'agg' and o[1] == 'closure'):
                return None
            cf = fb.fn(o[2])
            idx = None
            for b in cf.bbs:
                t = b['t']
                if t[0] == 'assert' and t[3] == 'BoundsCheck':
                    idx = op_int(t[4][1])
                    if idx is None and op_local(t[4][1]) is not None:
                        d = cf.def_of_local(op_local(t[4][1]))
                        if d and d[2] == 'rv' and d[3][0] == 'use':
                            idx = op_int(d[3][1])
            for x in cf.calls():
                if call_is(x, 're:Index<.*>>::index$') and op_int(x.args[1]) is not None:
                    idx = op_int(x.args[1])
            return idx

        def graph_fields(og):
            return sorted(set(x[2][-1] for x in og if x[0] == 'param' and x[1] == 0 and x[2] and x[2][-1] in order))

        def cache_indices(og):
            return sorted(set(i for i in (closure_index(o) for o in og) if i is not None))

        def tuple_local(op):
            """local T if the operand is (a copy of) T.k for a tuple-typed local T"""
            p = op_place(op)
            for _ in range(8):
                if p is None:
                    return None
                p = [e for e in p if e != '*']
                if len(p) >= 2 and isinstance(p[1], list) and p[1][0] == 'f' and rs.local_ty(p[0]).startswith('('):
                    return p[0]
                d = rs.def_of_local(p[0]) if len(p) == 1 else None
                if d is None or d[2] != 'rv' or d[3][0] not in ('use', 'ref'):
                    return None
                p = op_place(d[3][1]) if d[3][0] == 'use' else d[3][2]
            return None

        for c in rs.calls():
            if c.callee != 'rten::graph::Graph::run_subgraph':
                continue
            name = impl['self'].split('::')[-1]
            flds, idxs = graph_fields(rs.origins(c.args[0])), cache_indices(rs.origins(c.args[5]))
            pairs = None
            if len(flds) == 1 and len(idxs) == 1:
                pairs = [(flds[0], idxs[0])]
            else:
                t0, t1 = tuple_local(c.args[0]), tuple_local(c.args[5])
                if t0 is not None and t0 == t1:
                    pairs = []
                    for (bb, j, k, payload, dplace) in rs.defs().get(t0, []):
                        if k == 'rv' and payload[0] == 'agg' and payload[1] == 'tuple' and len(payload[4]) >= 2:
                            f1, i1 = graph_fields(rs.origins(payload[4][0])), cache_indices(rs.origins(payload[4][1]))
                            if len(f1) == 1 and len(i1) == 1:
                                pairs.append((f1[0], i1[0]))
                            else:
                                pairs = None
                                break
            if not pairs:
                ctx.inst(R, 'subgraph-cache-index:%s' % name, False,
                         'cannot pair the graph run by run_subgraph (%s) with the weight cache index it receives (%s)' % (flds, idxs), c.loc())
                continue
            for fld, idx in pairs:
                n += 1
                want = order.index(fld)
                ctx.inst(R, 'subgraph-cache-index:%s.%s' % (name, fld), idx == want,
                         'self.%s is run with weight cache #%s; subgraphs() lists this graph at position %s (caches are built in subgraphs() order)' % (fld, idx, want), c.loc())
    ctx.floor(R, '(subgraph, weight cache) pairs in SubgraphOperator impls', n, 3)
