"""C16 GEMM: with beta == 0 prior output contents never influence the result; every output element is initialised."""
import re
from rulelib import *
from rulelib import _rv_operands
from facts import op_int, op_local, op_place
import C02

EXPLANATION = (
    "Decides the 'beta == 0 => prior output contents never influence the result / uninitialised output is never read' clause "
    "of C16 for every path, not the numerical equality. The output of every GEMM entry point is typed MaybeUninit<OutT> (slice) "
    "or *mut OutT (kernel tile) from GemmExecutor down to the kernels, so every read of it is one of: a raw-pointer read through "
    "a *mut pointer, a SIMD load_ptr/ptr::read whose pointer derives from a *mut pointer, or an assume_init-family call. "
    "(beta-gate) census of all such sites in rten_gemm: each is either on scratch storage (TempTile / packing buffers), or "
    "dominated (through closure creation sites) by a guard that establishes beta != 0 on a beta-derived operand, or is a "
    "reviewed post-initialisation read dominated by the call that fully writes the region (table, verified). "
    "(beta-forward) every argument bound to a parameter named beta / accumulate (resolved callee or every CHA impl) is derived "
    "from the caller's own beta; a literal zero is passed only by the *_uninit entry points or paired with a scratch tile "
    "pointer, and one() only on a non-first depth block (guard depth_range.start == 0 false) or after the first gemv kernel "
    "call; (init) gemm_impl's Ok exits are reached only through a full initialisation (init_from / fill / apply / gemv / the "
    "blocked loop); (beta-only-output) in every kernel function a value assigned under a beta test and live outside it derives from an output read or is the zero replacing it, so beta selects/scales only the C term. (alpha-honoured) every Kernel::kernel / gemv_kernel impl reads its alpha parameter (the x86-64 int8 impls do not: known findings). Numerical correctness of alpha*A*B + beta*C + bias and tile coverage arithmetic are not decided. (alpha-scales-product) alpha multiplies only values whose provenance contains no read of the output: alpha * A.B + beta * C, never alpha * (A.B + beta * C).")
ASSUMPTIONS = ["names of the beta-carrying parameters (beta, effective_beta, dest_beta, accumulate, MatVecOutput.beta) identify the beta flow; the forward rule ties them to the API's beta",
               "a kernel call writes every element of the tile it is given (used_rows x used_cols): tile coverage is value-level"]

BETA_NAMES = {'beta', 'effective_beta', 'dest_beta', 'accumulate'}
SCRATCH_TY = re.compile(r'TempTile|SliceWriter|PackingBuffer|PackedLayout')
ASSUME = re.compile(r'(MaybeUninit::<T>::assume_init(_ref|_mut|_read)?$|AssumeInit>::assume_init$|TensorBase::<S, L>::assume_init$|MatVecOutput::<.*>::from_slice$)')
LOADS = re.compile(r'(::load_ptr(_mask)?$|ptr::(const_ptr|mut_ptr)::<impl \*(const|mut) T>::read(_unaligned|_volatile)?$|core::ptr::read(_unaligned)?$)')
ZERO = re.compile(r'Identities::zero$')
ONE = re.compile(r'Identities::one$')


def run(ctx):
    fb = ctx.fb()
    T = ctx.tables
    beta_gate(ctx, fb, T)
    beta_forward(ctx, fb, T)
    init_all(ctx, fb)
    scales_output(ctx, fb)
    alpha_scales_product(ctx, fb)
    prepack_stride(ctx, fb)
    alpha_honoured(ctx, fb)
    import C17
    C17.accumulate_only(ctx, fb, 'C16.beta-only-output', lambda f: f.path.startswith(('rten_gemm::kernels', '<rten_gemm::kernels')) and not C17.is_int8_fn(f),
                        label='f32 kernel functions with a beta test', floor=5)


# ---------------------------------------------------------------------------------------------------------------
def alpha_honoured(ctx, fb):
    """'GEMM computes alpha*A*B + beta*C ... for every kernel usable on the machine': in every impl of Kernel::kernel /
    Kernel::gemv_kernel the `alpha` parameter has at least one use (as an operand or call argument).  A kernel that never
    reads alpha computes A*B whatever alpha is - silently, whereas the generic u8 x i8 kernel at least asserts alpha == 1
    (sibling agreement over the impls of one trait method)."""
    R = 'C16.alpha-honoured'
    n = 0
    for f in fb.fns(crate='rten_gemm'):
        if not f.has_mir() or not re.search(r' as rten_gemm::kernels::Kernel<.*>>::(kernel|gemv_kernel)$', f.path):
            continue
        al = [int(k) for k, v in (f.names or {}).items() if v in ('alpha', '_alpha') and 1 <= int(k) <= f.argc]
        if not al:
            ctx.inst(R, 'anchor:' + f.path.split('kernels::', 1)[1], False, 'alpha parameter not found', f.loc())
            continue
        n += 1
        used = False
        for i, b in enumerate(f.bbs):
            if b.get('c'):
                continue
            for st in b['s']:
                if st[0] == '=' and any(op_local(o) in al for o in _rv_operands(st[2])):
                    used = True
            t = b['t']
            if t[0] == 'call' and any(op_local(a) in al for a in t[2]):
                used = True
            if t[0] == 'sw' and op_local(t[1]) in al:
                used = True
        m = re.search(r'kernels::(\w+)::(\w+) as rten_gemm::kernels::Kernel<([^>]*)>>::(\w+)$', f.path)
        key = '%s<%s>::%s' % (m.group(2), m.group(3).replace(' ', ''), m.group(4)) if m else f.path[-60:]
        ctx.inst(R, key, used, 'alpha is read by the kernel' if used else
                 'the kernel never reads its alpha parameter: it computes A*B (+ beta-as-flag * C) for every alpha, silently; the generic kernel of the same element types asserts alpha == 1', f.loc())
    ctx.floor(R, 'Kernel::kernel / gemv_kernel impls', n, 8)


def pname(f, idx):
    return (f.names or {}).get(str(idx + 1))


def beta_derived(fb, f, op):
    """the operand derives from a beta-carrying parameter / field of f (or of an enclosing function, for captures)"""
    og, of = outer_origins(fb, f, op)
    return _beta_in(of, og) or _beta_in(f, f.origins(op))


def _beta_in(f, og):
    for o in og:
        if o[0] == 'param':
            if pname(f, o[1]) in BETA_NAMES:
                return True
            if len(o) > 2 and any('beta' == str(x) for x in o[2]):
                return True
        if o[0] == 'call' and re.search(r'MatVecOutput::<.*>::(beta|as_bool_beta)$', o[1] or ''):
            return True
        if o[0] == 'local_name' and o[1] in BETA_NAMES:
            return True
    return False


def is_zero_only(f, op):
    og = f.origins(op)
    if not og:
        return False
    for o in og:
        if o[0] == 'const' and re.match(r'^(promoted\[)?-?0(\.0*)?(_?[iuf]\d+|_?[iu]size|f32|f64)?\]?$', o[1]):
            continue
        if o[0] == 'call' and ZERO.search(o[1] or ''):
            continue
        if o[0] in ('agg',):
            continue
        return False
    return True


def nonzero_beta_guard(fb, gf, g):
    """guard g (in function gf) establishes beta != 0 (or accumulate == true) on its taken edge"""
    cnd, t = unwrap_not(g.cond(), g.truth())
    if t is None:
        return False
    if cnd[0] == 'cmp':
        op = cnd[1] if t else NEG[cnd[1]]
        for x, y in ((cnd[2], cnd[3]), (cnd[3], cnd[2])):
            if not beta_derived(fb, gf, x):
                continue
            v = op_int(y)
            yz = is_zero_only(gf, y)
            if op == 'Ne' and yz:
                return True
            if op == 'Eq' and not yz and y[0] == 'k':
                # beta == <non-zero literal> (e.g. beta == 1.0)
                return not re.match(r'^-?0(\.0*)?(_|f|$)', str(y[1]))
        return False
    if cnd[0] == 'call':
        c = cnd[1]
        name = (c.callee or '').split('::')[-1]
        if name in ('eq', 'ne') and len(c.args) == 2:
            holds_ne = (name == 'ne') == t
            if not holds_ne:
                return False
            for x, y in ((c.args[0], c.args[1]), (c.args[1], c.args[0])):
                if beta_derived(fb, gf, x) and is_zero_only(gf, y):
                    return True
        if re.search(r'as_bool_beta$|::beta$', c.callee or '') and t:
            return True
        return False
    if cnd[0] in ('param', 'place'):
        return t is True and beta_derived(fb, gf, g.discr)
    return False


def root_types(fb, f, op, depth=4):
    """types of the parameters / locals an operand is derived from (through captures)"""
    og, of = outer_origins(fb, f, op)
    tys = set()
    for ff, oo in ((of, og), (f, f.origins(op))):
        for o in oo:
            if o[0] == 'param':
                tys.add(ff.local_ty(o[1] + 1))
    return tys


def recv_roots(fb, f, op, depth=12):
    """walk an operand back through copies, refs, field projections, casts and call receivers (args[0]) to the
    parameters / locals it is a projection of; returns a set of type strings (captures resolved in the parent)"""
    out = set()
    work = [(f, op_place(op)[0] if op_place(op) else None, depth)]
    seen = set()
    while work:
        ff, l, d = work.pop()
        if l is None or (ff.path, l) in seen or d <= 0:
            continue
        seen.add((ff.path, l))
        if 1 <= l <= ff.argc:
            if '{closure#' in ff.path and l == 1:
                continue
            out.add(ff.local_ty(l))
            continue
        df = ff.def_of_local(l)
        if df is None:
            ds = ff.defs().get(l, [])
            if not ds:
                out.add(ff.local_ty(l))
            for dd in ds:
                if dd[2] == 'call' and dd[3].args and op_place(dd[3].args[0]):
                    work.append((ff, op_place(dd[3].args[0])[0], d - 1))
                elif dd[2] != 'call':
                    for o in _rv_operands(dd[3]):
                        if op_place(o):
                            work.append((ff, op_place(o)[0], d - 1))
            continue
        if df[2] == 'call':
            c = df[3]
            if c.args and op_place(c.args[0]):
                work.append((ff, op_place(c.args[0])[0], d - 1))
            else:
                out.add('call:' + (c.callee or ''))
            continue
        rv = df[3]
        if rv[0] in ('ref', 'raw'):
            pl = rv[2]
            # upvar: (*_1).N in a closure
            if '{closure#' in ff.path and pl[0] == 1:
                cc = closure_creation(fb, ff)
                idx = None
                for e in pl[1:]:
                    if isinstance(e, list) and e[0] == 'f':
                        idx = int(e[1])
                        break
                if cc and idx is not None and idx < len(cc[2]) and op_place(cc[2][idx]):
                    work.append((cc[0], op_place(cc[2][idx])[0], d - 1))
                continue
            work.append((ff, pl[0], d - 1))
        elif rv[0] in ('use', 'cast'):
            o = rv[1] if rv[0] == 'use' else rv[2]
            pl = op_place(o)
            if pl is None:
                out.add('const')
            elif '{closure#' in ff.path and pl[0] == 1:
                cc = closure_creation(fb, ff)
                idx = None
                for e in pl[1:]:
                    if isinstance(e, list) and e[0] == 'f':
                        idx = int(e[1])
                        break
                if cc and idx is not None and idx < len(cc[2]) and op_place(cc[2][idx]):
                    work.append((cc[0], op_place(cc[2][idx])[0], d - 1))
            else:
                work.append((ff, pl[0], d - 1))
        elif rv[0] == 'agg':
            out.add('agg:' + str(rv[2] or rv[1]))
        else:
            out.add('rv:' + rv[0])
    return out


def recv_callees(f, op, depth=12):
    """callee names met walking an operand back through copies and call receivers, over all definitions"""
    out = []
    work = [op_place(op)[0]] if op_place(op) else []
    seen = set()
    while work and depth > 0:
        l = work.pop()
        if l in seen:
            continue
        seen.add(l)
        depth -= 0
        for dd in f.defs().get(l, []):
            if dd[2] == 'call':
                out.append(dd[3].callee or '')
                if dd[3].args and op_place(dd[3].args[0]):
                    work.append(op_place(dd[3].args[0])[0])
            else:
                for o in _rv_operands(dd[3]):
                    if op_place(o):
                        work.append(op_place(o)[0])
    return out


def from_mut_ptr(fb, f, op, depth=10):
    """the pointer operand is (derived from) a *mut pointer: the kernels take inputs as *const / slices, the output as *mut"""
    l = op_local(op)
    seen = set()
    while l is not None and l not in seen and depth > 0:
        seen.add(l)
        depth -= 1
        if f.local_ty(l).startswith('*mut'):
            return True
        d = f.def_of_local(l)
        if d is None:
            return False
        if d[2] == 'call':
            c = d[3]
            cal = c.callee or ''
            if 'closure#' in cal or re.search(r'::call(_mut|_once)?$', cal):
                # a pointer-computing closure: look at its return type
                for a in c.args:
                    al = op_local(a)
                    if al is not None and 'closure' in f.local_ty(al):
                        m = re.search(r'\{closure@|closure#', f.local_ty(al))
                cf = fb.fn(c.info.get('r') or '')
                if cf is not None and cf.has_mir():
                    return cf.local_ty(0).startswith('*mut')
                return False
            if c.args and re.search(r'::(add|offset|sub|cast|wrapping_add|byte_add|as_ptr|as_mut_ptr|cast_const)$', cal):
                l = op_local(c.args[0])
                continue
            return False
        rv = d[3]
        if rv[0] == 'cast':
            if 'MutToConst' in str(rv[1]):
                return True
            l = op_local(rv[2])
            continue
        if rv[0] == 'use':
            l = op_local(rv[1])
            continue
        return False
    return False


def census(fb):
    """[(Fn, bb, kind, descriptor, operand-or-local, loc)] of all reads of GEMM output storage in rten_gemm"""
    out = []
    for f in fb.fns(crate='rten_gemm'):
        if not f.has_mir():
            continue
        for r in f.o.get('rawd', []):
            line, bb, loc_, mut, kind = r
            if mut == 'mut' and kind in ('r', 'ref') and bb in f.live():
                out.append((f, bb, 'raw', 'rawread', ['c', [loc_]], '%s:%d' % (f.file, line)))
        for c in f.calls():
            cal = c.callee or ''
            if LOADS.search(cal):
                p = c.args[1] if 'load_ptr' in cal else c.args[0]
                if from_mut_ptr(fb, f, p):
                    out.append((f, c.bb, 'load', cal.split('::')[-1], p, c.loc()))
            elif ASSUME.search(cal):
                out.append((f, c.bb, 'assume', cal.split('::')[-1], c.args[0], c.loc()))
    return out


def beta_gate(ctx, fb, T):
    R = 'C16.beta-gate'
    post = {e['key']: e for e in T.get('post_init', [])}
    used = set()
    sites = census(fb)
    counts = {}
    ngated = 0
    for (f, bb, kind, desc, op, loc) in sites:
        short = f.path.replace('rten_gemm::', '')
        short = re.sub(r'<|>| as kernels::Kernel', '', short)[-70:]
        base = '%s|%s' % (short, desc)
        counts[base] = counts.get(base, 0) + 1
        key = '%s#%d' % (base, counts[base])
        # scratch storage: the read is of a temporary tile / packing buffer, not of the GEMM output
        tys = recv_roots(fb, f, op)
        scratch = bool(tys) and all(SCRATCH_TY.search(t) for t in tys)
        if scratch:
            ctx.inst(R, 'scratch:' + key, True, 'read of scratch storage (%s), not of the output' % ', '.join(sorted(t[:40] for t in tys)), loc)
            continue
        gs = C02.inherited_guards(fb, f, bb)
        gated = [g for (gf, g) in gs if nonzero_beta_guard(fb, gf, g)]
        if gated:
            ngated += 1
            ctx.inst(R, 'gated:' + key, True, 'output read only under %s' % gated[0].describe()[:80], loc)
            continue
        e = post.get(key)
        ok = False
        why = 'read of GEMM output storage that is neither guarded by beta != 0 nor a reviewed post-initialisation read: with beta == 0 prior (possibly uninitialised) output contents can reach the result'
        if e is not None:
            used.add(key)
            if e.get('after'):
                pat = re.compile(e['after'])
                dom = dominating_calls(fb, f, bb)
                hit = [c for c in dom if pat.search(c.callee or '')]
                ok = bool(hit)
                why = ('reviewed post-init read: %s; dominated by %s' % (e['reason'], (hit[0].callee or '')[-50:])) if ok else \
                    'reviewed as post-initialisation read but no call matching /%s/ dominates it any more' % e['after']
            elif e.get('after_loop'):
                pat = re.compile(e['after_loop'])
                hit = None
                ff, b2 = f, bb
                for _ in range(4):
                    dom = ff.dominators().get(b2, set())
                    for (h, body) in ff.loops():
                        if h in dom and b2 not in body:
                            for c in ff.calls():
                                if c.bb in body and pat.search(c.callee or ''):
                                    hit = c
                    if hit or '{closure#' not in ff.path:
                        break
                    cc = closure_creation(fb, ff)
                    if not cc:
                        break
                    ff, b2 = cc[0], cc[1]
                ok = hit is not None
                why = ('reviewed post-init read: %s; follows a loop that calls %s' % (e['reason'], (hit.callee or '')[-50:])) if ok else \
                    'reviewed as a read after an initialising loop, but no preceding loop calls /%s/ any more' % e['after_loop']
            elif e.get('empty'):
                # the region is empty: the site is reached only when a length compared equal to zero / an empty slice pattern matched
                ok = any(_len_zero_guard(gf, g) for (gf, g) in gs)
                why = ('reviewed: %s; guarded by a zero-length test' % e['reason']) if ok else 'reviewed as an empty-output read but no zero-length guard dominates it any more'
        ctx.inst(R, 'post-init:' + key if e is not None else 'ungated:' + key, ok, why, loc)
    ctx.floor(R, 'output-read sites in rten_gemm', len(sites), 30)
    ctx.floor(R, 'beta-gated output reads', ngated, 14)
    for k in post:
        if k not in used:
            ctx.note('C16 post_init table entry %s matches no site any more (the read was removed or is now guarded): entry can be dropped' % k)


def _len_zero_guard(f, g):
    cnd, t = unwrap_not(g.cond(), g.truth())
    if cnd[0] != 'cmp' or t is None:
        return False
    op = cnd[1] if t else NEG[cnd[1]]
    if op != 'Eq':
        return False
    for x, y in ((cnd[2], cnd[3]), (cnd[3], cnd[2])):
        if (op_int(y) == 0 or is_zero_only(f, y)) and any(o[0] == 'len_of' or (o[0] == 'call' and (o[1] or '').endswith('::len')) for o in f.origins(x)):
            return True
    return False


def dominating_calls(fb, f, bb, depth=4):
    """calls (Call objects) in blocks that dominate bb, through closure creation sites"""
    out = []
    doms = set(f.dominators().get(bb, set()))
    for c in f.calls():
        if c.bb in doms and c.bb != bb:
            out.append(c)
    if depth > 0 and '{closure#' in f.path:
        cc = closure_creation(fb, f)
        if cc:
            out += dominating_calls(fb, cc[0], cc[1], depth - 1)
    return out


# ---------------------------------------------------------------------------------------------------------------
def beta_forward(ctx, fb, T):
    R = 'C16.beta-forward'
    from callgraph import CallGraph
    cg = CallGraph(fb)
    zero_ok = {e['fn']: e['reason'] for e in T.get('zero_beta_sites', [])}
    must_reset = {e['key']: e['reason'] for e in T.get('must_reset', [])}
    seen_reset = set()
    n = 0
    cnt = {}
    for f in fb.fns(crate='rten_gemm'):
        if not f.has_mir():
            continue
        seen_calls = set()
        for (callee, c, how) in cg.callees(f):
            if c is None or id(c) in seen_calls:
                continue
            cf = fb.fn(callee)
            if cf is None or not cf.names or not cf.path.startswith(('rten_gemm', '<rten_gemm')):
                continue
            idxs = [i for i in range(cf.argc) if pname(cf, i) in BETA_NAMES]
            if not idxs:
                continue
            seen_calls.add(id(c))
            for i in idxs:
                if i >= len(c.args):
                    continue
                n += 1
                a = c.args[i]
                short = re.sub(r'<|>| as kernels::Kernel', '', f.path.replace('rten_gemm::', ''))[-50:]
                base = '%s->%s.%s' % (short, callee.split('::')[-1], pname(cf, i))
                cnt[base] = cnt.get(base, 0) + 1
                key = '%s#%d' % (base, cnt[base])
                ok, why = forward_ok(fb, f, c, a, zero_ok)
                if ok and key in must_reset:
                    seen_reset.add(key)
                    if 'one() afterwards' not in why:
                        ok, why = False, 'this call sits in the loop over depth (K) blocks: the caller\'s beta must apply to the first block only and be one() afterwards, but the effective beta is never reset (%s)' % must_reset[key]
                ctx.inst(R, key, ok, why, c.loc())
    ctx.floor(R, 'call arguments bound to a beta / accumulate parameter', n, 15)
    for k in must_reset:
        if k not in seen_reset:
            ctx.inst(R, 'depth-loop-reset:' + k, False, 'the reviewed depth-loop beta site was not found or no longer passes (anchor moved): re-review', '')


def forward_ok(fb, f, c, a, zero_ok):
    r = f.resolve_copy(a)
    if r[0] == 'rv' and r[1][0] == 'bin' and r[1][1] in ('Ne', 'Eq', 'Gt', 'Lt', 'Ge', 'Le'):
        op, x, y = r[1][1], r[1][2], r[1][3]
        if op == 'Ne' and ((beta_derived(fb, f, x) and is_zero_only(f, y)) or (beta_derived(fb, f, y) and is_zero_only(f, x))):
            return True, 'accumulate flag is `beta != 0` of the caller\'s beta'
        return False, 'accumulate flag is computed by %s, not `beta != 0`: the sense of the beta test is changed' % op
    og, of = outer_origins(fb, f, a)
    ogl = set(f.origins(a)) | set(og)
    derived = beta_derived(fb, f, a)
    has_zero = any((o[0] == 'call' and ZERO.search(o[1] or '')) or (o[0] == 'const' and re.match(r'^-?0(\.0*)?(_?[iuf]\d+|f32|f64)$', o[1])) for o in ogl)
    has_one = any((o[0] == 'call' and ONE.search(o[1] or '')) for o in ogl)
    other = [o for o in ogl if o[0] == 'call' and not ZERO.search(o[1] or '') and not ONE.search(o[1] or '') and not re.search(r'PartialEq|::ne$|::eq$|MatVecOutput|::clone$|Identities', o[1] or '')]
    if other and not derived:
        return False, 'beta argument computed by %s, not derived from the caller\'s beta' % other[0][1][-40:]
    if not derived:
        # a constant beta
        if has_zero and not has_one:
            r = zero_ok.get(f.path)
            if r:
                return True, 'constant zero beta at a reviewed site: ' + r
            return False, 'a literal zero is passed as beta at an unreviewed site (prior output contents / accumulated partial sums would be dropped)'
        return False, 'beta argument is a constant not derived from the caller\'s beta'
    # derived from beta; extra constant sources need a justification
    if has_one:
        ok, why = one_is_after_first(fb, f, c, a)
        if not ok:
            return False, why
        return True, 'beta on the first update of a tile, one() afterwards: ' + why
    if has_zero:
        # (ptr, beta) pairs: zero only together with a scratch pointer
        ok, why = zero_paired_with_scratch(fb, f, c, a)
        return ok, why
    return True, 'forwarded from the caller\'s beta'


def _defs(f, local):
    """all (bb, rvalue-or-call) definitions of a local"""
    out = []
    for i, b in enumerate(f.bbs):
        if b.get('c') or i not in f.live():
            continue
        for s in b['s']:
            if s[0] == '=' and len(s[1]) == 1 and s[1][0] == local:
                out.append((i, 'rv', s[2]))
    for c in f.calls():
        if len(c.dest) == 1 and c.dest[0] == local:
            out.append((c.bb, 'call', c))
    return out


def one_is_after_first(fb, f, c, a):
    """the operand is a variable with a beta-derived definition and a one() definition: the one() definition must be on the
    not-first-depth-block side of a `start == 0` test, or come after a kernel call in the loop"""
    # find the variable (possibly captured): walk use-chains to a local with >1 definition
    ff, l = f, op_local(a)
    for _ in range(6):
        if l is None:
            break
        ds = _defs(ff, l)
        if len(ds) > 1:
            break
        if len(ds) == 1 and ds[0][1] == 'rv' and ds[0][2][0] in ('use', 'ref') :
            src = ds[0][2][1] if ds[0][2][0] == 'use' else ['c', ds[0][2][2]]
            pl = op_place(src)
            l = pl[0] if pl else None
            continue
        if not ds:
            # upvar / param: go to the parent closure creation
            og = ff.origins(['c', [l]])
            ups = [o for o in og if o[0] in ('upvar',)]
            cc = closure_creation(fb, ff) if '{closure#' in ff.path else None
            if cc is None:
                break
            # captured operand at the creation site
            par, pbb, ops = cc
            idx = None
            for o in ff.origins(a):
                if o[0] == 'upvar':
                    try:
                        idx = int(o[1][0])
                    except Exception:
                        idx = None
            if idx is None or idx >= len(ops):
                break
            ff = par
            pl = op_place(ops[idx])
            l = pl[0] if pl else None
            # captured by reference: `&effective_beta`
            d1 = _defs(ff, l)
            if len(d1) == 1 and d1[0][1] == 'rv' and d1[0][2][0] == 'ref':
                l = d1[0][2][2][0]
            continue
        break
    if l is None:
        return False, 'cannot locate the effective-beta variable'
    ds = _defs(ff, l)
    ones = []
    betas = []
    for (bb, k, d) in ds:
        if k == 'call' and ONE.search(d.callee or ''):
            ones.append(bb)
        elif k == 'call':
            return False, 'effective beta assigned from %s' % (d.callee or '')[-40:]
        else:
            src = d[1] if d[0] == 'use' else None
            if src is None:
                return False, 'effective beta assigned from a computed value'
            o2 = ff.origins(src)
            if any(o[0] == 'call' and ONE.search(o[1] or '') for o in o2):
                ones.append(bb)
            elif beta_derived(fb, ff, src):
                betas.append(bb)
            else:
                return False, 'effective beta assigned from a value that is not the caller\'s beta'
    if not ones or not betas:
        return False, 'effective beta does not have both a beta and a one() definition'
    for ob in ones:
        ok = False
        # (a) guarded: start == 0 is false on the one() side and true on the beta side
        for g in ff.guards(ob):
            cnd, t = unwrap_not(g.cond(), g.truth())
            if cnd[0] == 'cmp' and t is not None:
                op = cnd[1] if t else NEG[cnd[1]]
                if op == 'Ne' and (op_int(cnd[3]) == 0 or op_int(cnd[2]) == 0):
                    x = cnd[2] if op_int(cnd[3]) == 0 else cnd[3]
                    pl = op_place(x)
                    ogx = ff.origins(x)
                    if any(o[0] == 'param' and 'start' in [str(z) for z in (o[2] if len(o) > 2 else ())] for o in ogx) or 'start' in str(ff.def_of_local(pl[0]) if pl else ''):
                        # and every beta definition is on the == 0 side of the same test
                        if all(any(g2.bb == g.bb and g2.truth() != g.truth() for g2 in ff.guards(bb2)) for bb2 in betas):
                            ok = True
        # (b) sequenced: the one() assignment is dominated by a kernel call in the same loop body
        if not ok:
            dom = dominating_calls(fb, ff, ob, depth=0)
            if any(re.search(r'Kernel::gemv_kernel$|Kernel::kernel$', cc.callee or '') for cc in dom):
                # and the beta definition is outside (before) the loop: it dominates the kernel call
                ok = True
        if not ok:
            return False, 'the one() definition of the effective beta is neither on the non-first-depth-block side of a `start == 0` test nor after the kernel call'
    return True, 'one() only after the first update'


def zero_paired_with_scratch(fb, f, c, a):
    """beta operand selected together with a destination pointer by a tuple: (tile_ptr, beta) | (tmp_ptr, 0)"""
    l = op_local(a)
    d = f.def_of_local(l) if l is not None else None
    # find tuple aggregates feeding this operand
    tuples = []
    for i, b in enumerate(f.bbs):
        if b.get('c') or i not in f.live():
            continue
        for s in b['s']:
            if s[0] == '=' and s[2][0] == 'agg' and s[2][1] == 'tuple' and len(s[2][4]) >= 2:
                tuples.append((i, s[1], s[2][4]))
    rel = []
    for (bb, dst, ops) in tuples:
        betas = [j for j, o in enumerate(ops) if beta_derived(fb, f, o) and not f.local_ty(op_local(o) or 0).startswith('*')]
        zeros = [j for j, o in enumerate(ops) if is_zero_only(f, o)]
        ptrs = [j for j, o in enumerate(ops) if op_local(o) is not None and f.local_ty(op_local(o)).startswith('*mut')]
        if ptrs and (betas or zeros):
            rel.append((bb, ops, ptrs, betas, zeros))
    if not rel:
        return False, 'a zero constant reaches the beta argument without a (pointer, beta) pairing'
    for (bb, ops, ptrs, betas, zeros) in rel:
        p = ops[ptrs[0]]
        ptr_is_param = any(o[0] == 'param' for o in f.origins(p)) and not any(o[0] == 'call' and re.search(r'TempTile|as_mut_ptr', o[1] or '') for o in f.origins(p))
        if zeros and not betas and ptr_is_param:
            return False, 'the output tile pointer is paired with a zero beta: the existing tile contents would be overwritten instead of accumulated'
        if betas and not ptr_is_param:
            return False, 'the temporary tile is paired with the caller\'s beta: uninitialised scratch contents would be accumulated'
    return True, 'zero beta only paired with the temporary tile; the output tile pointer is paired with the caller\'s beta'


# ---------------------------------------------------------------------------------------------------------------
def init_all(ctx, fb):
    R = 'C16.init'
    f = fb.fn('rten_gemm::gemm_impl')
    if f is None or not f.has_mir():
        ctx.inst(R, 'anchor:gemm_impl', False, 'gemm_impl not found', '')
        return
    # every Ok aggregate that reaches the return place is built from a value that went through an initialising call
    INIT = re.compile(r'(::init_from$|::fill$|::apply$|rten_gemm::gemv$|::for_each$|TensorBase::<S, L>::assume_init$)')
    n = 0
    for i, b in enumerate(f.bbs):
        if b.get('c') or i not in f.live():
            continue
        for s in b['s']:
            if s[0] == '=' and s[2][0] == 'agg' and s[2][1] == 'adt' and s[2][3] == 'Ok' and s[1] == [0]:
                n += 1
                dom = dominating_calls(fb, f, i, depth=0)
                inits = [c for c in dom if INIT.search(c.callee or '')] + [x for x in recv_callees(f, s[2][4][0]) if INIT.search(x)]
                ctx.inst(R, 'ok-exit#%d' % n, bool(inits), 'Ok(output) is returned only after an initialising call (init_from / fill / apply / gemv / blocked loop)', '%s:%s' % (f.file, s[3] if len(s) > 3 else ''))
    ctx.floor(R, 'Ok exits of gemm_impl', n, 4)
    # gemm_uninit passes beta = zero
    g = fb.fn("rten_gemm::GemmExecutor::<LhsT, RhsT, OutT>::gemm_uninit")
    ok = False
    if g is not None and g.has_mir():
        for c in g.calls():
            if (c.callee or '').endswith('rten_gemm::gemm_impl'):
                ok = is_zero_only(g, c.args[5])
    ctx.inst(R, 'gemm_uninit:beta-zero', ok, 'gemm_uninit (uninitialised output) calls gemm_impl with beta = OutT::zero()', g.loc() if g else '')


# ---------------------------------------------------------------------------------------------------------------
def beta_value(fb, f, op):
    """the operand is the caller's beta or a vector splat of it"""
    r = f.resolve_copy(op)
    if r[0] == 'call' and (r[1].callee or '').endswith('::splat') and len(r[1].args) > 1:
        return beta_derived(fb, f, r[1].args[1])
    if r[0] == 'rv' and r[1][0] == 'bin':
        return False
    return beta_derived(fb, f, op) and not any(o[0] == 'binop' for o in f.origins(op))


def output_read_derived(fb, f, op):
    """some origin of the operand is a read of the GEMM output (see census)"""
    pl = op_place(op)
    if pl is not None and '*' in pl and f.local_ty(pl[0]).startswith('*mut'):
        return True
    for o in f.origins(op):
        if o[0] == 'call':
            for c in f.calls():
                if c.bb == o[2] and c.callee == o[1]:
                    cal = c.callee or ''
                    if ASSUME.search(cal):
                        return True
                    if LOADS.search(cal) and from_mut_ptr(fb, f, c.args[1] if 'load_ptr' in cal else c.args[0]):
                        return True
        if o[0] == 'param' and o[1] >= 1 and f.local_ty(o[1] + 1).startswith('&') and '{closure#' in f.path:
            return True
    if pl is not None:
        d = f.def_of_local(pl[0])
        if d is not None and d[2] != 'call' and d[3][0] == 'use':
            p2 = op_place(d[3][1])
            if p2 is not None and '*' in p2 and f.local_ty(p2[0]).startswith(('*mut', '&mut')):
                return True
    return False


def scales_output(ctx, fb):
    """beta multiplies the previous output value (beta * C), never the new product"""
    R = 'C16.beta-scales-output'
    n = 0
    cnt = {}
    for f in fb.fns(crate='rten_gemm'):
        if not f.has_mir():
            continue
        sites = []
        for c in f.calls():
            cal = c.callee or ''
            if re.search(r'(NumOps|FloatOps)::(mul|mul_add|mul_sub_from)$', cal) and len(c.args) >= 3:
                sites.append((c.args[1], c.args[2], c.loc(), cal.split('::')[-1]))
            elif re.search(r'arith::Mul::mul$', cal) and len(c.args) == 2:
                sites.append((c.args[0], c.args[1], c.loc(), 'Mul::mul'))
        for i, b in enumerate(f.bbs):
            if b.get('c') or i not in f.live():
                continue
            for s in b['s']:
                if s[0] == '=' and s[2][0] == 'bin' and s[2][1].startswith('Mul'):
                    sites.append((s[2][2], s[2][3], '%s:%s' % (f.file, s[3] if len(s) > 3 else ''), 'Mul'))
        for (x, y, loc, what) in sites:
            for (b_, o_) in ((x, y), (y, x)):
                if beta_value(fb, f, b_):
                    n += 1
                    short = re.sub(r'<|>| as kernels::Kernel', '', f.path.replace('rten_gemm::', ''))[-60:]
                    base = '%s|%s' % (short, what)
                    cnt[base] = cnt.get(base, 0) + 1
                    ok = output_read_derived(fb, f, o_)
                    ctx.inst(R, '%s#%d' % (base, cnt[base]), ok, 'beta multiplies a value read from the output (beta * C)' if ok else
                             'beta multiplies a value that is not read from the output: the new product would be scaled by beta instead of the previous contents', loc)
                    break
    ctx.floor(R, 'multiplications by beta', n, 6)



def alpha_value(fb, f, op):
    """the operand is the kernel's alpha parameter or a vector splat of it"""
    r = f.resolve_copy(op)
    if r[0] == 'call' and (r[1].callee or '').endswith('::splat') and len(r[1].args) > 1:
        return alpha_value(fb, f, r[1].args[1])
    if r[0] == 'rv' and r[1][0] == 'bin':
        return False
    og, of = outer_origins(fb, f, op)
    def named(ff, ogs):
        return any(o[0] == 'param' and pname(ff, o[1]) in ('alpha',) for o in ogs) and not any(o[0] == 'binop' for o in ogs)
    return named(of, og) or named(f, f.origins(op))


def alpha_scales_product(ctx, fb):
    """alpha multiplies the new product (alpha * A.B) and never a value that already contains the previous output:
    alpha * (acc + beta * C) scales C by alpha * beta (and, across depth blocks accumulated with beta = 1, re-scales the
    partial sum once per block)"""
    R = 'C16.alpha-scales-product'
    n = 0
    cnt = {}
    for f in fb.fns(crate='rten_gemm'):
        if not f.has_mir() or '::tests' in f.path:
            continue
        sites = []
        for c in f.calls():
            cal = c.callee or ''
            if re.search(r'(NumOps|FloatOps)::(mul|mul_add|mul_sub_from)$', cal) and len(c.args) >= 3:
                sites.append((c.args[1], c.args[2], c.loc(), cal.split('::')[-1]))
            elif re.search(r'arith::Mul::mul$', cal) and len(c.args) == 2:
                sites.append((c.args[0], c.args[1], c.loc(), 'Mul::mul'))
        for i, b in enumerate(f.bbs):
            if b.get('c') or i not in f.live():
                continue
            for st in b['s']:
                if st[0] == '=' and st[2][0] == 'bin' and st[2][1].startswith('Mul'):
                    sites.append((st[2][2], st[2][3], '%s:%s' % (f.file, st[3] if len(st) > 3 else ''), 'Mul'))
        for (x, y, loc, what) in sites:
            for (a_, o_) in ((x, y), (y, x)):
                if alpha_value(fb, f, a_):
                    n += 1
                    short = re.sub(r'<|>| as kernels::Kernel', '', f.path.replace('rten_gemm::', ''))[-60:]
                    base = '%s|%s' % (short, what)
                    cnt[base] = cnt.get(base, 0) + 1
                    bad = output_read_derived(fb, f, o_)
                    ctx.inst(R, '%s#%d' % (base, cnt[base]), not bad, 'alpha multiplies a value that does not contain the previous output' if not bad else
                             'alpha multiplies a value that includes a read of the output: the kernel computes alpha * (A.B + beta * C) instead of alpha * A.B + beta * C, wrong whenever alpha != 1 and the output is accumulated into (beta != 0, or a later depth block)', loc)
                    break
    ctx.floor(R, 'multiplications by alpha', n, 4)


def prepack_stride(ctx, fb):
    """PackedMatrixBase::block returns (data, panel_stride); the consumer walks `data` in steps of the returned stride, so
    every panel offset inside block() must be computed with that same value (the stride selected for this depth block)"""
    R = 'C16.prepack-stride'
    f = fb.fn('rten_gemm::prepack::PackedMatrixBase::block')
    if f is None or not f.has_mir():
        ctx.inst(R, 'anchor:PackedMatrixBase::block', False, 'rten_gemm::prepack::PackedMatrixBase::block not found', '')
        return

    def root(op, depth=8):
        l = op_local(op)
        while l is not None and depth > 0:
            depth -= 1
            ds = f.defs().get(l, [])
            if len(ds) == 1 and ds[0][2] != 'call' and ds[0][3][0] == 'use' and op_place(ds[0][3][1]) is not None and len(op_place(ds[0][3][1])) == 1:
                l = op_place(ds[0][3][1])[0]
                continue
            break
        return l
    # the stride handed back to the caller
    ret = None
    for (bb, j, k, payload, dpl) in f.defs().get(0, []):
        if k != 'call' and payload[0] == 'agg' and payload[1] == 'tuple' and len(payload[4]) == 2:
            ret = root(payload[4][1])
    if ret is None:
        ctx.inst(R, 'anchor:returned-stride', False, 'block() no longer returns a (data, stride) tuple', f.loc())
        return
    is_stride = lambda o: any(x[0] == 'param' and x[1] == 0 and any(str(z) in ('panel_stride', 'tail_panel_stride') for z in x[2]) for x in f.origins(o))
    n = 0
    bad = None
    for i, b in enumerate(f.bbs):
        if b.get('c') or i not in f.live():
            continue
        for st in b['s']:
            if st[0] == '=' and st[2][0] == 'bin' and st[2][1].startswith('Mul'):
                for o in (st[2][2], st[2][3]):
                    if op_place(o) is not None and is_stride(o):
                        n += 1
                        if root(o) != ret or len(op_place(o)) != 1:
                            bad = '%s:%s' % (f.file, st[3] if len(st) > 3 else '')
    ctx.inst(R, 'offsets-use-returned-stride', bad is None and n >= 2, 'all %d panel offsets in PackedMatrixBase::block are multiples of the stride that is returned to the caller' % n if bad is None and n >= 2 else
             'a panel offset in PackedMatrixBase::block is computed with a stride other than the one returned to the caller: in the tail depth block the kernel would read the wrong panels', bad or f.loc())
