"""C24 Control-flow subgraphs behave like the equivalent inlined graph - capture ownership."""
import re
from rulelib import *
from facts import op_int, op_local, op_place
import C02

THOROUGH_CFGS = ('min_none', 'min_rten', 'min_onnx')   # reduced-feature builds of the rten crate (thorough tier)

EXPLANATION = (
    "Capture ownership, decided on the executor and the control-flow operators: (by-value) a parent value is moved into a "
    "subgraph only through the refcount(id) == 1 guarded take, and only for dependencies that are not also direct inputs "
    "of the control-flow operator; (by-ref) the capture environment handed to a subgraph receives its parent environment, "
    "the request inputs and the temporaries as shared references, take_input never reaches into the parent environment, "
    "get_input hands out views; (loop-clone) every iteration of Loop gets its own clone (or child) of the environment, so "
    "a by-value capture consumed in one iteration is still there in the next; (release) by-value captures that were not "
    "consumed are extracted only after the operator loop and returned to the pool; the weight-cache index of each branch "
    "agrees with SubgraphOperator::subgraphs(); (loop-outputs) each step's scan outputs are accumulated on every path through "
    "Loop's extraction loop, so the positional output list cannot shift. Running a subgraph can therefore not change a parent value that is still "
    "needed. Equality with the inlined graph is not decided.")
ASSUMPTIONS = ["Value::clone / CaptureEnv::clone deep-copy owned tensors (derived Clone over Vec storage)"]
RP = C02.RP
CE = "rten::graph::capture_env::CaptureEnv::<'a>::"


def run(ctx):
    fb = ctx.fb()
    C02.inplace_gate(ctx, fb, 'C24.by-value-gate')
    by_value(ctx, fb)
    by_ref(ctx, fb)
    loop_clone(ctx, fb)
    loop_outputs(ctx, fb)
    C02.prepack_index(ctx, fb, 'C24.branch-cache-index')


def by_value(ctx, fb):
    R = 'C24.by-value'
    cl = None
    for p in fb.closures_of(RP):
        f = fb.fn(p)
        # the closure that builds the by-value capture map: it inserts Values into a HashMap (found by that alone, so that a
        # loop over another relation is reported by the rules below rather than as a lost anchor)
        if any(call_is(c, 're:HashMap::<K, V, S(, A)?>::insert$') and 'Value' in f.local_ty(op_local(c.args[2]) or 0) for c in f.calls()):
            cl = f
    if not ctx.anchor(R, 'by_value_captures closure in run_plan', cl is not None):
        return
    takes = [c for c in cl.calls() if (c.callee or '').startswith(RP + '::{closure#') or (c.declared or '').endswith('FnMut::call_mut')]
    takes = [c for c in takes if 'Option<rten::value::Value>' in cl.local_ty(c.dest[0])]
    ctx.floor(R, 'take_value calls in the by-value capture loop', len(takes), 1)
    for c in takes:
        neg = guards_call(cl, c.bb, 're:core::slice::<impl \\[T\\]>::contains$', False)
        okn = any(has_origin_call(cl.origins(cc.args[0]), 're:OperatorNode::input_ids$') for g, cc in neg)
        ctx.inst(R, 'not-a-direct-input', okn, 'a dependency is captured by value only if it is not also a direct input of the control-flow operator (negative input_ids().contains guard)', c.loc())
        over = any(x.bb in b and call_is(x, 're:Iterator>::next$|Iterator::next$') and has_origin_call(cl.origins(x.args[0]), C02.DEPS) for h, b in cl.loops() if c.bb in b for x in cl.calls())
        ctx.inst(R, 'iterates-operator_dependencies', over, 'the capture loop iterates Graph::operator_dependencies(op_node) - the same relation the refcounts were built from', c.loc())
    ins = [c for c in cl.calls() if call_is(c, 're:HashMap::<K, V, S(, A)?>::insert$')]
    for c in ins:
        ok = any(o[0] == 'call' and any(o[1] == t.callee for t in takes) for o in cl.origins(c.args[2]))
        ctx.inst(R, 'inserted-value-from-take', ok, 'values placed in by_value_captures come from the refcount-guarded take', c.loc())
    # only built for subgraph operators
    cc = closure_creation(fb, cl)
    if cc:
        pf, bb, _ = cc
        used = [c for c in pf.calls() if call_is(c, 're:bool>::then$') and any(o[0] == 'agg' and o[2] == cl.path for o in pf.origins(c.args[1]))]
        ctx.inst(R, 'only-for-subgraph-ops', bool(used) and all(has_origin_call(pf.origins(c.args[0]), 're:Option::<T>::is_some$') for c in used),
                 'by-value captures are extracted only when the operator is a subgraph operator', pf.loc(pf.bbs[bb]['s'][0][3]) if pf.bbs[bb]['s'] else pf.loc())


def by_ref(ctx, fb):
    R = 'C24.by-ref'
    rp = fb.fn(RP)
    news = [c for c in rp.calls() if c.callee == CE + 'new'] if rp else []
    ctx.floor(R, 'CaptureEnv::new sites in run_plan', len(news), 1)
    for c in news:
        og = rp.origins(c.args[0])
        ok = has_origin_call(og, 're:Option::<T>::as_ref$') and has_param_origin(og, 4)
        ctx.inst(R, 'parent-by-shared-ref', ok, 'the subgraph environment receives the parent environment as Option<&CaptureEnv> (captures.as_ref())', c.loc())
        bv = rp.origins(c.args[4])
        ctx.inst(R, 'by-value-map-from-capture-loop', any(o[0] == 'call' and suffix_match(o[1], 're:bool>::then$') for o in bv), 'the by-value map passed to the environment is the one built by the guarded capture loop', c.loc())
    ti = fb.fn(CE + 'take_input')
    if ctx.anchor(R, 'fn CaptureEnv::take_input', ti is not None and ti.has_mir()):
        sig = ti.ty(ti.o['sig_in'][0])
        touches_parent = any('parent' in o[2] for c in ti.calls() for a in c.args for o in ti.origins(a) if o[0] == 'param' and o[1] == 0)
        ctx.inst(R, 'take_input:own-map-only', sig.startswith('&mut ') and not touches_parent, 'take_input needs &mut self and only removes from this environment\'s own by-value map (never from the parent)', ti.loc())
    gi = fb.fn(CE + 'get_input')
    if ctx.anchor(R, 'fn CaptureEnv::get_input', gi is not None and gi.has_mir()):
        out = gi.ty(gi.o['sig_out'])
        ctx.inst(R, 'get_input:views', 'ValueView' in out and gi.ty(gi.o['sig_in'][0]).startswith('&') and not gi.ty(gi.o['sig_in'][0]).startswith('&mut'),
                 'get_input takes &self and returns Option<ValueView>', gi.loc())
    adt = fb.adt('rten::graph::capture_env::CaptureEnv')
    if ctx.anchor(R, 'struct CaptureEnv', adt is not None):
        tys = {fd['name']: fd['ty'] for fd in adt['variants'][0]['fields']}
        ok = tys.get('parent', '').startswith('core::option::Option<&') and 'mut' not in tys.get('parent', '') and tys.get('temp_values_by_ref', '').startswith('core::option::Option<&') \
            and 'mut' not in tys.get('temp_values_by_ref', '') and 'mut' not in tys.get('inputs', '')
        ctx.inst(R, 'fields-shared', ok, 'parent / inputs / temp_values_by_ref are shared references: %s' % {k: v[:50] for k, v in tys.items()}, adt['f'] + ':' + str(adt['l']))
    # release after the loop is part of the by-value gate (final: take_all_inputs)
    rel = [c for p in fb.with_closures(RP) for c in fb.fn(p).calls() if c.callee == C02.TAKE_ALL]
    pools = [c for c in rp.calls() if call_is(c, 're:Value::add_to_pool$')] if rp else []
    ctx.inst('C24.release', 'unused-captures-to-pool', bool(rel) and len(pools) >= 2, 'unconsumed by-value captures are taken with take_all_inputs after the operator loop and added to the pool', rel[0].loc() if rel else '')


def loop_clone(ctx, fb):
    R = 'C24.loop-clone'
    n = 0
    for impl in fb.impls(trait='rten::operator::SubgraphOperator'):
        rs = fb.fn(impl['items']['run_subgraph'][1]) if 'run_subgraph' in impl['items'] else None
        if rs is None or not rs.has_mir():
            continue
        for c in rs.calls():
            if c.callee != 'rten::graph::Graph::run_subgraph':
                continue
            n += 1
            og = rs.origins(c.args[3])
            name = impl['self'].split('::')[-1]
            if rs.in_loop(c.bb):
                ok = has_origin_call(og, ('re:CaptureEnv<.*> as core::clone::Clone>::clone$', 're:CaptureEnv::<.*>::child$'))
                ctx.inst(R, 'per-iteration-env:' + name, ok, 'inside a loop each subgraph run gets captures.clone() / captures.child(), never the environment itself', c.loc())
            else:
                moved = c.args[3][0] == 'm' or has_param_origin(og, 2)
                ctx.inst(R, 'single-use-env:' + name, moved and not has_origin_call(og, 're:take_all_inputs$'), 'outside loops the environment is moved into exactly one subgraph run (ownership enforced by the borrow checker)', c.loc())
    ctx.floor(R, 'subgraph runs in SubgraphOperator impls', n, 2)


def loop_outputs(ctx, fb):
    """Loop's outputs are positional ([carried deps..., scan outputs...]).  (accumulate) inside the iteration loop every
    value of a step's scan outputs is pushed to its per-output sequence: the push is control-dependent only on the
    iterator's own Some/None test, so no sequence is shorter than the others (a shorter or empty one is dropped by the
    concatenation loop and shifts every later output one slot left).  (carried) the loop-carried values for the next
    iteration are exactly the drained prefix of the step outputs."""
    R = 'C24.loop-outputs'
    f = None
    for impl in fb.impls(trait='rten::operator::SubgraphOperator'):
        if impl['self'].split('::')[-1] == 'Loop' and 'run_subgraph' in impl['items']:
            f = fb.fn(impl['items']['run_subgraph'][1])
    if not ctx.anchor(R, 'Loop::run_subgraph', f is not None and f.has_mir()):
        return
    pushes = []
    for c in f.calls():
        if not re.search(r'Vec::<T(, A)?>::push$', c.callee or ''):
            continue
        if 'Value' not in f.local_ty(op_local(c.args[0]) if op_local(c.args[0]) is not None else 0):
            continue
        og = f.origins(c.args[0])
        if not any(o[0] == 'call' and re.search(r'IndexMut<.*>>::index_mut$', o[1] or '') for o in og):
            continue
        pushes.append(c)
    if not ctx.anchor(R, 'scan_outputs[i].push(..)', len(pushes) == 1):
        return
    c = pushes[0]
    inner = None
    for h, body in f.loops():
        if c.bb in body and (inner is None or len(body) < len(inner[1])):
            inner = (h, body)
    if not ctx.anchor(R, 'scan output extraction loop', inner is not None):
        return
    bad = []
    for g in f.guards(c.bb):
        if g.bb not in inner[1]:
            continue
        cd = g.cond()
        if cd[0] == 'disc':
            src = f.origins(('c', cd[1])) if isinstance(cd[1], list) else []
            if any(o[0] == 'call' and re.search(r'Iterator>::next$', o[1] or '') for o in src):
                continue
        if cd[0] == 'cmp' and any(o[0] == 'call' and re.search(r'::len$', o[1] or '') for o in f.origins(cd[3])):
            continue    # the bounds check of scan_outputs[i]
        bad.append(g.describe())
    # the cooperating site: the concatenation loop drops a sequence that is empty (written for zero iterations, where all are)
    skips = [k for k in f.calls() if re.search(r'Vec::<T(, A)?>::is_empty$', k.callee or '') and f.in_loop(k.bb) and k.bb not in inner[1]
             and 'Value' in f.local_ty(op_local(k.args[0]) if op_local(k.args[0]) is not None else 0)]
    ctx.note('C24.loop-outputs: ' + ('concatenation loop skips empty sequences at %s' % ', '.join(k.loc() for k in skips) if skips else 'concatenation loop has no empty-sequence skip'))
    if not skips:
        bad = []
    ctx.inst(R, 'accumulate-unconditional', not bad,
             'each step\'s scan output is pushed to its sequence on every path through the extraction loop' if not bad else
             'a step\'s scan output is accumulated only under %s: a sequence that stays shorter/empty is skipped by the concatenation loop, so later Loop outputs shift position' % '; '.join(bad), c.loc())
