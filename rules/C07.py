"""C07 Tensor iterators yield exactly the logical elements in order - double-ended cursor dependence."""
import re
from rulelib import *
from facts import op_int, op_local, op_place
import effects
import loaderlib as L

EXPLANATION = (
    "Effect rule over every `impl DoubleEndedIterator` in rten-tensor and rten-base (field-sensitive read/write sets of "
    "`self`, computed through callees, std accessors treated as aliasing, wrappers resolved down to OffsetsBase): let F be "
    "the state that next() writes and next_back() does not (the front cursor). If F is non-empty, next_back() must read "
    "part of F. With only the shared remaining-count c = total - k - m after k front and m back steps, next_back computes "
    "g(c), which cannot equal element total - 1 - m for all k - so the dependence is a necessary condition for 'mixing "
    "front and back yields each element once' (and for mutable iterators: each &mut at most once). Also: every "
    "ExactSizeIterator has a size_hint whose lower and upper bound are the same value, and every SplitIterator::split_at "
    "either delegates or checks index <= len before stepping. (chunks) AxisChunks / AxisChunksMut keep a remainder exactly "
    "under size(axis) > 0 wherever that is decided (new, next, next_back, split_at), take size % chunk_size elements "
    "from the back, and clamp the split position to the axis size. (carry-order) the offset odometer carries from the "
    "innermost dimension outwards. Order, nth, fold and parallel-split equivalence over all "
    "layouts are value-level and not decided.")
ASSUMPTIONS = ["std iterator adapters are correct"]
DEI = 'core::iter::traits::double_ended::DoubleEndedIterator'
ITER = 'core::iter::traits::iterator::Iterator'


def norm(t):
    return re.sub(r"'[a-z_]+", "'_", t)


INT_TYS = {'usize', 'u64', 'u32', 'isize', 'i64', 'i32', 'u16', 'u8'}


def leaf_ty(fb, adt_path, path):
    """type (string) of the field reached by following named fields from an ADT, looking through arrays / Vec /
    Option / tuple wrappers; None when the walk cannot be resolved"""
    cur = adt_path
    ty = None
    for name in path:
        adt = fb.adt(cur) if cur else None
        if adt is None:
            return None
        nxt = None
        for v in adt['variants']:
            for fd in v['fields']:
                if fd['name'] == name:
                    nxt = fd
                else:
                    # enum payload / tuple struct position: look one level through unnamed fields
                    if fd['name'].isdigit():
                        for a in fd['adts']:
                            sub = fb.adt(a)
                            if sub:
                                for v2 in sub['variants']:
                                    for fd2 in v2['fields']:
                                        if fd2['name'] == name and nxt is None:
                                            nxt = fd2
        if nxt is None:
            return None
        ty = nxt['ty']
        ws = [a for a in nxt['adts'] if a.startswith(('rten_', 'rten::'))]
        cur = ws[0] if ws else None
    return ty


def cursor_paths(fb, impl, paths):
    """the subset of access paths whose leaf is an integer (cursor / counter state); all paths if none resolves"""
    adt = impl.get('self_adt')
    out = set()
    for p in paths:
        t = leaf_ty(fb, adt, p) if adt else None
        if t is not None and t.strip() in INT_TYS:
            out.add(p)
    return out or set(paths)


def dei(ctx, fb, R):
    E = effects.Effects(fb)
    n = 0
    nf = 0
    for crate in ('rten_tensor', 'rten_base'):
        its = {norm(x['self']): x for x in fb.impls(trait=ITER, crate=crate)}
        for i in fb.impls(trait=DEI, crate=crate):
            it = its.get(norm(i['self']))
            name = i['self'].split('::')[-1]
            if it is None or 'next' not in it['items'] or 'next_back' not in i['items']:
                ctx.inst(R, 'impl:' + name, False, 'DoubleEndedIterator impl without a matching Iterator::next to compare with', '%s:%s' % (i['f'], i['l']))
                continue
            n += 1
            rf, wf = E.self_effects(it['items']['next'][1])
            rb, wb = E.self_effects(i['items']['next_back'][1])
            front = cursor_paths(fb, i, set(p for p in wf if p not in wb)) if set(p for p in wf if p not in wb) else set()
            dep = front & rb
            if front:
                nf += 1
            ctx.inst(R, 'next_back-reads-front-cursor:' + name, (not front) or bool(dep),
                     ('next() and next_back() write the same state (%s)' % sorted('.'.join(p) for p in wf)[:3]) if not front else
                     ('front-only state %s; next_back reads %s' % (sorted('.'.join(p) for p in front)[:4], sorted('.'.join(p) for p in dep)[:3] or 'NONE of it - elements already consumed from the front are not taken into account')),
                     fb.fn(i['items']['next_back'][1]).loc(), nontrivial=bool(front))
    ctx.floor(R, 'DoubleEndedIterator impls analysed', n, 15)
    ctx.floor(R, 'impls with a separate front cursor', nf, 10)


def exact(ctx, fb):
    R = 'C07.exact'
    n = 0
    for crate in ('rten_tensor', 'rten_base'):
        its = {norm(x['self']): x for x in fb.impls(trait=ITER, crate=crate)}
        for i in fb.impls(trait='core::iter::traits::exact_size::ExactSizeIterator', crate=crate):
            it = its.get(norm(i['self']))
            name = i['self'].split('::')[-1]
            if it is None:
                continue
            n += 1
            sh = it['items'].get('size_hint')
            if not sh:
                ctx.inst(R, 'size_hint:' + name, False, 'ExactSizeIterator without an overridden size_hint (default is (0, None))', '%s:%s' % (i['f'], i['l']))
                continue
            f = fb.fn(sh[1])
            ok, why = False, ''
            for (bb, j, k, payload, dplace) in f.defs().get(0, []):
                if k == 'call':
                    ok = payload.callee.endswith('::size_hint') or call_is(payload, 're:::size_hint$')
                    why = 'delegates to %s' % payload.callee.split('::')[-2:]
                elif payload[0] == 'agg' and payload[1] == 'tuple' and len(payload[4]) == 2:
                    lo, hi = payload[4]
                    r = f.resolve_copy(hi)
                    inner = r[1][4][0] if (r[0] == 'rv' and r[1][0] == 'agg' and r[1][3] == 'Some' and r[1][4]) else None
                    a = set(o for o in f.origins(lo) if o[0] in ('param', 'call'))
                    b = set(o for o in f.origins(inner) if o[0] in ('param', 'call')) if inner is not None else None
                    ok = b is not None and a == b and bool(a)
                    why = 'returns (n, Some(n)) with both bounds from %s' % sorted(('.'.join(map(str, o[2])) if o[0] == 'param' else o[1].split('::')[-1]) for o in a)[:3]
            ctx.inst(R, 'size_hint:' + name, ok, why or 'size_hint does not return (n, Some(n)) with one value', f.loc())
    ctx.floor(R, 'ExactSizeIterator impls analysed', n, 10)


def split(ctx, fb):
    R = 'C07.split'
    n = 0
    E = effects.Effects(fb)
    its = {norm(x['self']): x for x in fb.impls(trait=ITER, crate='rten_tensor')}
    for i in fb.impls(trait='rten_base::iter::SplitIterator'):
        sa = i['items'].get('split_at')
        if not sa or not sa[1].startswith(('rten_tensor', '<rten_tensor')):
            continue
        f = fb.fn(sa[1])
        if f is None or not f.has_mir():
            continue
        n += 1
        name = i['self'].split('::')[-1]
        deleg = [c for c in f.calls() if ((c.callee or '').endswith(('::split_at', '::split_at_mut')) and c.callee != f.path) or (c.declared or '').endswith('SplitIterator::split_at')]
        checked = False
        for c in f.calls():
            if call_is(c, 're:core::panicking::panic'):
                # the assert's failing branch: reached when !(len >= index)
                for g in f.guards(c.bb):
                    cnd, t = unwrap_not(g.cond(), g.truth())
                    if cnd[0] == 'cmp' and (has_param_origin(f.origins(cnd[2]), 1) or has_param_origin(f.origins(cnd[3]), 1)):
                        checked = True
        ctx.inst(R, 'split_at:' + name, bool(deleg) or checked, 'split_at %s' % ('delegates to an inner split_at' if deleg else 'asserts the split index against the remaining length' if checked else 'neither delegates nor checks index <= len'), f.loc())
        # a split must be relative to what is left: it has to read the cursor state that next() / next_back() advance
        it = its.get(norm(i['self']))
        if it is not None and 'next' in it['items']:
            rn, wn = E.self_effects(it['items']['next'][1])
            rs, ws = E.self_effects(sa[1])
            wn = cursor_paths(fb, i, wn) if wn else wn
            ctx.inst(R, 'split_at-reads-cursor:' + name, (not wn) or bool(wn & rs),
                     'state advanced by next(): %s; split_at reads %s' % (sorted('.'.join(p) for p in wn)[:4], sorted('.'.join(p) for p in (wn & rs))[:3] or 'NONE of it - already yielded items would be yielded again by the halves'), f.loc())
    ctx.floor(R, 'SplitIterator impls in rten-tensor', n, 5)


def run(ctx):
    fb = ctx.fb()
    dei(ctx, fb, 'C07.DEI')
    exact(ctx, fb)
    split(ctx, fb)
    carry_order(ctx, fb)
    chunks(ctx, fb)
    fold_resume(ctx, fb)



def _all_leaves_reversed(ty):
    """every positional source (slice Iter/IterMut, Range) in an iterator type is nested inside a Rev<..>"""
    leaves = [m.start() for m in re.finditer(r'core::slice::iter::(IterMut|Iter)<|core::ops::range::Range<|core::ops::range::RangeInclusive<|alloc::vec::into_iter::IntoIter<', ty)]
    if not leaves:
        return None
    for pos in leaves:
        # bracket-nesting prefixes that are still open at pos
        depth_stack = []
        i = 0
        while i < pos:
            ch = ty[i]
            if ch == '<':
                # name preceding this bracket
                j = i - 1
                while j >= 0 and (ty[j].isalnum() or ty[j] in '_:'):
                    j -= 1
                depth_stack.append(ty[j + 1:i])
            elif ch == '>' and depth_stack:
                depth_stack.pop()
            i += 1
        if not any(n.endswith('rev::Rev') for n in depth_stack):
            return False
    return True


def carry_order(ctx, fb):
    """OffsetsBase treats its positions as a mixed-radix counter: every loop that walks the dimensions to carry or to
    accumulate place values goes from the innermost (last) dimension outwards, i.e. iterates a reversed iterator"""
    R = 'C07.carry-order'
    n = 0
    for f in fb.fns(crate='rten_tensor'):
        if not f.has_mir() or not re.search(r'iterators::OffsetsBase::(step_outer_pos|step_by|offset_from_linear_index|linear_index)$', f.path):
            continue
        for c in f.calls():
            if re.search(r'Iterator>?::next$', c.callee or '') and f.in_loop(c.bb):
                ty = str(c.info.get('ga') or '')
                if not re.search(r'IterPos|Range<usize>', ty):
                    continue
                n += 1
                rev = _all_leaves_reversed(ty)
                ctx.inst(R, 'loop:' + f.path.split('::')[-1], rev is True, 'dimensions are walked innermost-first (reversed iterator)' if rev else
                         'a loop over the dimension positions is not (entirely) reversed: carries / place values would propagate towards the wrong dimension', c.loc())
    ctx.floor(R, 'dimension loops in OffsetsBase', n, 4)



def chunks(ctx, fb):
    """AxisChunks / AxisChunksMut: (keep) the iterator keeps a remainder exactly when `remainder.size(axis) > 0` - the same
    quantity size_hint divides - at every place that decides it (new, next, next_back, split_at), so len() stays exact;
    (back-tail) the chunk taken from the back has the length of the *last forward chunk* (size % chunk_size, or a full
    chunk); (split-clamped) split_at clamps the split position to the axis size"""
    R = 'C07.chunks'
    n = 0
    for f in fb.fns(crate='rten_tensor'):
        if not f.has_mir() or not re.search(r'AxisChunks(Mut)?(<|::)', f.path):
            continue
        m = re.search(r'::(new|next|next_back|split_at)$', f.path)
        if not m:
            continue
        kind = m.group(1)
        which = 'AxisChunksMut' if 'AxisChunksMut' in f.path else 'AxisChunks'
        n += 1
        # keep-predicate: Some(view) for the remainder is built only under `size(..) > 0`
        somes = []
        for i, b in enumerate(f.bbs):
            if b.get('c') or i not in f.live():
                continue
            for st in b['s']:
                if st[0] == '=' and st[2][0] == 'agg' and st[2][3] == 'Some' and 'TensorBase' in f.local_ty(st[1][0]):
                    somes.append((i, st))
        ok = True
        why = ''
        if kind == 'split_at':
            # Some(half).filter(|h| h.size(axis) > 0): every Some flows into an Option::filter whose closure tests size > 0
            fl = [c for c in f.calls() if re.search(r'Option::<T>::filter$', c.callee or '')]
            cl_ok = 0
            for q in fb.closures_of(f.path):
                cf = fb.fn(q)
                if cf is None or not cf.has_mir():
                    continue
                if any(re.search(r'::size$', c.callee or '') for c in cf.calls()) and not any(re.search(r'::is_empty$', c.callee or '') for c in cf.calls()):
                    cl_ok += 1
            ok = len(fl) >= 2 and cl_ok >= 2 and len(somes) >= 2
            why = 'both halves are kept only if their size along the axis is > 0' if ok else 'a half produced by split_at is kept without a `size(axis) > 0` test (an exhausted half would still yield an empty chunk / len() would be inexact)'
        else:
            nrem = 0
            for (bb, st) in somes:
                # the item returned (`Some(current)`) in next/next_back is not a remainder decision: it is assigned to _0
                if st[1] == [0]:
                    continue
                nrem += 1
                g_ok = False
                for (op, a, b_, g) in normalized_cmps(f, bb):
                    if op in ('Gt', 'Ne') and op_int(b_) == 0 and any(o[0] == 'call' and re.search(r'::size$', o[1] or '') for o in f.origins(a)):
                        g_ok = True
                if not g_ok:
                    ok = False
            if nrem == 0:
                ok = False
            why = 'the remainder is kept only under `size(axis) > 0`' if ok else 'no `Some(remainder)` found (anchor lost)' if nrem == 0 else 'the remainder is kept under a test other than `size(axis) > 0` (size_hint counts chunks from size(axis), so len() would disagree with what next() yields)'
        ctx.inst(R, 'keep:%s::%s' % (which, kind), ok, why, f.loc())
        if kind == 'next_back':
            # chunk length from the back depends on size % chunk_size
            sp = [c for c in f.calls() if re.search(r'::split_at(_mut)?$', c.callee or '')]
            ok2 = bool(sp) and all(any(o[0] == 'binop' and o[1].startswith('Rem') for o in f.origins(c.args[2])) for c in sp)
            ctx.inst(R, 'back-tail:%s' % which, ok2, 'the chunk taken from the back has length size % chunk_size (or a full chunk)' if ok2 else
                     'next_back does not take the (possibly shorter) last forward chunk: chunks from the back differ from the forward chunks reversed', f.loc())
        if kind == 'split_at':
            sp = [c for c in f.calls() if re.search(r'TensorBase::<.*>::split_at(_mut)?$|::split_at(_mut)?$', c.callee or '') and 'SplitIterator' not in (c.callee or '')]
            ok3 = bool(sp) and all(any(o[0] == 'call' and re.search(r'::min$', o[1] or '') for o in f.origins(c.args[2])) for c in sp)
            ctx.inst(R, 'split-clamped:%s' % which, ok3, 'the split position chunk_size * index is clamped to the axis size' if ok3 else
                     'split_at does not clamp chunk_size * index to the axis size: splitting at len() panics when the last chunk is short', f.loc())
    ctx.floor(R, 'AxisChunks / AxisChunksMut methods deciding the remainder', n, 8)



def fold_resume(ctx, fb):
    """OffsetsBase::fold resumes a partially consumed iterator: each nested loop starts at the saved position of its
    dimension, which is right only for the *first* pass - every later pass must start at 0.  For each `start..size` Range
    re-created inside an enclosing loop, a non-zero start must be reset within that enclosing loop: either the start is read
    (IterPos::index) inside the enclosing loop and the same position gets set_index(0) there, or it is a local that is
    assigned 0 inside the enclosing loop.  A start computed once outside the loop and never reset makes every later pass
    skip the same prefix (rows skipped, and - since fold stops only when the remaining count reaches zero - elements
    beyond the end yielded: duplicates across split halves, aliased &mut in parallel iter_mut)."""
    R = 'C07.fold-resume'
    fs = [x for x in fb.fns(crate='rten_tensor') if x.has_mir() and re.search(r'iterators::OffsetsBase as core::iter::traits::iterator::Iterator>::fold$', x.path)]
    if not ctx.anchor(R, 'OffsetsBase::fold', len(fs) == 1):
        return
    f = fs[0]
    loops = dict(f.loops())
    n = 0
    for i, b in enumerate(f.bbs):
        if b.get('c') or i not in f.live():
            continue
        for st in b['s']:
            if not (st[0] == '=' and st[2][0] == 'agg' and str(st[2][2]).endswith('ops::range::Range') and len(st[2][4]) == 2):
                continue
            enc = [h for h in f.in_loop(i)]
            if not enc:
                continue       # not re-created per pass
            # innermost enclosing loop
            h = min(enc, key=lambda x: len(loops[x]))
            body = loops[h]
            start = st[2][4][0]
            if op_int(start) == 0:
                continue
            n += 1
            og = f.origins(start)
            ok, why = False, 'start of unrecognised provenance'
            idx_calls = [o for o in og if o[0] == 'call' and (o[1] or '').endswith('IterPos::index')]

            def local_reset(op):
                root = op_local(op)
                for _ in range(4):
                    d = f.defs().get(root, [])
                    if len(d) == 1 and d[0][2] == 'rv' and d[0][3][0] == 'use' and op_local(d[0][3][1]) is not None:
                        root = op_local(d[0][3][1])
                    else:
                        break
                return any(d[2] == 'rv' and d[3][0] == 'use' and op_int(d[3][1]) == 0 and d[0] in body for d in f.defs().get(root, []))
            if local_reset(start):
                ok, why = True, 'start is a local that is assigned 0 inside the enclosing loop after the first pass'
            elif idx_calls:
                in_body = [o for o in idx_calls if o[2] in body]
                if len(in_body) == len(idx_calls):
                    # the same position is set to 0 inside the enclosing loop
                    recv = set()
                    for o in in_body:
                        for c in f.calls():
                            if c.bb == o[2]:
                                recv |= {x for x in f.origins(c.args[0]) if x[0] in ('param', 'call', 'const')}
                    resets = [c for c in f.calls() if (c.callee or '').endswith('IterPos::set_index') and c.bb in body and op_int(c.args[1]) == 0
                              and ({x for x in f.origins(c.args[0]) if x[0] in ('param', 'call', 'const')} & recv or not recv)]
                    ok = bool(resets)
                    why = 'start = pos.index() read inside the enclosing loop, and that position is set_index(0) there' if ok else 'the position read for the start is never reset to 0 inside the enclosing loop'
                else:
                    why = 'the saved position is read once outside the enclosing loop and never refreshed: every pass resumes at the same index'
            else:
                l = op_local(start)
                root = l
                for _ in range(4):
                    d = f.defs().get(root, [])
                    if len(d) == 1 and d[0][2] == 'rv' and d[0][3][0] == 'use' and op_local(d[0][3][1]) is not None:
                        root = op_local(d[0][3][1])
                    else:
                        break
                ds = f.defs().get(root, [])
                zero_in_body = any(d[2] == 'rv' and d[3][0] == 'use' and op_int(d[3][1]) == 0 and d[0] in body for d in ds)
                ok = zero_in_body
                why = 'start is a local that is assigned 0 inside the enclosing loop after the first pass' if ok else 'start is computed once and never reset to 0 inside the enclosing loop: every pass resumes at the same index'
            ctx.inst(R, 'range-start-reset#%d' % n, ok, why if ok else why + ' (rows are skipped on every later pass and the fold, which ends only on its element count, runs past the end)', f.loc(st[3] if len(st) > 3 and isinstance(st[3], int) else None))
    ctx.floor(R, 'resumable nested loops in OffsetsBase::fold', n, 2)
