"""C31 Logit filters implement their contracts for all inputs (structural clauses: no filter panics, K clamp, ordering comparator, non-empty top-P, chain)."""
import re
from rulelib import *
from rulelib import _rv_operands
from facts import op_int, op_local, op_place
import C02
from callgraph import CallGraph

EXPLANATION = (
    "Decided structurally for every input: (panic-sites) every panic-capable site (unwrap/expect, slice and Vec indexing, range "
    "slicing, chunks_exact, bounds/overflow asserts, explicit asserts) in the functions reachable from any impl of "
    "LogitsFilter::filter in rten_generate is discharged by a dominating guard or clamp visible in the MIR - K is clamped to "
    "min(K, n) before it is used as a take count or range start, last()/last_mut() are unwrapped only under K != 0 for the "
    "clamped K, pairs[k] only under k < pairs.len(), Logits::sparse is called only with the two halves of one unzip - or by a "
    "reviewed table entry; a new site is a violation. (order) every sort in the filters uses a comparator built from "
    "f32::total_cmp followed by reverse (total order, descending; NaNs cannot panic or break the sort), the initial top-K list "
    "and every update re-sort before the K-th score is read, and all returns of SimdTopK::eval are preceded by a sort. "
    "(top-p-nonempty) the top-P threshold is max(p, f32::MIN_POSITIVE), the cumulative sum starts at zero and the loop is "
    "guarded by cum < threshold && k < len, so the first candidate is always kept for a non-empty input; the result is "
    "truncated to the counted k. (chain) Chain::filter folds every filter exactly once in order with the caller's prev_tokens. "
    "(order) TopK replaces its K-th entry only under total_cmp and skips a SIMD chunk only if all lanes are < the K-th value; "
    "TopP / Sort sort every candidate of the input. That the K kept are the K largest and that the kept prefix is the shortest "
    "are value-level and not decided.")
ASSUMPTIONS = ["a SIMD vector length (BitOps::len) is non-zero", "Vec/slice/iterator std semantics"]
CRATE = 'rten_generate'
FILTER_TRAIT = 'rten_generate::filter::LogitsFilter'


def run(ctx):
    fb = ctx.fb()
    T = ctx.tables
    fns = scope(fb)
    ctx.floor('C31.panic-sites', 'functions reachable from LogitsFilter::filter impls', len(fns), 8)
    panic_census(ctx, fb, fns, T)
    order(ctx, fb, fns)
    top_p(ctx, fb)
    all_candidates(ctx, fb)
    chain(ctx, fb)
    topk_clamp(ctx, fb)


def scope(fb):
    cg = CallGraph(fb)
    roots = []
    for imp in fb.impls(trait=FILTER_TRAIT):
        p = imp['items'].get('filter', (None, None))[1]
        if p:
            roots.append(p)
    seen = set()
    work = list(roots)
    while work:
        p = work.pop()
        if p in seen:
            continue
        f = fb.fn(p)
        if f is None or not f.has_mir() or getattr(f.crate, 'name', None) != CRATE:
            continue
        seen.add(p)
        for (callee, c, how) in cg.callees(f):
            if callee not in seen:
                work.append(callee)
        # SimdOp::dispatch of a local op struct runs its eval
        for c in f.calls():
            if (c.callee or '').endswith('SimdOp::dispatch'):
                for imp in fb.impls(trait='rten_simd::dispatch::SimdOp', crate=CRATE):
                    ep = imp['items'].get('eval', (None, None))[1]
                    if ep:
                        work.append(ep)
    return [fb.fn(p) for p in sorted(seen)]


def short(f):
    return re.sub(r'rten_generate::|rten_simd::dispatch::', '', f.path)[-70:]


def clamped_to_len(fb, f, op):
    """operand = min(_, <slice>.len()) (possibly captured)"""
    og, of = outer_origins(fb, f, op)
    for ff, oo in ((of, og), (f, f.origins(op))):
        for o in oo:
            if o[0] == 'call' and re.search(r'cmp::Ord::min$|::min$', o[1] or ''):
                for c in ff.calls():
                    if c.bb == o[2] and c.callee == o[1]:
                        for a in c.args:
                            if any(x[0] == 'call' and (x[1] or '').endswith('::len') or x[0] == 'len_of' for x in ff.origins(a)):
                                return True
    return False


def guard_nonzero(fb, f, bb, pred):
    for (gf, g) in C02.inherited_guards(fb, f, bb):
        cnd, t = unwrap_not(g.cond(), g.truth())
        if cnd[0] == 'cmp' and t is not None:
            op = cnd[1] if t else NEG[cnd[1]]
            for x, y in ((cnd[2], cnd[3]), (cnd[3], cnd[2])):
                if op == 'Ne' and op_int(y) == 0 and pred(gf, x):
                    return True
                if op == 'Gt' and x is cnd[2] and op_int(y) == 0 and pred(gf, x):
                    return True
    return False


def guard_lt_len(f, bb, idx_op, base_local):
    """a dominating guard idx < len(base)"""
    il = op_local(idx_op)
    for (op, a, b, g) in normalized_cmps(f, bb):
        if op == 'Lt' and op_local(a) is not None:
            same = op_local(a) == il or (f.origins(a) & f.origins(idx_op) and any(o[0] != 'const' for o in f.origins(a) & f.origins(idx_op)))
            if same and any((o[0] == 'call' and (o[1] or '').endswith('::len')) or o[0] == 'len_of' for o in f.origins(b)):
                return True
    return False


def panic_census(ctx, fb, fns, T):
    R = 'C31.panic-sites'
    rev = {e['key']: e['reason'] for e in T.get('panic_reviewed', [])}
    used = set()
    n = 0
    cnt = {}
    for f in fns:
        for s in panic_sites(f, include_overflow=True):
            if s['kind'] in ('assert:Overflow:Neg',):
                pass
            n += 1
            c = s['call']
            what = (s['detail'].split('::')[-1] if c is not None else s['kind'])
            base = '%s|%s' % (short(f), what)
            cnt[base] = cnt.get(base, 0) + 1
            key = '%s#%d' % (base, cnt[base])
            ok, why = discharge(fb, f, s)
            if not ok and key in rev:
                used.add(key)
                ok, why = True, 'reviewed: ' + rev[key]
            ctx.inst(R, key, ok, why if ok else 'panic-capable site %s in a function reachable from LogitsFilter::filter is neither discharged by a dominating guard/clamp nor reviewed%s' % (
                s['detail'], (' (' + why + ')') if why else ''), f.loc(s['line']))
    ctx.floor(R, 'panic-capable sites in filter scope', n, 9)
    for k in rev:
        if k not in used:
            ctx.note('C31 panic_reviewed entry %s matches no undischarged site any more: entry can be dropped' % k)


def discharge(fb, f, s):
    c = s['call']
    if c is not None:
        cal = c.callee or ''
        if re.search(r'Option::<T>::(unwrap|expect)$', cal):
            r = f.resolve_copy(c.args[0])
            if r[0] == 'call' and re.search(r'<impl \[T\]>::(last|last_mut|first|first_mut)$', r[1].callee or ''):
                if guard_nonzero(fb, f, c.bb, lambda gf, x: clamped_to_len(fb, gf, x)):
                    return True, 'last()/first() of the running top-K list is unwrapped only under K != 0 for K = min(K, n) (the list has K >= 1 entries)'
                return False, 'no dominating `K != 0` test on the clamped K'
            return False, ''
        if re.search(r'index::<impl core::ops::index::Index<I> for \[T\]>::index$', cal):
            r = f.resolve_copy(c.args[1])
            if r[0] == 'rv' and r[1][0] == 'agg' and 'RangeFrom' in str(r[1][2]):
                if clamped_to_len(fb, f, r[1][4][0]):
                    return True, 'slice[K..] with K = min(K, slice length)'
                return False, 'range start is not clamped to the slice length'
            return False, ''
        if re.search(r'<impl \[T\]>::chunks_exact$', cal):
            if any(o[0] == 'call' and (o[1] or '').endswith('BitOps::len') for o in f.origins(c.args[1])):
                return True, 'chunk size is a SIMD vector length (non-zero)'
            return False, 'chunk size is not a vector length'
        if re.search(r'Vec<T, A> as core::ops::index::Index<I>>::index$|Index<I>>::index$', cal):
            base = op_local(c.args[0])
            if guard_lt_len(f, c.bb, c.args[1], base):
                return True, 'index is used only under index < len'
            return False, 'no dominating index < len guard'
        if re.search(r'panicking::(assert_failed|panic|panic_fmt)', cal):
            # constructor contracts of Logits: all callers in scope must satisfy them
            if f.path.endswith('Logits::sparse'):
                return sparse_callers_ok(fb)
            return False, ''
        return False, ''
    if s['kind'] == 'assert:BoundsCheck':
        return False, ''
    if s['kind'].startswith('assert:Overflow:Add'):
        # k += 1 under k < len
        ops = s.get('ops') or []
        for o in ops:
            if op_local(o) is not None and guard_lt_len(f, s['bb'], o, None):
                return True, 'increment of a counter that is < len (cannot overflow)'
        return False, 'unguarded increment'
    return False, ''


def direct_source(f, op, depth=8):
    """(Call, field path) if the operand is, through plain moves/copies only, a (field of the) result of a call"""
    pl = op_place(op)
    fields = []
    while pl is not None and depth > 0:
        depth -= 1
        flds = [str(e[1]) for e in pl[1:] if isinstance(e, list) and e[0] == 'f']
        fields = flds + fields
        ds = f.defs().get(pl[0], [])
        ds = [d for d in ds if len(d[4]) == 1]
        if len(ds) != 1:
            return None
        d = ds[0]
        if d[2] == 'call':
            return (d[3], tuple(fields))
        rv = d[3]
        if rv[0] == 'use' and op_place(rv[1]) is not None:
            pl = op_place(rv[1])
            continue
        return None
    return None


def sparse_callers_ok(fb):
    bad = []
    n = 0
    for f, c in callers_of(fb, 're:Logits::sparse$', crates=[CRATE]):
        if not re.search(r'/filter\.rs$|/sampler\.rs$|/logits\.rs$', f.file):
            continue
        n += 1
        a, b = c.args[0], c.args[1]
        sa, sb = direct_source(f, a), direct_source(f, b)
        # the two halves of one unzip()
        if sa and sb and sa[0].bb == sb[0].bb and (sa[0].callee or '').endswith('::unzip') and sa[1] != sb[1]:
            continue
        # both halves of one into_logits_indices() whose vectors are not resized in between
        resized = [x for x in f.calls() if re.search(r'Vec<T, A>::(push|pop|truncate|retain|extend|insert|remove|swap_remove|clear|drain|resize|append|dedup\w*|split_off)$|::extend$', x.callee or '')]
        if sa and sb and sa[0].bb == sb[0].bb and (sa[0].callee or '').endswith('::into_logits_indices') and sa[1] != sb[1] and not resized:
            continue
        bad.append(c.loc())
    if bad:
        return False, 'Logits::sparse is called at %s with vectors that are not the two halves of one unzip (length equality not evident)' % bad[0]
    if n < 4:
        return False, 'fewer Logits::sparse call sites than reviewed (%d)' % n
    return True, 'all %d filter call sites pass the two halves of one unzip (equal lengths)' % n


# ---------------------------------------------------------------------------------------------------------------
def closure_calls(fb, f, depth=3):
    """callee names in f and, for closure arguments, in the closures (and closures they reference)"""
    out = [(c.callee or '') for c in f.calls()]
    return out


def comparator_ok(fb, f, closure_path, depth=3):
    """the comparator closure (or a closure it calls) computes total_cmp(..).reverse()"""
    cf = fb.fn(closure_path)
    if cf is None or not cf.has_mir() or depth < 0:
        return False
    names = [(c.callee or '') for c in cf.calls()]
    if any(n.endswith('f32::total_cmp') or n.endswith('::total_cmp') for n in names) and any(n.endswith('Ordering::reverse') or n.endswith('::reverse') for n in names):
        # reverse applied to the total_cmp result
        for c in cf.calls():
            if (c.callee or '').endswith('reverse'):
                if any(o[0] == 'call' and (o[1] or '').endswith('total_cmp') for o in cf.origins(c.args[0])):
                    return True
        return False
    for c in cf.calls():
        cal = c.callee or ''
        if '{closure#' in cal and comparator_ok(fb, cf, c.info.get('r') or cal, depth - 1):
            return True
    return False


def order(ctx, fb, fns):
    R = 'C31.order'
    n = 0
    cnt = {}
    for f in fns:
        for c in f.calls():
            if re.search(r'<impl \[T\]>::sort(_unstable)?_by$', c.callee or ''):
                n += 1
                # comparator closure type from the generic args
                ga = str(c.info.get('ga') or '')
                cl = None
                for p in fb.closures_of(f.path if '{closure#' not in f.path else f.o.get('parent', f.path)) + fb.closures_of(f.path):
                    r = f.resolve_copy(c.args[1])
                    if r[0] == 'rv' and r[1][0] == 'agg' and r[1][1] == 'closure' and r[1][2] == p:
                        cl = p
                base = short(f)
                cnt[base] = cnt.get(base, 0) + 1
                ok = cl is not None and comparator_ok(fb, f, cl)
                ctx.inst(R, 'comparator:%s#%d' % (base, cnt[base]), ok, 'sort comparator is total_cmp(..).reverse(): total order, descending' if ok else
                         'a sort in the filters does not use total_cmp(..).reverse(): NaNs or ties can panic/misorder, or the order is not descending', c.loc())
            elif re.search(r'<impl \[T\]>::sort(_unstable)?(_by_key)?$|sort_floats', c.callee or ''):
                n += 1
                ctx.inst(R, 'comparator:%s' % short(f), False, 'a sort without the total-order comparator', c.loc())
    ctx.floor(R, 'sorts in the filters', n, 4)
    # SimdTopK::eval: every return is preceded by a sort; the update closure re-sorts after replacing the last entry
    ev = [f for f in fns if f.path.endswith('SimdOp>::eval') and 'SimdTopK' in f.path]
    if not ev:
        ctx.inst(R, 'anchor:SimdTopK::eval', False, 'SimdTopK::eval not found', '')
        return
    f = ev[0]
    sorts = [c for c in f.calls() if re.search(r'::sort_by$', c.callee or '')]
    ok = bool(sorts) and all(any(f.dominates(s.bb, rb) for s in sorts) for rb in f.return_blocks())
    ctx.inst(R, 'topk:sorted-before-return', ok, 'every return of SimdTopK::eval is dominated by the sort of the running list', f.loc())
    up = [fb.fn(p) for p in fb.closures_of(f.path)]
    okc = False
    for cf in up:
        if cf is None or not cf.has_mir():
            continue
        lm = [c for c in cf.calls() if (c.callee or '').endswith('::last_mut')]
        so = [c for c in cf.calls() if re.search(r'::sort_by$', c.callee or '')]
        la = [c for c in cf.calls() if re.search(r'<impl \[T\]>::last$', c.callee or '')]
        if lm and so and la:
            # replace last -> sort -> read K-th: sort dominates the read and is dominated by the write
            okc = all(cf.dominates(m.bb, s.bb) for m in lm for s in so) and all(any(cf.dominates(s.bb, l.bb) for s in so) for l in la)
    # "ties and NaNs handled by total order": the decision to replace the K-th entry is a total_cmp result, not a partial
    # float comparison (`>` is false for NaN and for 0.0 vs -0.0); and chunks are skipped only when *every* lane is `<` the
    # K-th value (a superset test: `any(x > kth)` would also skip NaN lanes and equal-but-differently-ordered values)
    tot, part = 0, []
    for cf in up:
        if cf is None or not cf.has_mir():
            continue
        lm = [c for c in cf.calls() if (c.callee or '').endswith('::last_mut')]
        for m in lm:
            for g in cf.guards(m.bb):
                c, t = unwrap_not(g.cond(), g.truth())
                if c[0] == 'cmp' and any('f32' in cf.local_ty(op_local(x) or 0) or 'f64' in cf.local_ty(op_local(x) or 0) for x in (c[2], c[3]) if op_local(x) is not None):
                    part.append('%s at %s' % (c[1], cf.loc()))
                if c[0] == 'call' and re.search(r'Ordering::is_(gt|lt|ge|le)$', c[1].callee or '') and any(o[0] == 'call' and re.search(r'::total_cmp$', o[1] or '') for o in cf.origins(c[1].args[0])):
                    tot += 1
                if c[0] == 'disc' or c[0] == 'cmp':
                    og = cf.origins(c[1] if c[0] == 'disc' and not isinstance(c[1], list) else (['c', c[1]] if c[0] == 'disc' else c[2]))
                    if any(o[0] == 'call' and re.search(r'::total_cmp$', o[1] or '') for o in og):
                        tot += 1
    ctx.inst(R, 'topk:update-by-total-order', tot >= 1 and not part, 'the K-th entry is replaced only under a total_cmp(..) test' if tot >= 1 and not part else
             'the K-th entry is replaced under a partial float comparison (%s): NaNs never enter the list / a leading -NaN is never displaced / 0.0 does not displace -0.0, contrary to the total order' % ('; '.join(part) or 'no total_cmp guard found'), f.loc())
    skips = [c for c in f.calls() if re.search(r'MaskOps<.*>>?::(any|all|all_false)$|::(any|all|all_false)$', c.callee or '') and f.in_loop(c.bb) and 'Mask' in f.local_ty(op_local(c.args[1]) or 0)] if False else \
        [c for c in f.calls() if re.search(r'::(any|all|all_false)$', c.callee or '') and f.in_loop(c.bb) and len(c.args) == 2 and any(o[0] == 'call' and re.search(r'::(gt|ge|lt|le)$', o[1] or '') for o in f.origins(c.args[1]))]
    oks = bool(skips)
    desc = []
    for c in skips:
        kind = (c.callee or '').split('::')[-1]
        cmpk = sorted({(o[1] or '').split('::')[-1] for o in f.origins(c.args[1]) if o[0] == 'call' and re.search(r'::(gt|ge|lt|le)$', o[1] or '')})
        desc.append('%s(%s)' % (kind, '/'.join(cmpk)))
        if not (kind == 'all' and cmpk in (['lt'], ['le'])):
            oks = False
    ctx.inst(R, 'topk:chunk-skip-is-superset', oks, 'a chunk is skipped only when all lanes compare `<` the K-th value (%s): NaN and equal lanes are examined individually' % ', '.join(desc) if oks else
             'the vectorized pre-check is %s: lanes for which the partial comparison is false (NaN, zeros of the other sign) are skipped although the total order may rank them above the K-th value' % (', '.join(desc) or 'not found'), skips[0].loc() if skips else f.loc())
    ctx.inst(R, 'topk:update-resorts', okc, 'the update closure replaces the last entry, re-sorts, then reads the new K-th score', f.loc())


def top_p(ctx, fb):
    R = 'C31.top-p'
    f = fb.fn('<rten_generate::filter::TopP as rten_generate::filter::LogitsFilter>::filter')
    if f is None or not f.has_mir():
        ctx.inst(R, 'anchor', False, 'TopP::filter not found', '')
        return
    mx = [c for c in f.calls() if re.search(r'f32::max$|::max$', c.callee or '')]
    ok = False
    for c in mx:
        og = set()
        for a in c.args:
            og |= f.origins(a)
        if any(o[0] == 'param' and o[1] == 0 for o in og) and any(o[0] in ('const', 'named_const') and re.search(r'MIN_POSITIVE|1\.17549435e-38|1\.1754944e-38', str(o[1])) for o in og):
            ok = True
    ctx.inst(R, 'threshold-positive', ok, 'threshold = max(self.cumulative_prob, f32::MIN_POSITIVE) > 0', f.loc())
    # loop guard cum < threshold && k < len; truncate(k)
    tr = [c for c in f.calls() if (c.callee or '').endswith('::truncate')]
    idx = [c for c in f.calls() if re.search(r'Index<I>>::index$', c.callee or '')]
    ok2 = bool(tr) and bool(idx)
    if ok2:
        kk = idx[0].args[1]
        ok2 = root_var(f, tr[0].args[1]) == root_var(f, kk) and root_var(f, kk) is not None
        # the loop exit test compares the accumulated sum with the threshold
        cmps = [g for g in guards_cmp(f, idx[0].bb)]
        thr = any(op in ('Lt', 'Le') and any(o[0] == 'call' and re.search(r'::max$', o[1] or '') for o in f.origins(b)) and t is True for (g, op, a, b, t) in cmps)
        ok2 = ok2 and thr
    ctx.inst(R, 'prefix-loop', ok2, 'candidates are counted while cum < threshold && k < len (sum starts below the positive threshold: the first candidate is always kept) and the list is truncated to the counted k', f.loc())

def all_candidates(ctx, fb):
    """top-P's never-empty guarantee and 'shortest highest-probability prefix' are stated over *all* candidates: the list
    that is sorted and cut (TopP, Sort) is collected from zip(logits, indices) with no element-dropping or reordering
    adaptor in between (filter / take_while / skip ...), so a non-empty input gives a non-empty list for the prefix loop"""
    R = 'C31.top-p'
    OKAD = r'Iterator::(zip|map|enumerate|copied|cloned)$|IntoIterator>::into_iter$|<impl \[T\]>::iter$'
    n = 0
    for name in ('TopP', 'Sort'):
        f = fb.fn('<rten_generate::filter::%s as rten_generate::filter::LogitsFilter>::filter' % name)
        if f is None or not f.has_mir():
            continue
        cols = [c for c in f.calls() if re.search(r'Iterator::collect$', c.callee or '')]
        for c in cols:
            n += 1
            cur, chain, ok, bad = c.args[0], [], False, None
            for _ in range(8):
                r = f.resolve_copy(cur)
                if r[0] != 'call':
                    break
                cal = r[1].callee or ''
                if cal.endswith('Logits::into_logits_indices'):
                    ok = True
                    break
                chain.append(cal.split('::')[-1])
                if not re.search(OKAD, cal) or not r[1].args:
                    bad = cal.split('::')[-1]
                    break
                cur = r[1].args[0]
            if not ok and bad is None:
                # the first zip operand is a field of the (logits, indices) tuple returned by into_logits_indices
                ok = any(o[0] == 'call' and (o[1] or '').endswith('Logits::into_logits_indices') for o in f.origins(cur))
            ctx.inst(R, 'all-candidates:' + name, ok and bad is None,
                     'the sorted list is collected from every (score, id) pair of the input (chain: %s)' % ' <- '.join(chain) if ok and bad is None else
                     'the candidate list passes through `%s` before it is collected: candidates are dropped before the prefix is taken, so the result can be empty for a non-empty input (or is not a prefix of the full ranking)' % (bad or '?'), c.loc())
    ctx.floor(R, 'candidate lists collected in TopP / Sort', n, 2)


def root_var(f, op, depth=6):
    l = op_local(op)
    while l is not None and depth > 0:
        depth -= 1
        ds = f.defs().get(l, [])
        if len(ds) == 1 and ds[0][2] != 'call' and ds[0][3][0] == 'use' and op_local(ds[0][3][1]) is not None:
            l = op_local(ds[0][3][1])
            continue
        break
    return l


def chain(ctx, fb):
    R = 'C31.chain'
    f = fb.fn('<rten_generate::filter::Chain as rten_generate::filter::LogitsFilter>::filter')
    if f is None or not f.has_mir():
        ctx.inst(R, 'anchor', False, 'Chain::filter not found', '')
        return
    folds = [c for c in f.calls() if re.search(r'Iterator>?::fold$', c.callee or '')]
    ok = len(folds) == 1
    why = 'Chain::filter is a single fold over self.filters'
    if ok:
        c = folds[0]
        # iterator: iter() of self.filters without element-dropping adaptors
        r = f.resolve_copy(c.args[0])
        ok = r[0] == 'call' and re.search(r'<impl \[T\]>::iter$', r[1].callee or '') is not None and any(o[0] == 'param' and o[1] == 0 and 'filters' in [str(x) for x in o[2]] for o in f.origins(r[1].args[0]))
        if not ok:
            why = 'the fold does not iterate self.filters.iter() directly (an adaptor could drop or reorder filters)'
        # init = the logits parameter
        ok = ok and any(o[0] == 'param' and o[1] == 1 for o in f.origins(c.args[1]))
        # closure applies f.filter(acc, prev_tokens)
        cl = [fb.fn(p) for p in fb.closures_of(f.path)]
        okc = False
        for cf in cl:
            if cf is None or not cf.has_mir():
                continue
            calls = [x for x in cf.calls() if (x.callee or '').endswith('LogitsFilter::filter')]
            if len(calls) == 1 and len(list(cf.calls())) == 1:
                x = calls[0]
                okc = any(o[0] == 'param' and o[1] == 1 for o in cf.origins(x.args[1])) and any(o[0] == 'param' and o[1] == 2 for o in cf.origins(x.args[0])) and any(o[0] == 'upvar' for o in cf.origins(x.args[2]))
        ok = ok and okc
        if not okc:
            why = 'the fold closure is not `|acc, f| f.filter(acc, prev_tokens)`'
    ctx.inst(R, 'fold-all-in-order', ok, why if not ok else 'Chain::filter folds self.filters.iter() from the input logits with `|acc, f| f.filter(acc, prev_tokens)`', f.loc())


def topk_clamp(ctx, fb):
    R = 'C31.topk'
    ev = [f for f in fb.fns(crate=CRATE) if f.path.endswith('SimdOp>::eval') and 'SimdTopK' in f.path and f.has_mir()]
    if not ev:
        ctx.inst(R, 'anchor', False, 'SimdTopK::eval not found', '')
        return
    f = ev[0]
    tk = [c for c in f.calls() if re.search(r'Iterator>?::take$', c.callee or '')]
    ok = bool(tk) and all(clamped_to_len(fb, f, c.args[1]) for c in tk)
    ctx.inst(R, 'take-min-k-n', ok, 'the initial list takes min(K, n) candidates', f.loc())
    # TopK::filter returns its input unchanged (unsorted) only when it is empty
    tf = fb.fn('<rten_generate::filter::TopK as rten_generate::filter::LogitsFilter>::filter')
    if tf is None or not tf.has_mir():
        ctx.inst(R, 'anchor:TopK::filter', False, 'TopK::filter not found', '')
    else:
        bad = None
        nret = 0
        for (bb, j, kind, payload, dplace) in tf.defs().get(0, []):
            nret += 1
            if kind == 'call':
                continue
            og = tf.origins(['c', [0]]) if False else set()
            for o in _rv_operands(payload):
                og |= tf.origins(o)
            if any(o[0] == 'param' and o[1] == 1 for o in og) and not any(o[0] == 'call' and (o[1] or '').endswith('::unzip') for o in og):
                if not guards_call(tf, bb, 're:Logits::is_empty$', truth=True):
                    bad = tf.loc(tf.bbs[bb]['s'][j][3] if isinstance(j, int) and len(tf.bbs[bb]['s'][j]) > 3 else None)
        ctx.inst(R, 'unchanged-only-if-empty', bad is None and nret >= 2, 'TopK::filter returns its input as-is only under logits.is_empty(); every other result comes from the sorted top-K list' if bad is None else
                 'TopK::filter returns its (unsorted) input on a path that is not the empty-input path: the descending-order contract is lost there', bad or tf.loc())
    ctx.inst(R, 'filter-unzip-pairs', sparse_callers_ok(fb)[0], sparse_callers_ok(fb)[1], f.loc())
