"""C20 A model converted to .rten behaves like the ONNX original (cross-implementation table agreement, structural)."""
import ast as pyast_mod
import os
import re
from rulelib import *
from rulelib import _rv_operands
from facts import op_int, op_local, op_place
import pyast

# no reduced-feature configurations: the comparison needs the ONNX registry with every operator feature enabled

EXPLANATION = (
    "Two implementations turn an ONNX node into an rten operator: the Rust ONNX loader (op_registry/onnx_registry.rs) and the "
    "Python converter (rten-convert/converter.py, whose output the .rten loader reads back). Their per-operator attribute "
    "tables are extracted without running either - the Rust one from the resolved MIR of every impl of ReadOp (attribute name "
    "literals passed to Attrs::get/get_as/get_as_int/require/check_eq/check/check_unused in read(), its closures and the helper "
    "functions it calls, with the literal default that follows through ?/map/transpose/unwrap_or), the Python one from the "
    "ast of op_node_from_onnx_operator (attr_reader.get_attr/get_bool_attr/get_enum_attr/require_attr/check_attr/ignore_attr/"
    "generate_input_from_attr, helper functions followed) - and compared: (op-set) every default-domain operator registered in "
    "Rust that reads attributes has a converter case and vice versa; (honoured) an attribute honoured by one side is honoured "
    "by the other, not ignored or merely checked; (defaults) where both sides give a literal default for the same honoured "
    "attribute the literals are equal after bool/int/float normalisation; (checks) constants that an attribute is checked "
    "against agree; (reject-unknown) the Rust ONNX loader rejects a node with attributes its reader did not consume, whereas the "
    "converter only warns and drops them - so an attribute honoured by Rust but unknown to the converter is a violation; (narrowing) the ONNX loader's i64 -> i32 constant narrowing mentions both i32 bounds and the "
    "converter's every astype(np.int32) follows a clip to the i32 range or widens; (const-dtypes) every constant element "
    "type the converter accepts has an arm in the ONNX loader; (onnx-wire) the Rust ONNX parser accepts packed and unpacked "
    "repeated scalars like the protobuf library the converter uses; (rank-defaults) an omitted strides / pads / dilations attribute falls back to vec![k; n] with n taken from the node in the ONNX loader, the converter passes no fixed-length list literal as such a default, and a fixed-length default in the .rten reader (vec_from_attr) is used only for fields the converter always writes. Differences are violations unless listed in the reviewed exception table "
    "with the reason they are behaviour-neutral. Equality of the outputs of the two paths is NOT decided.")
ASSUMPTIONS = ["attribute names are string literals at the accessor call sites on both sides (checked: a non-literal name is a violation)",
               "the .rten reader (rten_registry.rs) is a field-by-field copy of what the converter wrote (schema defaults are not compared)"]
RO = 'rten::op_registry::onnx_registry::ReadOp'
ATTR = re.compile(r"onnx_registry::Attrs::<'a>::(get|get_as|get_as_int|require|check_eq|check|check_unused)$")
KIND = {'get': 'get', 'get_as': 'get', 'get_as_int': 'get', 'require': 'get', 'check_eq': 'check', 'check': 'check', 'check_unused': 'ignore'}
PASS = re.compile(r'(Try>::branch$|Option::<T>::(map|filter|and_then|transpose|copied|cloned|as_ref|as_deref|or|xor|inspect)$|Result::<T, E>::(map|and_then|transpose|ok)$|Option::<core::result::Result<T, E>>::transpose$|::into$|::from$|::try_into$|::try_from$|AsUsize>?::as_usize$)')


def repo_root(fb):
    return os.environ.get('VERIF_REPO', '/repo')


def run(ctx):
    fb = ctx.fb()
    T = ctx.tables
    rt, nonlit = rust_table(fb)
    conv = os.path.join(repo_root(fb), 'rten-convert', 'rten_convert', 'converter.py')
    ctx.inst('C20.op-set', 'anchor:converter.py', os.path.exists(conv), 'converter source found' if os.path.exists(conv) else 'rten-convert/rten_convert/converter.py not found', '', nontrivial=False)
    if not os.path.exists(conv):
        return
    pt, _ = pyast.op_table(conv)
    schema_ops = pyast.schema_operator_types(os.path.join(os.path.dirname(conv), 'schema_generated.py'))
    ctx.floor('C20.op-set', 'operator types in the .rten schema', len(schema_ops), 100)
    ctx.floor('C20.op-set', 'impls of ReadOp (Rust ONNX registry)', len(rt), 150)
    ctx.floor('C20.op-set', 'converter cases with attribute handling', len(pt), 75)
    for (f, loc) in nonlit:
        ctx.inst('C20.op-set', 'literal-name:' + f, False, 'an attribute accessor is called with a non-literal name', loc)
    compare(ctx, rt, pt, T, schema_ops)
    reject_unknown(ctx, fb, conv)
    narrowing(ctx, fb, conv)
    const_dtypes(ctx, fb, conv)
    wire_repeated(ctx, fb)
    rank_defaults(ctx, fb, conv, rt)


# ---------------------------------------------------------------------------------------------------------------
def const_str(f, op):
    for o in f.origins(op):
        if o[0] == 'const' and str(o[1]).startswith('"'):
            return str(o[1]).strip('"')
    return None


def attr_calls(fb, f, seen=None, depth=3):
    out = []
    seen = seen if seen is not None else set()
    if f is None or not f.has_mir() or f.path in seen:
        return out
    seen.add(f.path)
    for c in f.calls():
        m = ATTR.search(c.callee or '')
        if m and len(c.args) >= 2:
            out.append((m.group(1), const_str(f, c.args[1]), c, f))
        elif depth > 0:
            r = c.info.get('r')
            if r and r.startswith('rten::op_registry::onnx_registry::') and not ATTR.search(r) and 'Attr::' not in r and 'Attr<' not in r:
                out += attr_calls(fb, fb.fn(r), seen, depth - 1)
    for q in fb.closures_of(f.path):
        out += attr_calls(fb, fb.fn(q), seen, depth)
    return out


def _default_of(f, c):
    """literal default applied to the result of an attribute accessor call: follow the consumer chain"""
    cur = set([c.dest[0]]) if c.dest else set()
    seen = set()
    for _ in range(12):
        nxt = set()
        for l in cur:
            if l in seen:
                continue
            seen.add(l)
            # plain moves / field projections of l into another local
            for i, b in enumerate(f.bbs):
                if b.get('c') or i not in f.live():
                    continue
                for s in b['s']:
                    if s[0] == '=' and len(s[1]) == 1 and s[2][0] in ('use', 'ref', 'cast'):
                        src = s[2][1] if s[2][0] == 'use' else (['c', s[2][2]] if s[2][0] == 'ref' else s[2][2])
                        pl = op_place(src)
                        if pl and pl[0] == l:
                            nxt.add(s[1][0])
            for c2 in f.calls():
                if not c2.args:
                    continue
                pl = op_place(c2.args[0])
                if not pl or pl[0] != l:
                    continue
                cal = c2.callee or ''
                if re.search(r'::unwrap_or$', cal) and len(c2.args) > 1:
                    a = c2.args[1]
                    if a[0] == 'k':
                        return str(a[1]), c2
                    og = f.origins(a)
                    cs = [o for o in og if o[0] == 'const']
                    if len(cs) == 1 and all(o[0] in ('const', 'named_const', 'agg', 'cast') for o in og):
                        return str(cs[0][1]), c2
                    return 'expr', c2
                if re.search(r'::unwrap_or_default$', cal):
                    return 'default()', c2
                if re.search(r'::unwrap_or_else$|::map_or$|::map_or_else$', cal):
                    return 'expr', c2
                if re.search(r'::(ok_or|ok_or_else|expect|unwrap)$', cal):
                    return 'required', c2
                if PASS.search(cal) and c2.dest:
                    nxt.add(c2.dest[0])
        if not nxt:
            break
        cur = nxt
    return None, None


def default_of(f, c):
    return _default_of(f, c)[0]


def rust_table(fb):
    t = {}
    nonlit = []
    for imp in fb.impls(trait=RO):
        idf = fb.fn(imp['items']['id'][1])
        name, domain = None, ''
        if idf is not None and idf.has_mir():
            for c in idf.calls():
                if re.search(r'OpId::<.*>::new$|OpId::new$', c.callee or ''):
                    name = const_str(idf, c.args[0])
                if re.search(r'with_domain$', c.callee or ''):
                    domain = const_str(idf, c.args[0]) or ''
                    name = const_str(idf, c.args[1])
        f = fb.fn(imp['items']['read'][1])
        attrs = []
        for kind, an, c, ff in attr_calls(fb, f):
            if an is None:
                nonlit.append((imp['self'].split('::')[-1], c.loc()))
                continue
            k = KIND[kind]
            if kind == 'require':
                d = 'required'
            elif kind == 'check_eq':
                a = c.args[2] if len(c.args) > 2 else None
                d = str(a[1]) if a and a[0] == 'k' else (const_str(ff, a) or 'expr' if a else None)
                if a and a[0] != 'k':
                    cs = [o for o in ff.origins(a) if o[0] == 'const']
                    d = str(cs[0][1]) if len(cs) == 1 else (d or 'expr')
            elif kind in ('check', 'check_unused'):
                d = None
            else:
                d = default_of(ff, c)
            attrs.append((k, an, d, c.loc()))
        t[(domain if domain != 'ai.onnx' else '', name)] = {'self': imp['self'], 'attrs': attrs, 'loc': f.loc() if f is not None else ''}
    return t, nonlit


def norm_rust(d):
    if d is None:
        return None
    d = str(d)
    m = re.match(r'^(-?\d+)_(?:[iu]\d+|[iu]size)$', d)
    if m:
        return int(m.group(1))
    m = re.match(r'^(-?[\d.]+(?:[eE][+-]?\d+)?)f(32|64)$', d)
    if m:
        return float(m.group(1))
    if d in ('true', 'false'):
        return d == 'true'
    if d.startswith('"'):
        return d.strip('"')
    return d


def norm_py(d):
    if d is None:
        return None
    try:
        return pyast_mod.literal_eval(d)
    except Exception:
        return d


def same_value(a, b):
    if a == b:
        return True
    if isinstance(a, bool) and isinstance(b, (int, bool)):
        return int(a) == int(b)
    if isinstance(b, bool) and isinstance(a, (int, bool)):
        return int(a) == int(b)
    if isinstance(a, (int, float)) and isinstance(b, (int, float)) and not isinstance(a, bool) and not isinstance(b, bool):
        return abs(float(a) - float(b)) <= 1e-6 * max(1.0, abs(float(b)))
    return False


def literal(v):
    return isinstance(v, (int, float, bool)) or (isinstance(v, str) and not v.startswith('expr') and v not in ('required', 'default()', 'expr'))


def compare(ctx, rt, pt, T, schema_ops):
    exc = {}
    for e in T.get('exceptions', []):
        exc[(e['op'], e['attr'], e['what'])] = e['reason']
    used = set()

    def judge(R, op, attr, what, ok, why, loc):
        if not ok:
            r = exc.get((op, attr, what)) or exc.get(('*', attr, what))
            if r:
                used.add((op, attr, what))
                ok, why = True, 'reviewed exception: ' + r + ' [' + why + ']'
        ctx.inst(R, '%s:%s.%s' % (what, op, attr), ok, why, loc)

    rust_default = {n: e for (d, n), e in rt.items() if not d and n}
    # op-set
    for n, e in sorted(rust_default.items()):
        honoured = [a for a in e['attrs'] if a[0] == 'get']
        if honoured and n not in pt and n in schema_ops:
            judge('C20.op-set', n, '*', 'rust-only-op', False, 'operator %s honours attributes %s in the Rust ONNX registry and exists in the .rten schema, but has no case in the converter: rten-convert drops the attributes with a warning' % (n, sorted(set(a[1] for a in honoured))), e['loc'])
    for n in sorted(pt):
        if n not in rust_default:
            judge('C20.op-set', n, '*', 'converter-only-op', False, 'operator %s is converted by rten-convert but is not registered in the Rust ONNX registry' % n, 'converter.py:%s' % pt[n]['line'])
    nops = 0
    ndef = 0
    for n, e in sorted(rust_default.items()):
        p = pt.get(n)
        if p is None:
            continue
        nops += 1
        ra = {}
        for (k, an, dv, loc) in e['attrs']:
            ra.setdefault(an, []).append((k, dv, loc))
        pa = {}
        for (k, an, dv, line, meth) in p['attrs']:
            pa.setdefault(an, []).append((k, dv, line))
        for an in sorted(set(ra) | set(pa)):
            rk = set(k for k, _, _ in ra.get(an, []))
            pk = set(k for k, _, _ in pa.get(an, []))
            loc = ra[an][0][2] if an in ra else 'converter.py:%s' % pa[an][0][2]
            # honoured by one side, ignored/checked (or unknown) on the other
            if 'get' in rk and an in pa and 'get' not in pk:
                judge('C20.honoured', n, an, 'rust-honours', False, 'attribute %s.%s is honoured by the Rust ONNX loader but only %s by the converter' % (n, an, '/'.join(sorted(pk))), loc)
            elif 'get' in pk and an in ra and 'get' not in rk:
                judge('C20.honoured', n, an, 'converter-honours', False, 'attribute %s.%s is honoured by the converter but only %s by the Rust ONNX loader' % (n, an, '/'.join(sorted(rk))), loc)
            elif 'get' in rk and an not in pa:
                judge('C20.honoured', n, an, 'rust-only-attr', False, 'attribute %s.%s is honoured by the Rust ONNX loader but unknown to the converter, which only warns about unhandled attributes and drops them' % (n, an), loc)
            elif 'get' in pk and an not in ra:
                judge('C20.honoured', n, an, 'converter-only-attr', False, 'attribute %s.%s is honoured by the converter but unknown to the Rust ONNX loader, which rejects the model (C20.reject-unknown)' % (n, an), loc)
            elif an in ra and an in pa:
                ctx.inst('C20.honoured', 'agree:%s.%s' % (n, an), True, 'both sides %s the attribute' % ('/'.join(sorted(rk | pk))), loc)
            # defaults
            if 'get' in rk and 'get' in pk:
                rds = [norm_rust(dv) for k, dv, _ in ra[an] if k == 'get' and dv is not None]
                pds = [norm_py(dv) for k, dv, _ in pa[an] if k == 'get' and dv is not None]
                rl = [v for v in rds if literal(v)]
                pl = [v for v in pds if literal(v)]
                if rl and pl:
                    ndef += 1
                    ok = all(any(same_value(a, b) for b in pl) for a in rl)
                    judge('C20.defaults', n, an, 'default', ok, ('default of %s.%s is %r on both sides' % (n, an, rl[0])) if ok else
                          'default of %s.%s differs: Rust ONNX loader %r, converter %r: a model without the attribute behaves differently on the two paths' % (n, an, rl, pl), loc)
                rreq = any(v == 'required' for v in rds)
                preq = any(v == 'required' for v in pds)
                if rreq != preq and (rl or pl or rreq or preq) and (rds and pds):
                    judge('C20.defaults', n, an, 'required', False, 'attribute %s.%s is %s in the Rust ONNX loader but %s in the converter' % (n, an, 'required' if rreq else 'optional (%r)' % rds, 'required' if preq else 'optional (%r)' % pds), loc)
            if 'check' in rk and 'check' in pk:
                rds = [norm_rust(dv) for k, dv, _ in ra[an] if k == 'check' and dv is not None]
                pds = [norm_py(dv) for k, dv, _ in pa[an] if k == 'check' and dv is not None]
                rl = [v for v in rds if literal(v)]
                pl = [v for v in pds if literal(v)]
                if rl and pl:
                    ndef += 1
                    ok = all(any(same_value(a, b) for b in pl) for a in rl)
                    judge('C20.checks', n, an, 'check', ok, ('%s.%s is checked against %r on both sides' % (n, an, rl[0])) if ok else
                          '%s.%s is checked against %r by the Rust ONNX loader but %r by the converter' % (n, an, rl, pl), loc)
    ctx.floor('C20.honoured', 'operators compared attribute by attribute', nops, 75)
    ctx.floor('C20.defaults', 'literal defaults / check constants compared', ndef, 60)
    for k in exc:
        if k not in used:
            ctx.note('C20 exception %s is not needed any more' % (k,))


# ---------------------------------------------------------------------------------------------------------------
def reject_unknown(ctx, fb, conv):
    R = 'C20.reject-unknown'
    # Rust: the ONNX loader returns an error when the parsed operator reports unused attributes
    ok = False
    loc = ''
    for f in fb.fns(crate='rten'):
        if not f.has_mir() or not f.path.startswith('rten::model::onnx_loader::'):
            continue
        for i, b in enumerate(f.bbs):
            if b.get('c') or i not in f.live():
                continue
            for s in b['s']:
                if s[0] == '=' and s[2][0] == 'agg' and s[2][3] == 'Err':
                    for (g, c) in guards_call(f, i, 're:BitSet::<.*>::is_empty$', truth=False):
                        og = f.origins(c.args[0])
                        if any(o[0] == 'call' and re.search(r'read_op$', o[1] or '') for o in og) or any('unused_attrs' in str(o) for o in og):
                            ok = True
                            loc = f.loc()
    ctx.inst(R, 'rust', ok, 'the ONNX loader returns an error when the operator reader left attributes unused (unknown attributes are rejected, not dropped)' if ok else
             'no error exit controlled by the unused-attribute set found in the ONNX loader: unknown attributes would be silently dropped', loc)


ONNX_DTYPE = {1: 'FLOAT', 2: 'UINT8', 3: 'INT8', 4: 'UINT16', 5: 'INT16', 6: 'INT32', 7: 'INT64', 8: 'STRING', 9: 'BOOL', 10: 'FLOAT16',
              11: 'DOUBLE', 12: 'UINT32', 13: 'UINT64', 14: 'COMPLEX64', 15: 'COMPLEX128', 16: 'BFLOAT16'}
NUMPY_TO_ONNX = {'float32': 'FLOAT', 'uint8': 'UINT8', 'int8': 'INT8', 'uint16': 'UINT16', 'int16': 'INT16', 'int32': 'INT32', 'int64': 'INT64',
                 'bool': 'BOOL', 'float16': 'FLOAT16', 'float64': 'DOUBLE', 'uint32': 'UINT32', 'uint64': 'UINT64', 'bfloat16': 'BFLOAT16'}


def const_dtypes(ctx, fb, conv):
    """a model 'that rten-convert converts successfully' must also load directly: the element types of constants the
    converter accepts (cases of `match dtype_name` in constant_node_from_onnx_initializer) are all handled by the ONNX
    loader's load_constant (arms of its match on TensorProto.data_type), cross-language table agreement"""
    import ast
    R = 'C20.const-dtypes'
    py = set()
    tree = ast.parse(open(conv).read())
    for n in ast.walk(tree):
        if isinstance(n, ast.FunctionDef) and n.name == 'constant_node_from_onnx_initializer':
            for m in ast.walk(n):
                if isinstance(m, ast.Match) and 'dtype' in ast.unparse(m.subject):
                    for case in m.cases:
                        raises = any(isinstance(x, ast.Raise) for x in ast.walk(ast.Module(body=case.body, type_ignores=[])))
                        for x in ast.walk(case.pattern):
                            if isinstance(x, ast.Constant) and isinstance(x.value, str) and not raises:
                                py.add(x.value)
    f = fb.fn('rten::model::onnx_loader::load_constant')
    rs = set()
    if f is not None and f.has_mir():
        for i, b in enumerate(f.bbs):
            if b.get('c') or i not in f.live():
                continue
            t = b['t']
            if t[0] == 'sw' and t[1][0] in 'cm' and any(isinstance(e, list) and e[0] == 'f' and str(e[3]).endswith('onnx::DataType') for e in t[1][1][1:]):
                for v, _tb in t[2]:
                    rs.add(ONNX_DTYPE.get(int(v), 'dtype#%s' % v))
    if not ctx.anchor(R, 'converter dtype match + load_constant dtype match', len(py) >= 5 and len(rs) >= 5):
        return
    unknown = sorted(x for x in py if x not in NUMPY_TO_ONNX)
    want = {NUMPY_TO_ONNX[x] for x in py if x in NUMPY_TO_ONNX}
    missing = sorted(want - rs)
    ctx.inst(R, 'converter-accepted-types-load-directly', not missing and not unknown,
             'every constant element type the converter accepts (%s) has an arm in the ONNX loader (%s)' % (sorted(want), sorted(rs)) if not missing and not unknown else
             'the converter accepts constants of type %s but the ONNX loader\'s load_constant has no arm for them: such a model converts and runs as .rten but fails to load directly' % (missing or unknown),
             f.loc())


def wire_repeated(ctx, fb):
    """the converter reads ONNX files with the official protobuf library, which accepts packed and unpacked encodings of
    every repeated scalar field; the Rust ONNX parser must too, or a file converts but does not load directly: in every
    DecodeMessage::decode_fields impl of rten-onnx, a value pushed onto a repeated scalar field never comes straight from
    a single-value getter (Field::get_*), which rejects the packed (LEN) form - repeated scalars go through
    Field::read_repeated_*"""
    R = 'C20.onnx-wire'
    n, bad, rep = 0, [], 0
    for f in fb.fns(crate='rten_onnx'):
        if not f.has_mir() or not re.search(r'DecodeMessage>::decode_fields$', f.path):
            continue
        n += 1
        for c in f.calls():
            if re.search(r'Field::<.*>::read_repeated_\w+$', c.callee or ''):
                rep += 1
            if not re.search(r'Vec::<T(, A)?>::push$', c.callee or '') or len(c.args) < 2:
                continue
            r = f.resolve_copy(c.args[1])
            # through `?`: the pushed value is the Continue payload of Try::branch(get_*(..))
            src = None
            if r[0] == 'call':
                src = r[1]
            elif r[0] == 'place':
                for o in f.place_origins(r[1]):
                    if o[0] == 'call' and re.search(r'Try>::branch$', o[1] or ''):
                        for k in f.calls():
                            if k.bb == o[2]:
                                rr = f.resolve_copy(k.args[0])
                                if rr[0] == 'call':
                                    src = rr[1]
            if src is not None and re.search(r'Field::<.*>::get_(int32|int64|uint32|uint64|float|double|enum|bool|sint32|sint64|fixed32|fixed64)$', src.callee or ''):
                bad.append('%s (%s)' % (c.loc(), (src.callee or '').split('::')[-1]))
    ctx.floor(R, 'decode_fields impls in rten-onnx', n, 10)
    ctx.inst(R, 'repeated-scalars-accept-packed', not bad and rep >= 5,
             'no repeated scalar field is filled from a single-value getter; %d read_repeated_* sites' % rep if not bad else
             'a repeated scalar field is filled with Field::get_*: %s - the packed encoding of that field is rejected with FieldTypeMismatch although protobuf parsers (and so the converter) accept it' % ', '.join(bad[:4]), '')


def narrowing(ctx, fb, conv):
    R = 'C20.narrowing'
    f = fb.fn('rten::model::onnx_loader::saturating_cast_i64_to_i32')
    ok = False
    why = 'rten::model::onnx_loader::saturating_cast_i64_to_i32 not found'
    if f is not None and f.has_mir():
        consts = set()
        for i, b in enumerate(f.bbs):
            if b.get('c') or i not in f.live():
                continue
            for s in b['s']:
                if s[0] == '=':
                    for o in _rv_operands(s[2]):
                        if o and o[0] == 'k':
                            consts.add(str(o[1]))
                            if len(o) > 3 and o[3]:
                                consts.add(str(o[3]))
                            if len(o) > 4 and o[4] is not None:
                                consts.add(str(o[4]))
        for c in f.calls():
            for a in c.args:
                if a and a[0] == 'k':
                    consts.add(str(a[1]))
                    if len(a) > 3 and a[3]:
                        consts.add(str(a[3]))
                    if len(a) > 4 and a[4] is not None:
                        consts.add(str(a[4]))
        txt = ' '.join(consts)
        has_min = bool(re.search(r'-2147483648|i32::MIN|MIN', txt))
        has_max = bool(re.search(r'(?<!-)2147483647|i32::MAX|MAX', txt))
        std_sat = any(re.search(r'saturating_|::clamp$', c.callee or '') for c in f.calls())
        ok = (has_min and has_max)
        why = 'the i64 -> i32 narrowing helper refers to both i32::MIN and i32::MAX (%s)' % ('clamp' if std_sat else 'explicit bounds') if ok else \
            'the i64 -> i32 narrowing helper does not refer to both i32 bounds (constants seen: %s): values below i32::MIN or above i32::MAX would not saturate to the nearest bound as the converter\'s np.clip does' % sorted(consts)[:6]
    ctx.inst(R, 'rust-saturates-both-ends', ok, why, f.loc() if f is not None else '')
    # every i64 -> i32 narrowing in the ONNX loader goes through the helper
    n = 0
    bad = []
    for g in fb.fns(crate='rten'):
        if not g.has_mir() or not g.path.startswith(('rten::model::onnx_loader::', '<rten::model::onnx_loader::')) or g.path.endswith('saturating_cast_i64_to_i32'):
            continue
        for i, b in enumerate(g.bbs):
            if b.get('c') or i not in g.live():
                continue
            for s in b['s']:
                if s[0] == '=' and s[2][0] == 'cast' and str(s[2][1]).startswith('IntToInt') and g.ty(s[2][3]) == 'i64' and g.ty(s[2][4]) == 'i32':
                    bad.append(g.loc(s[3] if len(s) > 3 else None))
        for c in g.calls():
            if (c.callee or '').endswith('saturating_cast_i64_to_i32') or any(a and a[0] == 'fn' and str(a[1]).endswith('saturating_cast_i64_to_i32') for a in c.args):
                n += 1
    ctx.inst(R, 'rust-single-door', not bad and n >= 2, 'no raw `as i32` cast of an i64 in the ONNX loader; %d uses of the saturating helper' % n if not bad else 'raw i64 -> i32 `as` cast at %s bypasses the saturating helper' % bad[0], '')
    # Python side, the sibling of rust-single-door: every `.astype(np.int32)` in the converter package is either applied to
    # the result of `.clip(<iinfo(int32).min>, <iinfo(int32).max>)` (saturating) or sits in a `match dtype` case that only
    # lists types narrower than int32 (a widening); anything else wraps out-of-range int64 values
    import ast, glob
    pkg = os.path.dirname(conv)
    sites, badp = 0, []
    WIDENING = {'bool', 'int8', 'uint8', 'int16', 'uint16', 'int32'}

    def is_i32(node):
        return isinstance(node, ast.Attribute) and node.attr == 'int32'

    def iinfo_names(tree):
        out = set()
        for n in ast.walk(tree):
            if isinstance(n, ast.Assign) and isinstance(n.value, ast.Call) and isinstance(n.value.func, ast.Attribute) and n.value.func.attr == 'iinfo' \
                    and n.value.args and is_i32(n.value.args[0]):
                for t in n.targets:
                    if isinstance(t, ast.Name):
                        out.add(t.id)
        return out

    for py in sorted(glob.glob(os.path.join(pkg, '*.py'))):
        if py.endswith('schema_generated.py'):
            continue
        tree = ast.parse(open(py).read())
        names = iinfo_names(tree)
        parents = {}
        for n in ast.walk(tree):
            for ch in ast.iter_child_nodes(n):
                parents[ch] = n
        for n in ast.walk(tree):
            if not (isinstance(n, ast.Call) and isinstance(n.func, ast.Attribute) and n.func.attr == 'astype' and n.args and is_i32(n.args[0])):
                continue
            sites += 1
            recv = n.func.value
            clipped = isinstance(recv, ast.Call) and isinstance(recv.func, ast.Attribute) and recv.func.attr == 'clip' and len(recv.args) == 2 and \
                all(isinstance(a, ast.Attribute) and isinstance(a.value, ast.Name) and a.value.id in names for a in recv.args) and \
                recv.args[0].attr == 'min' and recv.args[1].attr == 'max'
            widening = False
            q = n
            while q in parents:
                q = parents[q]
                if isinstance(q, ast.match_case):
                    pats = [x.value for x in ast.walk(q.pattern) if isinstance(x, ast.Constant) and isinstance(x.value, str)]
                    widening = bool(pats) and set(pats) <= WIDENING
                    break
            if not (clipped or widening):
                badp.append('%s:%d' % (os.path.relpath(py, os.path.dirname(os.path.dirname(pkg))), n.lineno))
    okp = sites >= 2 and not badp
    ctx.inst(R, 'converter-narrowing-saturates', okp,
             'all %d `.astype(np.int32)` sites in the converter package follow a clip to the int32 range or widen a narrower type' % sites if okp else
             '`.astype(np.int32)` without a preceding clip to the int32 range at %s: numpy wraps out-of-range int64 values (2**63-1 -> -1) where the ONNX loader saturates' % ', '.join(badp[:4]),
             'rten-convert/rten_convert/converter.py')


# ---------------------------------------------------------------------------------------------------------------
RANK_ATTRS = ('strides', 'dilations', 'pads')
RANK_FIELDS = {'strides': 'strides', 'dilations': 'dilations', 'pads': 'pads', 'outputPadding': 'output_padding', 'kernelSize': 'kernel_size'}


def _unwrap_call(f, c):
    """the unwrap_or* call that ends the consumer chain of an accessor call's result"""
    v, c2 = _default_of(f, c)
    return c2 if c2 is not None and re.search(r'::unwrap_or(_default|_else)?$', c2.callee or '') else None


def _closure_fills_by_length(fb, f, op):
    """operand is a closure whose body builds vec![k; n] with n not a constant"""
    r = f.resolve_copy(op)
    if not (r[0] == 'rv' and r[1][0] == 'agg' and r[1][1] == 'closure'):
        return False
    g = fb.fn(r[1][2])
    if g is None or not g.has_mir():
        return False
    for k in g.calls():
        if (k.callee or '').endswith('vec::from_elem') and len(k.args) >= 2 and k.args[1][0] != 'k':
            if not all(o[0] == 'const' for o in g.origins(k.args[1])):
                return True
    return False


def rank_defaults(ctx, fb, conv, rt):
    """strides / pads / dilations have one entry per spatial axis: a fall-back for an omitted one must take its length from the operator"""
    R = 'C20.rank-defaults'
    n = 0
    # (1) Rust ONNX loader
    seen = set()
    for (dom, name), e in sorted(rt.items(), key=lambda kv: str(kv[0])):
        for (k, an, dv, loc) in e['attrs']:
            if k != 'get' or an not in RANK_ATTRS:
                continue
            site = loc.rsplit(':', 1)[0] if loc else loc
            if (an, loc) in seen:
                continue
            seen.add((an, loc))
    by_site = {}
    for imp in fb.impls(trait=RO):
        f = fb.fn(imp['items']['read'][1])
        for kind, an, c, ff in attr_calls(fb, f):
            if KIND[kind] == 'get' and an in RANK_ATTRS and kind != 'require':
                by_site.setdefault((ff.path, an), (ff, c))
    for (path, an), (ff, c) in sorted(by_site.items()):
        n += 1
        u = _unwrap_call(ff, c)
        short = _short_fn(path)
        key = 'onnx-loader:%s.%s' % (short, an)
        if u is None:
            ctx.inst(R, key, True, 'no fall-back: the attribute is optional in the operator itself', c.loc())
            continue
        cal = u.callee or ''
        if cal.endswith('unwrap_or_else') and len(u.args) > 1 and _closure_fills_by_length(fb, ff, u.args[1]):
            ctx.inst(R, key, True, 'omitted %s falls back to vec![k; n] with n taken from the node (kernel_shape length)' % an, u.loc())
        else:
            ctx.inst(R, key, False, 'omitted `%s` falls back to %s, which does not have one entry per spatial axis of the operator: ONNX defaults it to 1 (0 for pads) along each axis, and the converter writes exactly that, so the ONNX file and its .rten conversion behave differently (the ONNX one fails with a length mismatch)' % (an, 'an empty list' if cal.endswith('unwrap_or_default') else 'a fixed value'), u.loc())
    # (2) converter: no fixed-length literal as the default of a per-axis attribute; collect fields it may leave unset
    tree = pyast_mod.parse(open(conv).read())
    may_be_none = set()

    def is_fixed_list(node):
        return isinstance(node, (pyast_mod.List, pyast_mod.Tuple)) and len(node.elts) > 0 and all(isinstance(e, pyast_mod.Constant) for e in node.elts)

    def default_arg(call, pos, kw='default'):
        if len(call.args) > pos:
            return call.args[pos]
        for k in call.keywords:
            if k.arg == kw:
                return k.value
        return None

    def maybe_none(node):
        if isinstance(node, pyast_mod.Constant) and node.value is None:
            return True
        if isinstance(node, pyast_mod.Call):
            fn = node.func
            nm = fn.attr if isinstance(fn, pyast_mod.Attribute) else getattr(fn, 'id', '')
            if nm == 'read_dilations':
                d = default_arg(node, 1)
                return d is None or maybe_none(d)
            if nm == 'get_attr':
                d = default_arg(node, 2)
                return d is None or maybe_none(d)
        return False

    for node in pyast_mod.walk(tree):
        if isinstance(node, pyast_mod.Call):
            fn = node.func
            nm = fn.attr if isinstance(fn, pyast_mod.Attribute) else getattr(fn, 'id', '')
            if nm == 'get_attr' and node.args and isinstance(node.args[0], pyast_mod.Constant) and node.args[0].value in RANK_ATTRS:
                d = default_arg(node, 2)
                n += 1
                bad = d is not None and is_fixed_list(d)
                ctx.inst(R, 'converter:get_attr(%s)@%s' % (node.args[0].value, _enclosing(tree, node)), not bad,
                         'default of `%s` is not a fixed-length literal' % node.args[0].value if not bad else
                         'the converter defaults an omitted `%s` to the literal %s whatever the rank of the operator: a 1-D Conv / ConvTranspose / pooling node that omits it converts to a model that fails at run time ("expected 1 stride value") while the ONNX file runs' % (node.args[0].value, pyast_mod.unparse(d)), 'converter.py:%d' % node.lineno)
            if nm == 'read_dilations':
                d = default_arg(node, 1)
                n += 1
                bad = d is not None and is_fixed_list(d)
                ctx.inst(R, 'converter:read_dilations@%s#%d' % (_enclosing(tree, node), _ordinal(tree, node, 'read_dilations')), not bad,
                         'dilations default is not a fixed-length literal' if not bad else
                         'the converter defaults omitted dilations to the literal %s whatever the rank of the operator' % pyast_mod.unparse(d), 'converter.py:%d' % node.lineno)
        if isinstance(node, pyast_mod.Assign) and len(node.targets) == 1 and isinstance(node.targets[0], pyast_mod.Attribute) \
                and isinstance(node.targets[0].value, pyast_mod.Name) and node.targets[0].value.id == 'attrs' and node.targets[0].attr in RANK_FIELDS:
            if maybe_none(node.value):
                may_be_none.add((_case_attrs_class(tree, node), RANK_FIELDS[node.targets[0].attr]))
    # (3) .rten reader: a per-axis field the converter may leave unset must not be read with a fixed-length default
    m = 0
    for f in fb.fns(crate='rten'):
        if 'rten_registry' not in f.path or not f.has_mir():
            continue
        for c in f.calls():
            mm = re.search(r'schema_generated::(\w+)Attrs::<.*>::(strides|dilations|pads|kernel_size|output_padding)$', c.callee or '')
            if not mm:
                continue
            cons = [k for k in f.calls() if k.args and gi_from(f, k.args[0], c)]
            fixed = [k for k in cons if (k.callee or '').endswith('rten_registry::vec_from_attr')]
            if not fixed:
                continue
            m += 1
            cls, field = mm.group(1) + 'AttrsT', mm.group(2)
            unset = (cls, field) in may_be_none
            ctx.inst(R, 'rten-reader:%s.%s@%s' % (mm.group(1), field, f.path.split(' as ')[0].split('::')[-1].strip('<>')), not unset,
                     'fixed-length default is unreachable for converted models: the converter always writes %s.%s' % (cls, field) if not unset else
                     'the .rten reader gives an absent %s.%s a fixed-length default, but the converter leaves the field unset when the ONNX node omits the attribute: a 1-D node then gets a 2-D value and fails at run time, while the ONNX file runs' % (mm.group(1), field), c.loc())
    ctx.floor(R, 'per-axis attribute fall-backs judged (ONNX loader + converter)', n, 8)
    ctx.floor(R, '.rten reader fixed-length defaults cross-checked against the converter', m, 5)
    ctx.floor(R, 'converter fields that may be left unset', len(may_be_none), 1)


def _short_fn(path):
    base = path.split('::{closure')[0]
    m = re.match(r'^<(.+?) as .*>::(\w+)$', base)
    if m:
        return m.group(1).split('::')[-1] + '::' + m.group(2)
    return base.split('::')[-1]


def gi_from(f, op, call):
    r = f.resolve_copy(op)
    return r[0] == 'call' and r[1].bb == call.bb


def _enclosing(tree, node):
    best = None
    for fn in pyast_mod.walk(tree):
        if isinstance(fn, (pyast_mod.FunctionDef,)) and fn.lineno <= node.lineno <= (fn.end_lineno or fn.lineno):
            if best is None or fn.lineno > best.lineno:
                best = fn
    return best.name if best else '<module>'


def _ordinal(tree, node, name):
    calls = sorted((c.lineno, c.col_offset) for c in pyast_mod.walk(tree) if isinstance(c, pyast_mod.Call) and (getattr(c.func, 'attr', None) == name or getattr(c.func, 'id', None) == name))
    return calls.index((node.lineno, node.col_offset)) + 1


def _case_attrs_class(tree, node):
    """the sg.<X>AttrsT() class assigned to `attrs` in the match case that contains the statement"""
    for mc in pyast_mod.walk(tree):
        if isinstance(mc, pyast_mod.match_case) and mc.body and mc.body[0].lineno <= node.lineno <= (mc.body[-1].end_lineno or mc.body[-1].lineno):
            for st in mc.body:
                if isinstance(st, pyast_mod.Assign) and isinstance(st.targets[0], pyast_mod.Name) and st.targets[0].id == 'attrs' and isinstance(st.value, pyast_mod.Call):
                    fn = st.value.func
                    return fn.attr if isinstance(fn, pyast_mod.Attribute) else getattr(fn, 'id', '?')
    return '?'
