"""C34 Tensor file formats reject malformed files without panicking or over-allocating (reader side, structural clauses)."""
import re
from rulelib import *
from rulelib import _rv_operands
from facts import op_int, op_local, op_place
import loaderlib as L
import callgraph
import C05

CFGS = ('ser',)
EXPLANATION = (
    "Decides the 'reading arbitrary bytes returns a value or an error without panicking' clause structurally, with the npy, npz "
    "and safetensors features enabled (cfg `ser`): scope = every function of rten_serialize reachable (resolved + CHA call "
    "graph, closures included) from the public read entry points npy::read*, npz::read*, safetensors::read*. In that scope "
    "every overflow-checked arithmetic site, Iterator::product/sum over integers, lossy integer cast, allocation with a "
    "non-constant size, panic-capable call (unwrap/expect/index/slice/chunks/panic!/unreachable!) and call into a workspace "
    "function that can panic on its arguments is an obligation, discharged automatically (constants and loop counters; sizes "
    "that are lengths of data already in memory or bounded by a dominating constant comparison or an integer width <= 32 bits; "
    "from_data after a dominating `data.len() == n_bytes` check with n_bytes the checked product of the same shape) or by a "
    "reviewed table entry naming the check that makes it safe; anything else is a violation. The element and byte counts of an "
    ".npy header are computed with checked arithmetic before any allocation, the allocation is bounded by u32::MAX bytes and "
    "the header length by its on-disk width. Round-trip equality of write/read and the zip / safetensors crates' own parsing are "
    "not decided (third-party boundaries).")
ASSUMPTIONS = ["the zip and safetensors crates return errors rather than panic on malformed input (third-party boundary)",
               "safetensors::SafeTensors::deserialize validates that shape x dtype size equals the data length of every tensor"]
CRATE = 'rten_serialize'
ENTRY = re.compile(r'^rten_serialize::(npy|npz|safetensors)::(read|read_from_file|read_array|read_array_from_file)$')


def scope(fb):
    cg = callgraph.CallGraph(fb)
    roots = [p for p in fb.fn_paths(crate=CRATE) if ENTRY.search(p)]
    seen = set()
    work = list(roots)
    while work:
        p = work.pop()
        if p in seen:
            continue
        f = fb.fn(p)
        if f is None or not f.has_mir() or getattr(f.crate, 'name', None) != CRATE:   # by defining crate: `<f32 as rten_serialize::..::SafeElement>::from_le_bytes` counts
            continue
        seen.add(p)
        for (callee, c, how) in cg.callees(f):
            if callee not in seen:
                work.append(callee)
        for c in f.calls():
            for a in c.args:
                if a and a[0] == 'fn':
                    work.append(a[1])
    return roots, seen


def run(ctx):
    fb = ctx.fb('ser')
    T = ctx.tables
    roots, sc = scope(fb)
    ctx.floor('C34.sites', 'public read entry points', len(roots), 10)

    def short(p):
        return p.replace('rten_serialize::', '')

    def extra(f, what, line, kind):
        return discharge(fb, f, what, line, kind)
    used = C05.site_census(ctx, fb, T, 'C34.sites', (CRATE,), lambda p: p in sc, short, fn_floor=20, site_floor=15, std_arith=True,
                           scope_label='reader-scope', extra_discharge=extra)
    for e in T.get('reviewed', []):
        if (e['fn'], e['what']) not in used:
            ctx.note('C34 reviewed entry %s|%s is not needed any more (site removed or auto-discharged): entry can be dropped' % (short(e['fn']), e['what']))
    counts(ctx, fb)
    cursor_rule(ctx, fb)
    header_len_field(ctx, fb)


def const_bounded(f, bb, op):
    """a dominating guard op <= CONST / op < CONST (or the negation of op > CONST)"""
    og = set(o for o in f.origins(op) if o[0] in ('call', 'param', 'binop'))
    for (cmp_, a, b, g) in normalized_cmps(f, bb):
        if cmp_ in ('Gt', 'Ge'):
            cmp_, a, b = SWAP[cmp_], b, a
        if cmp_ in ('Lt', 'Le'):
            bconst = op_int(b) is not None or all(o[0] in ('const', 'cast', 'named_const') for o in f.origins(b))
            if bconst and (op_local(a) == op_local(op) or (set(o for o in f.origins(a) if o[0] in ('call', 'param', 'binop')) & og)):
                return True
    return False


PARSER = 'rten_serialize::npy::HeaderParser'


def cursor_guard(f, bb):
    """a dominating guard that proves bytes remain at the cursor: peek() is Some(..) / equals Some(byte), or
    bytes[pos..].starts_with(literal) holds; returns the number of bytes proved available (or 0)"""
    best = 0
    for g in f.guards(bb):
        c, t = unwrap_not(g.cond(), g.truth())
        if c[0] == 'call' and t is True:
            cal = c[1].callee or ''
            if re.search(r'Option<T> as core::cmp::PartialEq>::eq$', cal):
                og = set()
                for a in c[1].args:
                    og |= f.origins(a)
                if any(o[0] == 'call' and (o[1] or '').endswith('HeaderParser::<\'a>::peek') for o in og) and any(o[0] == 'agg' and o[3] == 'Some' for o in og):
                    best = max(best, 1)
            if re.search(r'<impl \[T\]>::starts_with$', cal):
                # needle: a byte-string literal; its length is the number of bytes available
                r = f.resolve_copy(c[1].args[1])
                n = None
                for o in f.origins(c[1].args[1]):
                    if o[0] == 'const':
                        m = re.search(r'b"((?:[^"\\\\]|\\\\.)*)"', str(o[1]))
                        if m:
                            n = len(m.group(1))
                if n:
                    best = max(best, n)
        if c[0] == 'disc':
            # discriminant of a peek() result is Some
            pl = c[1]
            og = f.place_origins([pl[0]])
            if any(o[0] == 'call' and (o[1] or '').endswith("HeaderParser::<'a>::peek") for o in og):
                if (g.vals is not None and g.vals == [1]) or (g.vals is None and g.excluded == [0]):
                    best = max(best, 1)
    return best


def cursor_rule(ctx, fb):
    """HeaderParser.pos <= bytes.len() is a class invariant: every write is the 0 of new() or a guarded increment"""
    R = 'C34.cursor'
    n = 0
    cnt = {}
    for (f, bb, s, field) in field_writes(fb, PARSER, crates=[CRATE]):
        if field != 'pos':
            continue
        n += 1
        name = f.path.split('::')[-1]
        cnt[name] = cnt.get(name, 0) + 1
        rv = s[2]
        ok, why = False, 'write to HeaderParser.pos that is not a guarded increment'
        src = f.resolve_copy(rv[1]) if rv[0] == 'use' else ('rv', rv)
        # `pos = (pos + k).0` : find the AddWithOverflow feeding it
        og = f.origins(rv[1]) if rv[0] == 'use' else set()
        k = None
        if rv[0] == 'use':
            pl = op_place(rv[1])
            if pl:
                d = f.def_of_local(pl[0])
                if d is not None and d[2] != 'call' and d[3][0] == 'bin' and d[3][1].startswith('Add'):
                    a, b = d[3][2], d[3][3]
                    if op_int(b) is not None and any(o[0] == 'param' and o[1] == 0 and 'pos' in [str(z) for z in o[2]] for o in f.origins(a)):
                        k = op_int(b)
        if k is not None:
            avail = cursor_guard(f, bb)
            ok = avail >= k
            why = ('pos += %d under a guard proving %d byte(s) remain' % (k, avail)) if ok else 'pos += %d but the dominating guards prove only %d byte(s) remain at the cursor' % (k, avail)
        ctx.inst(R, 'write:%s#%d' % (name, cnt[name]), ok, why, f.loc(s[3] if len(s) > 3 else None))
    # construction: pos starts at 0
    aggs = aggregates_of(fb, PARSER, crates=[CRATE])
    okc = bool(aggs)
    for (f, bb, s, rv) in aggs:
        adt = fb.adt(PARSER)
        idx = [j for j, fd in enumerate(adt['variants'][0]['fields']) if fd['name'] == 'pos'] if adt else []
        if not idx or op_int(rv[4][idx[0]]) != 0 or not f.path.endswith('::new'):
            okc = False
    ctx.inst(R, 'constructed-at-zero', okc, 'HeaderParser is built only in new() with pos = 0', '')
    ctx.floor(R, 'writes to HeaderParser.pos', n, 5)
    return okc


def only_cursor(f, op):
    """the operand is the parser cursor or a saved copy of it"""
    og = f.origins(op)
    is_pos = lambda o: o[0] == 'param' and o[1] == 0 and 'pos' in [str(z) for z in o[2]]
    return any(is_pos(o) for o in og) and all(is_pos(o) or (o[0] == 'const' and re.match(r'^\d+_usize$', str(o[1]))) or (o[0] == 'binop' and o[1].startswith('Add')) for o in og)


def discharge(fb, f, what, line, kind):
    if kind == 'arith' and what.startswith('arith:Add') and f.path.startswith(PARSER):
        for (bb, k, ops, ln, exp, cond, expected) in f.asserts():
            if ln == line and k.startswith('Overflow') and only_cursor(f, ops[0]) and op_int(ops[1]) is not None and cursor_guard(f, bb) >= op_int(ops[1]):
                return 'cursor increment under a guard proving the bytes exist (pos <= len, cannot overflow)'
    if kind == 'panic' and what == 'index' and f.path.startswith(PARSER):
        for c in f.calls():
            if c.line == line and re.search(r'Index<I> for \[T\]>::index$', c.callee or ''):
                r = f.resolve_copy(c.args[1])
                if r[0] == 'rv' and r[1][0] == 'agg' and re.search(r'Range(From)?$', str(r[1][2])) and all(only_cursor(f, o) for o in r[1][4]):
                    base = f.origins(c.args[0])
                    if any(o[0] == 'param' and o[1] == 0 and 'bytes' in [str(z) for z in o[2]] for o in base):
                        return 'bytes[start..pos] / bytes[pos..] with both bounds the monotone cursor (class invariant pos <= bytes.len(), see C34.cursor)'
    if kind == 'panic' and what == 'chunks_exact':
        # chunks_exact(n) panics only for n == 0: n is size_of::<X>() of a primitive number
        for c in f.calls():
            if c.line == line and (c.callee or '').endswith('::chunks_exact') and _prim_size(f, c.args[1]):
                return 'chunk size is size_of::<%s>() = %d, never 0' % _prim_size(f, c.args[1])
    if kind == 'panic' and what == 'unwrap':
        # chunk.try_into::<[u8; N]>().unwrap() inside the map closure over chunks_exact(size_of::<X>()) with size_of X == N
        cr = closure_creation(fb, f)
        if cr is not None:
            pf = cr[0]
            sizes = {_prim_size(pf, k.args[1]) for k in pf.calls() if (k.callee or '').endswith('::chunks_exact')}
            srcs = [k for k in pf.calls() if re.search(r'Iterator::map$', k.callee or '')]
            for c in f.calls():
                if c.line == line and re.search(r'Result::<T, E>::unwrap$', c.callee or ''):
                    r = f.resolve_copy(c.args[0])
                    if r[0] == 'call' and re.search(r'TryInto<U>>::try_into$', r[1].callee or ''):
                        m = re.search(r'\[u8; (\d+)(_usize)?\]\]$', r[1].info.get('ga', ''))
                        if m and len(sizes) == 1 and None not in sizes and list(sizes)[0][1] == int(m.group(1)) and len(srcs) == 1:
                            return 'a chunk of chunks_exact(%d) always converts to [u8; %d]' % (int(m.group(1)), int(m.group(1)))
    if kind == 'alloc':
        for c in f.calls():
            if c.line == line and call_is(c, C05.ALLOC):
                sized = [a for a in c.args if op_local(a) is not None and f.local_ty(op_local(a)) in ('usize', 'u64')]
                if not sized:
                    continue
                a = sized[-1]
                if const_bounded(f, c.bb, a):
                    return 'allocation size is bounded by a dominating constant comparison'
                og = f.origins(a)
                casts = [o for o in og if o[0] == 'cast']
                if any(o[0] == 'call' and re.search(r'<impl (u8|u16|u32)>::from_(le|be|ne)_bytes$', o[1] or '') for o in og) and \
                        not any(o[0] == 'binop' for o in og) and all(o[0] in ('call', 'cast', 'agg', 'const') for o in og):
                    return 'allocation size is a 16/32-bit field of the file (bounded by its width)'
    return None


PRIM_SIZES = {'u8': 1, 'i8': 1, 'bool': 1, 'u16': 2, 'i16': 2, 'f16': 2, 'u32': 4, 'i32': 4, 'f32': 4, 'u64': 8, 'i64': 8, 'f64': 8}


def _prim_size(f, op):
    """(type, size) if the operand is exactly size_of::<primitive number>()"""
    r = f.resolve_copy(op)
    if r[0] == 'call' and (r[1].callee or '') == 'core::mem::size_of':
        m = re.match(r'^\[(\w+)\]$', r[1].info.get('ga', ''))
        if m and m.group(1) in PRIM_SIZES:
            return (m.group(1), PRIM_SIZES[m.group(1)])
    return None


def counts(ctx, fb):
    """npy::read_typed: element and byte counts are checked products of the header shape; data length is compared with it"""
    R = 'C34.npy-counts'
    fs = [f for f in fb.fns(crate=CRATE) if re.search(r'npy::read_typed$', f.path) and f.has_mir()]
    if not fs:
        ctx.inst(R, 'anchor:read_typed', False, 'npy::read_typed not found', '')
        return
    f = fs[0]
    tf = [c for c in f.calls() if re.search(r'Iterator>?::try_fold$', c.callee or '')]
    ok = False
    for c in tf:
        clo = f.resolve_copy(c.args[2]) if len(c.args) > 2 else None
        if clo and clo[0] == 'rv' and clo[1][0] == 'agg' and clo[1][1] == 'closure':
            cf = fb.fn(clo[1][2])
            if cf is not None and cf.has_mir() and any(re.search(r'usize::checked_mul$|::checked_mul$', x.callee or '') for x in cf.calls()):
                src = f.origins(c.args[0])
                ok = any(o[0] == 'param' and 'shape' in [str(z) for z in (o[2] if len(o) > 2 else ())] for o in src)
    ctx.inst(R, 'elements-checked', ok, 'n_elements = shape.iter().try_fold(1, checked_mul) with an error exit', f.loc())
    cm = [c for c in f.calls() if re.search(r'::checked_mul$', c.callee or '')]
    ok2 = any(any(o[0] == 'call' and re.search(r'try_fold$|ok_or_else$|branch$', o[1] or '') for o in f.origins(c.args[0])) for c in cm)
    ctx.inst(R, 'bytes-checked', ok2, 'n_bytes = n_elements.checked_mul(ITEM_SIZE) with an error exit', f.loc())
    # from_data is reached only after data.len() == n_bytes
    fd = [c for c in f.calls() if re.search(r'::from_data$', c.callee or '')]
    ok3 = bool(fd)
    for c in fd:
        g_ok = False
        for (cmp_, a, b, g) in normalized_cmps(f, c.bb):
            if cmp_ == 'Eq' and (any(o[0] == 'call' and (o[1] or '').endswith('::len') for o in f.origins(a) | f.origins(b))) and \
                    (any(o[0] == 'call' and (o[1] or '').endswith('checked_mul') for o in f.origins(a) | f.origins(b))):
                g_ok = True
        ok3 = ok3 and g_ok
    ctx.inst(R, 'from_data-after-length-check', ok3, 'Tensor::from_data(shape, values) is reached only after data.len() == n_bytes (the checked product of the same shape)', f.loc())
    # the size guard
    al = [c for c in f.calls() if call_is(c, C05.ALLOC)]
    ok4 = bool(al) and all(const_bounded(f, c.bb, c.args[-1]) for c in al)
    ctx.inst(R, 'allocation-bounded', ok4, 'the data buffer is allocated only under n_bytes <= u32::MAX', f.loc())



def header_len_field(ctx, fb):
    """round trip: the reader takes the npy header to be exactly as long as the u16 length field says, and everything after it
    to be element data.  The writer must therefore store the *measured* length of the header text it emits: the value
    converted to u16 in build_header is String::len() of the dictionary text, measured after the last byte was appended to
    it (a separately computed length that disagrees by one shifts every element of the array by a byte - same shape, same
    dtype, wrong values, no error)."""
    R = 'C34.writer'
    fs = [x for x in fb.fns(crate=CRATE) if x.has_mir() and x.path.endswith('npy::build_header')]
    if not ctx.anchor(R, 'npy::build_header', len(fs) == 1):
        return
    f = fs[0]
    tf = [c for c in f.calls() if re.search(r'TryFrom<usize> for u16>::try_from$', c.callee or '')]
    ok, why = bool(tf), 'no u16 length conversion found'
    for c in tf:
        r = f.resolve_copy(c.args[0])
        if not (r[0] == 'call' and re.search(r'String::len$|Vec::<T(, A)?>::len$|<impl str>::len$', r[1].callee or '')):
            ok, why = False, 'the length field is computed (%s), not measured with len() on the emitted text' % (r[1].callee.split('::')[-1] if r[0] == 'call' else r[0])
            continue
        ln = r[1]
        # every append to that text dominates the measurement; the same text is what gets written out
        recv = f.origins(ln.args[0])
        apps = [k for k in f.calls() if re.search(r'String::push(_str)?$|Extend<.*>>::extend$|String::extend', k.callee or '') and (f.origins(k.args[0]) & recv)]
        late = [k for k in apps if not f.dominates(k.bb, ln.bb)]
        outs = [k for k in f.calls() if re.search(r'Vec::<T(, A)?>::extend_from_slice$', k.callee or '') and any(o[0] == 'call' and re.search(r'String::as_bytes$', o[1] or '') for o in f.origins(k.args[1]))]
        if late:
            ok, why = False, 'the text is still appended to (line %s) after its length was measured' % late[0].line
        elif not outs:
            ok, why = False, 'the measured text is not what is written to the header'
        else:
            why = 'the u16 length field is String::len() of the dictionary text, measured after the last append, and that text is what is written'
    ctx.inst(R, 'npy-header-length-is-measured', ok, why if ok else why + ': a length field that disagrees with the bytes written shifts the element data read back', f.loc())
