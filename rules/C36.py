"""C36 Contour tracing and drawing stay on the image - drawing half only: every pixel write is clipped or checked."""
import re
from rulelib import *
from rulelib import _rv_operands
from facts import op_int, op_local, op_place

EXPLANATION = (
    "Drawing clause of C36 only ('drawing and filling primitives only modify pixels inside the image ... for any shape "
    "coordinates, including ones outside the image'), decided for every path of rten_imageproc::drawing: (writes) the "
    "module writes pixels at exactly the sites enumerated here, and each is of one of three forms - (a) a checked "
    "TensorBase::get_mut whose index comes from Point::coord (which panics on negative coordinates) only under x >= 0 and "
    "y >= 0 tests; (b) image[[y as usize, x as usize]] with x, y the variables of Range loops whose start passed through "
    "max(.., 0) and whose end passed through min(.., rows/cols of the image); (c) image[p.coord()] with p produced by the "
    "Bresenham iterator over a Line whose two end points both come from clamp_to_bounds(.., rows, cols) of the same image, "
    "in a function that returned early for an image without rows or columns; any other mutable access to the image view (slice_mut, fill, iter_mut ...) is a violation; (no-unsafe) no raw pointer dereference or "
    "unchecked access in the module, so no write can land outside the view's storage; (delegation) stroke_rect, "
    "draw_polygon and Painter write only through fill_rect / draw_line. Hence no primitive can panic on or write outside "
    "the image because of where the shape lies. That the pixels written are inside the *shape*, the contour-tracing half of "
    "the property, and arithmetic overflow for coordinates near i32::MAX are not decided. (edge-compare) a point coordinate or Rect top / left compared with a value read from rows() / cols() uses >= or <, since a coordinate equal to the size is outside; clamp_to_bounds clamps to size - 1. (fill-iter) the polygon fill iterator ends a scan line when the cursor has reached or passed the right bound (or drops the edges of an empty polygon), so filling terminates for degenerate polygons.")
ASSUMPTIONS = ["Bresenham points between two points of the image rectangle stay in that rectangle (a lemma about the iterator, not checked)",
               "rten-tensor's checked indexing (C06)"]
CRATE = 'rten_imageproc'
MOD = 'rten_imageproc::drawing::'


def scope(fb):
    return [f for f in fb.fns(crate=CRATE) if f.has_mir() and (f.path.startswith(MOD) or f.path.startswith('<' + MOD)) and '::tests' not in f.path]


def run(ctx):
    fb = ctx.fb()
    fns = scope(fb)
    ctx.floor('C36.writes', 'functions in rten_imageproc::drawing', len(fns), 15)
    writes(ctx, fb, fns)
    edge_strictness(ctx, fb, fns)
    fill_iter(ctx, fb, fns)
    no_unsafe(ctx, fb, fns)


def _is_image(f, op):
    l = op_local(op)
    return l is not None and 'TensorBase' in f.local_ty(l)


def _range_clipped(f, idx_op):
    """the operand is a cast of a Range loop variable whose range start went through max(..0) and end through min(.., rows()/cols())"""
    og = f.origins(idx_op)
    nexts = [o for o in og if o[0] == 'call' and re.search(r'::next$', o[1] or '')]
    if not nexts:
        return False, 'index is not a loop variable'
    ok_any = False
    for o in nexts:
        for c in f.calls():
            if c.bb != o[2]:
                continue
            # receiver of next() <- into_iter(range) <- Range { start, end }: that very aggregate must be clipped at both ends
            for oo in f.origins(c.args[0]):
                if not (oo[0] == 'call' and re.search(r'IntoIterator>::into_iter$', oo[1] or '')):
                    continue
                for k in f.calls():
                    if k.bb != oo[2]:
                        continue
                    rr = f.resolve_copy(k.args[0])
                    if rr[0] == 'rv' and rr[1][0] == 'agg' and str(rr[1][2]).endswith('ops::range::Range') and len(rr[1][4]) == 2:
                        so, eo = f.origins(rr[1][4][0]), f.origins(rr[1][4][1])
                        s_ok = any(x[0] == 'call' and re.search(r'::max$', x[1] or '') for x in so)
                        e_ok = any(x[0] == 'call' and re.search(r'::min$', x[1] or '') for x in eo)
                        if s_ok and e_ok:
                            ok_any = True
    return ok_any, 'loop range is not clipped with max(0) / min(size)'


def writes(ctx, fb, fns):
    R = 'C36.writes'
    n = 0
    direct = {}
    for f in fns:
        short = f.path.replace(MOD, '')
        for c in f.calls():
            cal = c.callee or ''
            if re.search(r'TensorBase<S, L> as core::ops::index::IndexMut<I>>::index_mut$', cal) and _is_image(f, c.args[0]):
                n += 1
                direct[short] = direct.get(short, 0) + 1
                key = 'index:%s#%d' % (short, direct[short])
                r = f.resolve_copy(c.args[1])
                if r[0] == 'call' and (r[1].callee or '').endswith('shapes::Point::coord'):
                    # (c) point of the Bresenham iterator over a clamped line
                    br = [k for k in f.calls() if (k.callee or '').endswith('BreshamPoints::new') and f.dominates(k.bb, c.bb)]
                    clamped = False
                    for k in br:
                        rr = f.resolve_copy(k.args[0])
                        if rr[0] == 'call' and re.search(r'Line::<.*>::from_endpoints$|Line::from_endpoints$', rr[1].callee or ''):
                            clamped = all(any(o[0] == 'call' and (o[1] or '').endswith('drawing::clamp_to_bounds') for o in f.origins(a)) for a in rr[1].args[:2])
                    dims = [k for k in f.calls() if (k.callee or '').endswith('drawing::clamp_to_bounds')]
                    dims_ok = bool(dims) and all(any(o[0] == 'call' and re.search(r'MatrixLayout>?::rows$|::rows$', o[1] or '') for o in _deep_origins(f, k.args[1])) and
                                                 any(o[0] == 'call' and re.search(r'MatrixLayout>?::cols$|::cols$', o[1] or '') for o in _deep_origins(f, k.args[2])) for k in dims)
                    nonempty = _nonempty_guard(f, c.bb)
                    ok = clamped and dims_ok and nonempty
                    ctx.inst(R, key, ok, 'image[p.coord()] for Bresenham points of a line whose end points are clamp_to_bounds(.., rows, cols), image known non-empty' if ok else
                             'image[p.coord()] is reached with points that are not provably inside the image (end points clamped: %s, clamped to this image\'s rows/cols: %s, empty image excluded: %s)' % (clamped, dims_ok, nonempty), c.loc())
                elif r[0] == 'rv' and r[1][0] == 'agg' and len(r[1][4]) == 2:
                    res = [_range_clipped(f, o) for o in r[1][4]]
                    ok = all(x[0] for x in res)
                    ctx.inst(R, key, ok, 'image[[y, x]] with y and x from loops over ranges clipped with max(.., 0) and min(.., size)' if ok else
                             'image[[y, x]] is indexed with loop variables whose range is not clipped to the image (%s): a shape outside the image panics (or, cast from a negative i32, indexes far out of range)' % '; '.join(x[1] for x in res if not x[0]), c.loc())
                else:
                    ctx.inst(R, key, False, 'pixel write with an index of unrecognised provenance', c.loc())
            elif re.search(r'TensorBase::<S, L>::get_mut$', cal) and _is_image(f, c.args[0]):
                n += 1
                direct[short] = direct.get(short, 0) + 1
                key = 'get_mut:%s#%d' % (short, direct[short])
                r = f.resolve_copy(c.args[1])
                ok, why = True, 'checked get_mut (Option)'
                if r[0] == 'call' and (r[1].callee or '').endswith('shapes::Point::coord'):
                    # coord() asserts non-negative coordinates: both must have been tested
                    neg = 0
                    for (op, a, b, g) in normalized_cmps(f, r[1].bb):
                        if op in ('Ge',) and op_int(b) == 0:
                            neg += 1
                        if op in ('Gt',) and op_int(b) == -1:
                            neg += 1
                    ok = neg >= 2
                    why = 'checked get_mut; Point::coord() is reached only under x >= 0 and y >= 0' if ok else \
                        'Point::coord() (which panics on negative coordinates) feeds get_mut without x >= 0 and y >= 0 tests: points left of / above the image panic instead of being skipped'
                ctx.inst(R, key, ok, why, c.loc())
            elif re.search(r'TensorBase::<.*>::(slice_mut|fill|apply|iter_mut|data_mut|lanes_mut|inner_iter_mut|axis_iter_mut|axis_chunks_mut|copy_from|index_axis_mut|split_at_mut|nd_view_mut|as_dyn_mut|permuted_mut|transposed_mut|clip_dim|get_unchecked_mut)$', cal) and _is_image(f, c.args[0]):
                # a sub-view handed straight to another drawing primitive (Painter selecting a channel) is delegation, not a write
                if cal.endswith('slice_mut') and any(k.callee and k.callee.startswith(MOD) and k.args and gi_same(f, k.args[0], c) for k in f.calls()):
                    continue
                # any other way of writing through the image view: its coordinates are not covered by forms (a)-(c)
                n += 1
                direct[short] = direct.get(short, 0) + 1
                ctx.inst(R, 'other-write:%s#%d' % (short, direct[short]), False,
                         'the image is written through %s: range-based views use NumPy slice semantics (a negative end counts from the end of the axis, an out-of-range bound panics), so clipping with max(0)/min(size) is not enough; only the three checked forms are accepted' % cal.split('::')[-1], c.loc())
            elif re.search(r'get_unchecked(_mut)?$|::offset_unchecked$', cal):
                n += 1
                ctx.inst(R, 'unchecked:%s' % short, False, 'unchecked element access in a drawing primitive', c.loc())
    ctx.floor(R, 'pixel write sites', n, 3)
    # delegation: the public primitives other than fill_rect / draw_line contain no direct write
    for f in fns:
        short = f.path.replace(MOD, '')
        if re.search(r'^(stroke_rect|draw_polygon|Painter::<.*>::draw_polygon)$', short):
            callees = {(c.callee or '').replace(MOD, '') for c in f.calls()}
            via = sorted(x for x in callees if x in ('fill_rect', 'draw_line', 'draw_polygon'))
            ctx.inst(R, 'delegates:' + short, short not in direct and bool(via), '%s writes only through %s' % (short, via) if short not in direct and via else
                     '%s writes pixels directly or through no clipped primitive' % short, f.loc())


def edge_strictness(ctx, fb, fns):
    """an inclusive coordinate (Point x / y, Rect top / left) equal to the image's height / width is outside the image:
    a comparison of one against a value read from rows() / cols() must be >= or <, never > or <="""
    R = 'C36.writes'
    n = 0
    SWAP = {'Lt': 'Gt', 'Gt': 'Lt', 'Le': 'Ge', 'Ge': 'Le'}

    def is_size(op):
        og = _deep_origins(f, op)
        return any(o[0] == 'call' and re.search(r'::(rows|cols)$', o[1] or '') for o in og) and not any(o[0] == 'binop' for o in og)

    def is_coord(op):
        og = f.origins(op)
        if any(o[0] == 'binop' for o in og):
            return False
        if any(o[0] == 'param' and len(o) > 2 and o[2] and o[2][-1] in ('x', 'y') for o in og):
            return True
        return any(o[0] == 'call' and re.search(r'shapes::Rect(<.*>)?::(top|left)$|shapes::Rect::<.*>::(top|left)$', o[1] or '') for o in og)

    for f in fns:
        short = f.path.replace(MOD, '')
        k = 0
        for i, b in enumerate(f.bbs):
            if b.get('c') or i not in f.live():
                continue
            for st in b['s']:
                if not (st[0] == '=' and st[2][0] == 'bin' and st[2][1] in SWAP):
                    continue
                op, a, c2 = st[2][1], st[2][2], st[2][3]
                if a[0] == 'k' or c2[0] == 'k':
                    continue
                sa, sb = is_size(a), is_size(c2)
                if sa == sb:
                    continue
                if sa:
                    a, c2, op = c2, a, SWAP[op]
                if not is_coord(a):
                    continue
                n += 1
                k += 1
                ok = op in ('Ge', 'Lt')
                ctx.inst(R, 'edge-compare:%s#%d' % (short, k), ok,
                         'coordinate %s image size: a coordinate equal to the size counts as outside' % ('>=' if op == 'Ge' else '<') if ok else
                         'a coordinate is compared with the image height / width using %s: a shape whose nearest coordinate equals the size lies wholly outside the image but is treated as touching it, so clamping its end points paints the last row / column (pixels outside the shape\'s bounds)' % ('>' if op == 'Gt' else '<='),
                         '%s:%s' % (f.loc().rsplit(':', 1)[0] if f.loc() else '', st[3]))
    ctx.floor(R, 'coordinate-against-size comparisons', n, 2)
    # the clamp that form (c) relies on: its upper bound is size - 1, the last valid coordinate
    m = 0
    for f in fns:
        if not f.path.endswith('drawing::clamp_to_bounds'):
            continue
        for c in f.calls():
            if re.search(r'::clamp$', c.callee or '') and len(c.args) >= 3:
                m += 1
                og = _deep_origins(f, c.args[2])
                sub = any((o[0] == 'call' and re.search(r'::(saturating_sub|checked_sub|wrapping_sub)$', o[1] or '')) or (o[0] == 'binop' and 'Sub' in str(o[1])) for o in og)
                par = any(o[0] == 'param' and o[1] in (1, 2) for o in og)
                ctx.inst(R, 'clamp-upper-is-size-minus-1#%d' % m, sub and par,
                         'clamp_to_bounds clamps to [0, size - 1]' if sub and par else
                         'clamp_to_bounds clamps a coordinate to an upper bound that is not size - 1 (size itself is one past the last row / column): image[p.coord()] then panics for a line that ends beyond the image', c.loc())
    ctx.floor(R, 'clamp calls in clamp_to_bounds', m, 2)


def fill_iter(ctx, fb, fns):
    """FillIter::next loops until no edge is active and leaves a scan line when the cursor meets bounds.right(); for an
    empty bounding rect the cursor starts AT the right bound, so an equality test after the increment never fires and the
    loop runs to i32::MAX.  Either the test is an inequality, or new() drops the edges of an empty polygon."""
    R = 'C36.fill-iter'
    nx = [f for f in fns if re.search(r'FillIter as core::iter::traits::iterator::Iterator>::next$', f.path)]
    nw = [f for f in fns if f.path.endswith('FillIter::new')]
    if not ctx.anchor(R, 'FillIter::next and FillIter::new', bool(nx) and bool(nw)):
        return
    f = nx[0]
    tests = []
    for i, b in enumerate(f.bbs):
        if b.get('c') or i not in f.live():
            continue
        for st in b['s']:
            if st[0] == '=' and st[2][0] == 'bin' and st[2][1] in ('Eq', 'Ne', 'Lt', 'Le', 'Gt', 'Ge'):
                op, a, c2 = st[2][1], st[2][2], st[2][3]
                ra = any(o[0] == 'call' and re.search(r'Rect::<.*>::right$|Rect::right$', o[1] or '') for o in f.origins(a))
                rb = any(o[0] == 'call' and re.search(r'Rect::<.*>::right$|Rect::right$', o[1] or '') for o in f.origins(c2))
                if ra == rb:
                    continue
                if ra:
                    op = {'Lt': 'Gt', 'Gt': 'Lt', 'Le': 'Ge', 'Ge': 'Le'}.get(op, op)
                tests.append((op, st[3]))
    if not ctx.anchor(R, 'scan line end test (cursor.x against bounds.right()) in FillIter::next', bool(tests)):
        return
    g = nw[0]
    drops = any(re.search(r'Vec::<.*>::(clear|truncate)$', c.callee or '') and guards_call(g, c.bb, ('re:Rect::<.*>::is_empty$', 're:Rect::is_empty$'), True) for c in g.calls())
    for k, (op, line) in enumerate(tests):
        ok = op in ('Ge', 'Gt') or drops
        ctx.inst(R, 'scanline-end-reached-or-passed#%d' % (k + 1), ok,
                 ('the scan line ends when cursor.x %s bounds.right()' % {'Ge': '>=', 'Gt': '>'}.get(op, op)) if op in ('Ge', 'Gt') else
                 ('equality test, but new() clears the edge list of a polygon with an empty bounding rect' if drops else
                  'FillIter::next ends a scan line only when cursor.x == bounds.right() after the increment, and new() puts the cursor AT bounds.right() for an empty bounding rect while still activating the edges: a zero-width polygon (two points on a vertical line, or a wide line whose rotated rect collapses) makes fill_iter / draw_line run until i32 overflows'),
                 '%s:%s' % (f.loc().rsplit(':', 1)[0], line))


def gi_same(f, op, call):
    """operand is (a move/copy of) the result of `call`"""
    r = f.resolve_copy(op)
    return r[0] == 'call' and r[1].bb == call.bb


def _deep_origins(f, op, depth=4):
    out = set()
    work = [(op, depth)]
    seen = set()
    while work:
        o, d = work.pop()
        for x in f.origins(o):
            if x in out:
                continue
            out.add(x)
            if x[0] == 'call' and d > 0 and len(x) > 2 and isinstance(x[2], int) and x[2] not in seen:
                seen.add(x[2])
                for c in f.calls():
                    if c.bb == x[2]:
                        for a in c.args:
                            work.append((a, d - 1))
    return out


def _nonempty_guard(f, bb):
    """dominating tests that rows() != 0 and cols() != 0"""
    seen = set()
    for (op, a, b, g) in normalized_cmps(f, bb):
        if op == 'Ne' and op_int(b) == 0:
            for o in f.origins(a):
                if o[0] == 'call' and re.search(r'::rows$', o[1] or ''):
                    seen.add('rows')
                if o[0] == 'call' and re.search(r'::cols$', o[1] or ''):
                    seen.add('cols')
    return seen == {'rows', 'cols'}


def no_unsafe(ctx, fb, fns):
    R = 'C36.no-unsafe'
    bad = [f.path for f in fns if f.o.get('rawderefs') or f.o.get('unsafe')]
    uc = [(f.path, c.callee) for f in fns for c in f.calls() if c.info.get('unsafe')]
    ctx.inst(R, 'drawing-module', not bad and not uc, 'no unsafe fn, raw pointer dereference or call of an unsafe fn in rten_imageproc::drawing (%d functions)' % len(fns) if not bad and not uc else
             'unsafe code in the drawing module: %s' % (bad + [u[0] for u in uc])[:3], '')
