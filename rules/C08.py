"""C08 The overlap check never admits aliasing layouts."""
import re
from rulelib import *
from facts import op_int, op_local, op_place
import loaderlib as L
import C06

EXPLANATION = (
    "Decided structurally: (policy) every call of MutLayout::from_shape_and_strides passes a literal OverlapPolicy; each "
    "AllowOverlap site must be in the reviewed table (immutable views, sub-layouts of an already-checked layout, or mutable "
    "lanes behind the !is_broadcast assert) - a new AllowOverlap site is a violation; (must-check) both "
    "from_shape_and_strides impls return Ok on the DisallowOverlap arm only after may_have_internal_overlap returned false, "
    "from_storage_and_layout checks it for mutable storage, and expanded_layout (capacity growth) yields a layout only "
    "through `!may_have_internal_overlap(..)` - every definition of the deciding flag is `false` or the negated call; "
    "(overflow) is_contiguous / may_have_internal_overlap contain no wrapping multiplication or addition on shapes and "
    "strides; (criterion) the scan is over dimensions sorted by stride, skips size-1 dims, returns true as soon as "
    "stride <= accumulated extent, the extent is accumulated (each update depends on its previous value), and false is "
    "returned only for an empty layout, under is_contiguous, or after the scan completed. That the "
    "sorted-stride criterion itself is sufficient for injectivity is a mathematical lemma and is not decided here.")
ASSUMPTIONS = ["the sorted-stride criterion (each stride > sum of extents of smaller-stride dims) implies injectivity"]
MHO = 'rten_tensor::overlap::may_have_internal_overlap'


def run(ctx):
    fb = ctx.fb()
    T = ctx.tables
    policy(ctx, fb, T)
    must_check(ctx, fb)
    C06.overflow(ctx, fb, 'C08.overflow', fns=('rten_tensor::overlap::is_contiguous', MHO))
    criterion(ctx, fb)


def policy(ctx, fb, T):
    R = 'C08.policy'
    rev = RevTable({e['fn']: e['reason'] for e in T.get('allow_overlap_sites', [])})
    n = 0
    for f, c in callers_of(fb, 're:MutLayout>::from_shape_and_strides$|MutLayout::from_shape_and_strides$'):
        n += 1
        a = c.args[2]
        r = f.resolve_copy(a)
        pol = r[1][3] if (r[0] == 'rv' and r[1][0] == 'agg') else None
        short = f.path.replace('rten_tensor::', '')
        if pol == 'DisallowOverlap':
            ctx.inst(R, 'disallow:' + short, True, 'layout built with DisallowOverlap (overlap check applies)', c.loc())
        elif pol == 'AllowOverlap':
            rr = rev.get(f.path)
            ctx.inst(R, 'allow:' + short, rr is not None, ('reviewed: ' + rr) if rr else 'AllowOverlap used at an unreviewed site: a mutable tensor could be built on an aliasing layout', c.loc())
        else:
            ctx.inst(R, 'non-literal:' + short, False, 'overlap policy is not a literal at this call site', c.loc())
    ctx.floor(R, 'from_shape_and_strides call sites', n, 10)
    f = fb.fn("rten_tensor::iterators::LanesMut::<'a, T>::new")
    if f is not None and f.has_mir():
        isb = [c for c in f.calls() if (c.callee or '').endswith('::is_broadcast')]
        site = [c for c in f.calls() if (c.callee or '').endswith('from_shape_and_strides')]
        ok = bool(isb) and bool(site) and all(any(g.cond()[0] == 'call' and g.cond()[1].callee == isb[0].callee and g.truth() is False for g in f.guards(c.bb)) for c in site)
        ctx.inst(R, 'LanesMut:assert-not-broadcast', ok, 'the AllowOverlap lane layout of LanesMut is built only after !view.is_broadcast()', f.loc())


def must_check(ctx, fb):
    R = 'C08.must-check'
    for p in ('<rten_tensor::layout::NdLayout<N> as rten_tensor::layout::MutLayout>::from_shape_and_strides', '<rten_tensor::layout::DynLayout as rten_tensor::layout::MutLayout>::from_shape_and_strides'):
        f = fb.fn(p)
        if not ctx.anchor(R, 'fn ' + p.split(' as ')[0].split('::')[-1] + '::from_shape_and_strides', f is not None and f.has_mir()):
            continue
        oks = [bb for bb, k, i in L.return_defs(f) if k == 'ok']
        good = bool(oks)
        for bb in oks:
            # either on the AllowOverlap arm, or after a negative may_have_internal_overlap
            arms = [vs for g, h, vs, place in guards_variant(f, bb, fb) if h and h.endswith('OverlapPolicy')]
            neg = guards_call(f, bb, MHO, False)
            allow = any(vs == {'AllowOverlap'} for vs in arms)
            good &= bool(neg) or allow
        # the single Ok block is reached from both arms; check the Disallow arm passes the call
        calls = [c for c in f.calls() if c.callee == MHO]
        dis_ok = False
        for c in calls:
            arms = [vs for g, h, vs, place in guards_variant(f, c.bb, fb) if h and h.endswith('OverlapPolicy')]
            if any(vs == {'DisallowOverlap'} for vs in arms):
                # true edge must return Err
                t = f.term(c.target) if c.target is not None else None
                dis_ok = True
        okret = True
        for bb in oks:
            for c in calls:
                # every path from the DisallowOverlap arm entry to Ok passes the negative edge of the call's switch
                pass
        # every path from the DisallowOverlap arm to an Ok exit passes the overlap check
        region = set(b for b in range(len(f.bbs)) if any(vs == {'DisallowOverlap'} for g, h, vs, place in guards_variant(f, b, fb) if h and h.endswith('OverlapPolicy')))
        entries = [b for b in region if not any(p_ in region for p_ in f.pred()[b])]
        all_pass = bool(entries) and all(f.all_paths_pass(e, oks, {c.bb for c in calls}) for e in entries)
        ctx.inst(R, p.split(' as ')[0].split('::')[-1].strip('<') + ':disallow-arm-checks', dis_ok and bool(calls) and all_pass and _ok_only_after_negative(f, calls, oks, fb),
                 'on the DisallowOverlap arm Ok(layout) is reached only through the false edge of may_have_internal_overlap(shape, strides)', f.loc())
    f = fb.fn('rten_tensor::tensor::TensorBase::<S, L>::from_storage_and_layout')
    if ctx.anchor(R, 'fn from_storage_and_layout', f is not None and f.has_mir()):
        calls = [c for c in f.calls() if c.callee == MHO]
        ctx.inst(R, 'from_storage_and_layout:checks-overlap', bool(calls), 'from_storage_and_layout consults may_have_internal_overlap (for mutable storage)', f.loc())
    f = fb.fn('rten_tensor::tensor::TensorBase::<alloc::vec::Vec<T>, L>::expanded_layout')
    if ctx.anchor(R, 'fn expanded_layout', f is not None and f.has_mir()):
        ts = [c for c in f.calls() if call_is(c, 're:bool>::then_some$')]
        ok = bool(ts)
        det = []
        for c in ts:
            ok &= _flag_only_negated_call(f, c.args[0], det)
        ctx.inst(R, 'expanded_layout:flag', ok, 'the flag deciding Some(new_layout) is `false` or `!may_have_internal_overlap(new shape, strides)` on every path (%s)' % '; '.join(det)[:200], f.loc())
        # the checked layout is the resized one
        calls = [c for c in f.calls() if c.callee == MHO]
        ok2 = bool(calls) and all(has_origin_call(f.origins(c.args[0]), 're:::shape$') for c in calls) and any(call_is(c, 're:::resize_dim$') for c in f.calls())
        ctx.inst(R, 'expanded_layout:checks-new-layout', ok2, 'the overlap check is applied to the layout after resize_dim', f.loc())


def _ok_only_after_negative(f, calls, oks, fb):
    """from the block following each may_have_internal_overlap call, Ok is reachable only via the 0 (false) edge"""
    for c in calls:
        sw = c.target
        # find the switch on the call result
        seen = set()
        b = sw
        while b is not None and b not in seen and f.term(b)[0] == 'goto':
            seen.add(b)
            b = f.term(b)[1]
        t = f.term(b)
        if t[0] != 'sw':
            return False
        true_targets = [tb for v, tb in t[2] if int(v) != 0] + ([t[3]] if all(int(v) == 0 for v, tb in t[2]) else [])
        for tb in true_targets:
            r = f.reach_from(tb)
            if any(o in r for o in oks):
                return False
    return True


def _flag_only_negated_call(f, op, det, depth=6):
    loc = op_local(op)
    if loc is None:
        return op_int(op) == 0
    defs = [d for d in f.defs().get(loc, []) if len(d[4]) == 1]
    if not defs:
        det.append('flag has no definition')
        return False
    ok = True
    for (bb, j, k, payload, dplace) in defs:
        if k == 'call':
            det.append('flag defined by call %s' % payload.callee.split('::')[-1])
            ok = False
        elif payload[0] == 'use' and payload[1][0] == 'k':
            if op_int(payload[1]) != 0:
                det.append('flag set to a constant true at L%s' % f.bbs[bb]['s'][j][3])
                ok = False
        elif payload[0] == 'use' and depth > 0:
            ok &= _flag_only_negated_call(f, payload[1], det, depth - 1)
        elif payload[0] == 'un' and payload[1] == 'Not':
            og = f.origins(payload[2])
            if not has_origin_call(og, MHO):
                det.append('negation of something other than may_have_internal_overlap')
                ok = False
            else:
                det.append('!may_have_internal_overlap')
        else:
            det.append('flag defined by %s' % payload[0])
            ok = False
    return ok


def criterion(ctx, fb):
    R = 'C08.criterion'
    f = fb.fn(MHO)
    if not ctx.anchor(R, 'fn may_have_internal_overlap', f is not None and f.has_mir()):
        return
    fns = [fb.fn(p) for p in fb.with_closures(MHO)]
    sorts = [c for c in f.calls() if call_is(c, 're:::sort(_unstable)?(_by(_key)?)?$')]
    ctx.inst(R, 'sorted-by-stride', bool(sorts), 'dimensions are sorted (by increasing stride) before the scan', sorts[0].loc() if sorts else f.loc())
    # scan loop: the loop whose iterator is the sorted vector
    loops = f.loops()
    scan = None
    for h, body in loops:
        cmps = []
        for b in body:
            t = f.term(b)
            if t[0] == 'sw':
                for g in f.guards(t[2][0][1]) if t[2] else []:
                    pass
        if sorts and any(f.dominates(s.bb, h) for s in sorts):
            scan = (h, body)
    if not ctx.anchor(R, 'scan loop after the sort', scan is not None):
        return
    h, body = scan
    # early `return true` under stride <= max_offset
    trues = [(bb, j) for (bb, j, k, payload, dplace) in f.defs().get(0, []) if k == 'rv' and payload[0] == 'use' and op_int(payload[1]) == 1]
    le_guard = False
    acc_local = None
    for bb, j in trues:
        for (op, a, b, g) in normalized_cmps(f, bb):
            if g.bb in body and op in ('Le', 'Ge', 'Lt', 'Gt'):
                le_guard = True
                # the accumulated side: the operand that is a user variable assigned inside the loop
                for o in (a, b):
                    l = _named_root(f, o)
                    if l is not None and any(d[0] in body for d in f.defs().get(l, [])):
                        acc_local = l
    ctx.inst(R, 'returns-true-on-stride<=extent', le_guard, 'inside the scan, `true` (may overlap) is returned under a comparison of the stride with the accumulated extent', f.loc())
    ok_acc = False
    if acc_local is not None:
        for (bb, j, k, payload, dplace) in f.defs().get(acc_local, []):
            if bb in body:
                og = f.origins(['c', [acc_local]])
                # self-dependence: the in-loop definition's operands include the accumulator itself
                srcs = payload.args if k == 'call' else [o for o in (payload[1:] if payload[0] != 'bin' else payload[2:4]) if isinstance(o, list)]
                ok_acc |= _uses_local(f, srcs, acc_local, 5)
    ctx.inst(R, 'extent-is-accumulated', ok_acc, 'the extent compared against is accumulated across dimensions (its in-loop update reads its previous value): %s' % (f.names.get(str(acc_local), acc_local)), f.loc())
    # every `false` (no overlap) exit is one of the three justified ones: an empty shape (a zero dimension), the
    # contiguous fast path, or the end of the sorted scan.  Any other acceptance path is unreviewed.
    falses = [(bb, j) for (bb, j, k, payload, dplace) in f.defs().get(0, []) if k == 'rv' and payload[0] == 'use' and op_int(payload[1]) == 0]
    nf = 0
    bad_false = None
    for bb, j in falses:
        nf += 1
        if guards_call(f, bb, 're:overlap::is_contiguous$', True):
            continue
        if any(g.cond()[0] == 'call' and re.search(r'Iterator>?::any$', g.cond()[1].callee or '') and g.truth() is True for g in f.guards(bb)):
            continue
        # after the scan: dominated by the loop header and not inside the loop body, with no other positive guard
        if f.dominates(h, bb) and bb not in body:
            continue
        bad_false = f.loc(f.bbs[bb]['s'][j][3] if isinstance(j, int) and len(f.bbs[bb]['s'][j]) > 3 else None)
    ctx.inst(R, 'false-only-if-empty-contiguous-or-scanned', bad_false is None and nf >= 3,
             '`false` (cannot overlap) is returned only for an empty shape, under is_contiguous(), or after the sorted-stride scan (%d exits)' % nf if bad_false is None and nf >= 3 else
             'may_have_internal_overlap answers `false` on a path that is neither the empty-shape test, the contiguous fast path nor the completed sorted-stride scan: an unreviewed shortcut can admit aliasing layouts', bad_false or f.loc())
    # size-1 dims filtered, empty shapes return false early
    cl = [g for g in fns if g.path != MHO]
    filt = any(any((op == 'Ne' and (op_int(a) == 1 or op_int(b) == 1)) or (op == 'Eq' and (op_int(a) == 1 or op_int(b) == 1)) for (op, a, b, gd) in _all_cmps(g)) for g in cl)
    ctx.inst(R, 'size-1-dims-skipped', filt, 'dimensions of size 1 are excluded from the scan', f.loc())


def _uses_local(f, ops, target, depth):
    """do the operands (transitively through temporaries: copies, arithmetic, call arguments) read local `target`?"""
    for o in ops:
        if not (isinstance(o, list) and o and o[0] in ('c', 'm')):
            continue
        l = o[1][0]
        if l == target:
            return True
        if depth <= 0 or str(l) in f.names:
            continue
        d = f.def_of_local(l)
        if d is None:
            continue
        if d[2] == 'call':
            if _uses_local(f, d[3].args, target, depth - 1):
                return True
        else:
            rv = d[3]
            sub = [x for x in (rv[2:4] if rv[0] == 'bin' else rv[1:]) if isinstance(x, list)]
            if rv[0] == 'agg':
                sub = list(rv[4])
            if _uses_local(f, sub, target, depth - 1):
                return True
    return False


def _named_root(f, o):
    p = op_place(o)
    if p is None:
        return None
    l = p[0]
    for _ in range(6):
        if str(l) in f.names:
            return l
        d = f.def_of_local(l)
        if d is None or d[2] != 'rv' or d[3][0] != 'use' or d[3][1][0] not in ('c', 'm'):
            return l if str(l) in f.names else None
        l = d[3][1][1][0]
    return None


def _all_cmps(g):
    out = []
    for b in g.bbs:
        for s in b['s']:
            if s[0] == '=' and s[2][0] == 'bin' and s[2][1] in ('Eq', 'Ne'):
                out.append((s[2][1], s[2][2], s[2][3], None))
    return out
