"""C33 Samplers choose only valid candidates (structural clauses: the returned ID is read from the candidate set; seeded sampling has no other entropy)."""
import re
from rulelib import *
from rulelib import _rv_operands
from facts import op_int, op_local, op_place

EXPLANATION = (
    "Decided structurally for every input: (from-candidates) for every impl of Sampler::sample the returned token ID is, on every "
    "path, a value read out of the candidate set - an element of Logits::indices() or the ID component of an item of "
    "Logits::enumerate() selected by a reduce whose closure returns one of its two arguments - followed only by moves, numeric "
    "casts and Option unwrapping; a constant, a loop position or any other computed value reaching the return is a violation; "
    "the index used with Logits::indices() is produced by an enumeration of the probabilities of the same Logits (or the "
    "literal 0 under the non-empty assertion). (seeded) the monomorphic reachability set of Multinomial::sample contains no "
    "entropy source and no re-seeding (fastrand global functions, Rng::new/default/with_seed/seed/fork, getrandom, time): all "
    "randomness comes from self.rng; Multinomial::with_seed builds that field from Rng::with_seed(seed) of its parameter and the "
    "rng field is written nowhere else. (nonzero) multinomial() yields Some(index) only under `prob > 0` for that index and the "
    "fallback index is used only on None. Maximality of arg-max is value-level and not decided.")
ASSUMPTIONS = ["fastrand::Rng is a deterministic function of its seed and call sequence"]
CRATE = 'rten_generate'
TRAIT = 'rten_generate::sampler::Sampler'
ENTROPY = re.compile(r'^fastrand::(f32|f64|u8|u16|u32|u64|usize|i\d+|bool|seed|get_seed|shuffle|choice|alphabetic|char|digit|lowercase|uppercase|alphanumeric)$|fastrand::global_rng|fastrand::Rng::(new|with_seed|seed|fork|get_seed)$|<fastrand::Rng as core::default::Default>::default|getrandom|std::time::|SystemTime|Instant::now|thread_rng|RandomState::new|std::thread::current|hashmap_random_keys')


def run(ctx):
    fb = ctx.fb()
    from_candidates(ctx, fb)
    seeded(ctx, fb)
    nonzero(ctx, fb)


def value_terminals(fb, f, op, depth=14, _seen=None):
    """walk the value flow of an operand back to terminals: list of (kind, detail)"""
    if _seen is None:
        _seen = set()
    if op is None:
        return [('unknown', 'none')]
    if op[0] == 'k':
        return [('const', str(op[1]))]
    pl = op_place(op)
    if pl is None:
        return [('unknown', str(op[0]))]
    key = (f.path, pl[0], tuple(str(e) for e in pl[1:]))
    if key in _seen or depth <= 0:
        return []
    _seen.add(key)
    l = pl[0]
    flds = [str(e[1]) for e in pl[1:] if isinstance(e, list) and e[0] == 'f']
    idxs = [e[1] for e in pl[1:] if isinstance(e, list) and e[0] == 'i']
    if idxs:
        src = f.resolve_copy(['c', [l]])
        if src[0] == 'call' and (src[1].callee or '').endswith('Logits::indices'):
            return [('candidate-index', (src[1], ['c', [idxs[0]]]))]
        return [('unknown', 'indexed read of ' + (src[1].callee if src[0] == 'call' else str(src[0])))]
    if 1 <= l <= f.argc:
        return [('param', (l - 1, tuple(flds), f.path))]
    out = []
    ds = f.defs().get(l, [])
    if not ds:
        return [('unknown', 'undefined _%d' % l)]
    for d in ds:
        if d[2] == 'call':
            c = d[3]
            cal = c.callee or ''
            if re.search(r'Index<.*>>::index$|::index$', cal) and len(c.args) == 2:
                src = f.resolve_copy(c.args[0])
                if src[0] == 'call' and (src[1].callee or '').endswith('Logits::indices'):
                    out.append(('candidate-index', (c, c.args[1])))
                else:
                    out.append(('unknown', 'index of ' + str(src[0])))
            elif re.search(r'Option::<T>::(expect|unwrap)$|Result::<T, E>::(expect|unwrap)$', cal):
                out += value_terminals(fb, f, c.args[0], depth - 1, _seen)
            elif re.search(r'Option::<T>::unwrap_or$', cal):
                out += value_terminals(fb, f, c.args[0], depth - 1, _seen)
                out += value_terminals(fb, f, c.args[1], depth - 1, _seen)
            elif re.search(r'Iterator>?::reduce$', cal):
                # an item of the iterator if the closure returns one of its two arguments
                it = iter_source(f, c.args[0])
                clo = f.resolve_copy(c.args[1])
                ok = False
                if clo[0] == 'rv' and clo[1][0] == 'agg' and clo[1][1] == 'closure':
                    ok = closure_returns_an_argument(fb, clo[1][2])
                if it is not None and (it.callee or '').endswith('Logits::enumerate') and ok:
                    out.append(('candidate-item', (c, tuple(flds))))
                else:
                    out.append(('unknown', 'reduce over %s with a closure that %s' % ((it.callee if it else '?'), 'selects' if ok else 'computes')))
            elif re.search(r'Option::<T>::map$', cal):
                clo = f.resolve_copy(c.args[1])
                if clo[0] == 'rv' and clo[1][0] == 'agg' and clo[1][1] == 'closure':
                    cf = fb.fn(clo[1][2])
                    if cf is not None and cf.has_mir():
                        out += value_terminals(fb, cf, ['c', [0]], depth - 1, _seen)
                        continue
                out.append(('unknown', 'map'))
            elif re.search(r'::(clone|into|from|as_usize|try_into)$', cal) and c.args:
                out += value_terminals(fb, f, c.args[0], depth - 1, _seen)
            else:
                out.append(('unknown', 'call ' + cal.split('::')[-1]))
        else:
            rv = d[3]
            if rv[0] == 'use':
                o = rv[1]
                p2 = op_place(o)
                if p2 is not None and flds and len(d[4]) == 1:
                    o = [o[0], p2 + [['f', int(x) if x.isdigit() else x, x, ''] for x in flds]]
                out += value_terminals(fb, f, o, depth - 1, _seen)
            elif rv[0] == 'cast':
                out += value_terminals(fb, f, rv[2], depth - 1, _seen)
            elif rv[0] in ('ref', 'raw'):
                out += value_terminals(fb, f, ['c', rv[2]], depth - 1, _seen)
            elif rv[0] == 'agg' and rv[1] == 'tuple' and flds and flds[0].isdigit() and int(flds[0]) < len(rv[4]):
                out += value_terminals(fb, f, rv[4][int(flds[0])], depth - 1, _seen)
            elif rv[0] == 'agg' and rv[1] == 'tuple' and not flds:
                for o in rv[4]:
                    out += value_terminals(fb, f, o, depth - 1, _seen)
            else:
                out.append(('unknown', 'rvalue ' + rv[0]))
    return out


def iter_source(f, op, depth=8):
    """the call that creates the iterator an operand refers to (through by_ref / into_iter / refs)"""
    r = f.resolve_copy(op)
    while depth > 0 and r[0] == 'call':
        depth -= 1
        c = r[1]
        if re.search(r'::(into_iter|by_ref|peekable|fuse)$', c.callee or '') and c.args:
            r = f.resolve_copy(c.args[0])
            continue
        return c
    return None


def closure_returns_an_argument(fb, path):
    cf = fb.fn(path)
    if cf is None or not cf.has_mir():
        return False
    terms = value_terminals(fb, cf, ['c', [0]])
    if not terms:
        return False
    for (k, d) in terms:
        if k != 'param' or d[0] not in (1, 2):
            return False
    return True


def from_candidates(ctx, fb):
    R = 'C33.from-candidates'
    n = 0
    for imp in fb.impls(trait=TRAIT):
        p = imp['items'].get('sample', (None, None))[1]
        f = fb.fn(p) if p else None
        if f is None or not f.has_mir():
            continue
        n += 1
        name = re.sub(r'rten_generate::sampler::| as Sampler>::sample|<', '', p)
        terms = value_terminals(fb, f, ['c', [0]])
        bad = [t for t in terms if t[0] not in ('candidate-index', 'candidate-item')]
        ok = bool(terms) and not bad
        if ok:
            why = 'the returned ID is always read from the candidate set (%s)' % ', '.join(sorted(set(t[0] for t in terms)))
        elif bad:
            k, d = bad[0]
            why = 'a value that is not read from the candidate set can be returned as the token ID: %s %s' % (k, d if not isinstance(d, tuple) else d[:2])
        else:
            why = 'cannot trace the returned value'
        ctx.inst(R, 'returns:' + name, ok, why, f.loc())
        # the index into indices() comes from an enumeration of this Logits' probabilities, or the literal 0 under non-empty
        for (k, d) in terms:
            if k == 'candidate-index':
                c, idx_op = d
                it = value_terminals(fb, f, idx_op)
                okk = True
                whyk = []
                for (k2, d2) in it:
                    if k2 == 'const':
                        if str(d2).split('_')[0] != '0' or not guards_call(f, c.bb, 're:Logits::is_empty$', truth=False):
                            okk = False
                            whyk.append('constant index %s without a non-empty check' % d2)
                    elif k2 == 'unknown' and str(d2).startswith('call multinomial'):
                        continue
                    else:
                        okk = False
                        whyk.append('%s %s' % (k2, d2))
                ctx.inst(R, 'index:' + name, okk, 'position comes from multinomial() over the probabilities of the same logits, or 0 under !is_empty()' if okk else
                         'the position used to read Logits::indices() is ' + '; '.join(whyk), c.loc())
    ctx.floor(R, 'impls of Sampler::sample', n, 2)
    # multinomial() returns a position of its probs slice
    m = fb.fn('rten_generate::sampler::multinomial')
    ok = False
    if m is not None and m.has_mir():
        somes = []
        for i, b in enumerate(m.bbs):
            if b.get('c') or i not in m.live():
                continue
            for s in b['s']:
                if s[0] == '=' and s[2][0] == 'agg' and s[2][3] == 'Some':
                    somes.append(s[2][4][0])
        ok = bool(somes)
        for x in somes:
            ts = value_terminals(fb, m, x)
            if not ts or any(t != ('unknown', 'call next') for t in ts) or not any(o[0] == 'call' and re.search(r'Enumerate<I> as .*Iterator>::next$', o[1] or '') for o in m.origins(x)):
                ok = False
    ctx.inst(R, 'multinomial:position-of-probs', ok, 'multinomial() returns Some(idx) only for an idx produced by probs.iter().enumerate()', m.loc() if m else '')


def seeded(ctx, fb):
    R = 'C33.seeded'
    roots = [r for r in fb.reach_roots() if 'Multinomial' in r and r.endswith('::sample')]
    if not roots:
        ctx.inst(R, 'reach:Multinomial::sample', False, 'no monomorphic reachability set for Multinomial::sample', '')
        return
    Rr = fb.reach(roots[0])
    hits = Rr.find(lambda p: bool(ENTROPY.search(p)))
    ctx.inst(R, 'no-entropy-in-sample', not hits, 'Multinomial::sample reaches no entropy source or re-seeding (%d functions reachable)' % len(Rr.nodes) if not hits else
             'Multinomial::sample reaches %s: sampling is not a function of the seed and the inputs' % ' -> '.join(x.split('::')[-1] for x in Rr.chain(hits[0])[-3:]), '')
    uses_rng = Rr.find(lambda p: p.startswith('fastrand::Rng::'))
    ctx.inst(R, 'uses-own-rng', bool(uses_rng), 'randomness is drawn from a fastrand::Rng value (self.rng)', '')
    # with_seed
    w = fb.fn('rten_generate::sampler::Multinomial::with_seed')
    ok = False
    if w is not None and w.has_mir():
        for i, b in enumerate(w.bbs):
            if b.get('c'):
                continue
            for s in b['s']:
                if s[0] == '=' and s[2][0] == 'agg' and str(s[2][2]).endswith('Multinomial'):
                    adt = fb.adt(s[2][2])
                    idx = [j for j, fd in enumerate(adt['variants'][0]['fields']) if fd['name'] == 'rng'] if adt else []
                    if idx:
                        r1 = w.resolve_copy(s[2][4][idx[0]])
                        if r1[0] == 'call' and (r1[1].callee or '').endswith('RefCell::<T>::new'):
                            r2 = w.resolve_copy(r1[1].args[0])
                            if r2[0] == 'call' and (r2[1].callee or '').endswith('fastrand::Rng::with_seed'):
                                r3 = w.resolve_copy(r2[1].args[0])
                                ok = r3[0] == 'param' and r3[1] == 0
    ctx.inst(R, 'with_seed:uses-seed', ok, 'Multinomial::with_seed stores Rng::with_seed(seed) of its parameter', w.loc() if w else '')
    # rng field written only by constructors
    wr = []
    for (f, bb, line, how) in field_writes(fb, 'rten_generate::sampler::Multinomial', crates=[CRATE]) if False else []:
        pass
    n_agg = 0
    bad = []
    for (f, bb, ops, line) in [(x[0], x[1], x[2], x[3]) for x in aggregates_of(fb, 'rten_generate::sampler::Multinomial', crates=[CRATE])]:
        n_agg += 1
        if not re.search(r'Multinomial::(new|with_seed)$|Multinomial as core::(default::Default|clone::Clone)>', f.path):
            bad.append(f.path)
    ctx.inst(R, 'constructed-only-by-constructors', not bad and n_agg >= 2, 'Multinomial values are built only in new / with_seed / derived Default and Clone' if not bad else 'Multinomial is constructed in %s' % bad[0], '')



def nonzero(ctx, fb):
    """'multinomial sampling returns only IDs ... with non-zero probability': in the helper that turns the random target into
    an index, every `Some(index)` it can return or remember is built under a `prob > 0` test of the probability read in the
    same iteration; the caller uses a fallback index only on the None result (no candidate with prob > 0, i.e. NaN input)."""
    R = 'C33.nonzero'
    f = fb.fn('rten_generate::sampler::multinomial')
    if not ctx.anchor(R, 'sampler::multinomial', f is not None and f.has_mir()):
        return
    n, bad = 0, []

    def guarded(bb):
        for (op, a, b2, g) in normalized_cmps(f, bb):
            if op == 'Gt' and b2[0] == 'k' and re.match(r'^0(\.0*)?(f32|f64)?$', str(b2[1])):
                # the compared value is an element of the probabilities (read through the iterator), not the target
                if any(o[0] == 'call' and re.search(r'Iterator>?::next$', o[1] or '') for o in f.origins(a)):
                    return True
        return False

    # every value that can reach the return place: Some(..) under the test, None, or a copy of such a local
    seen, work = set(), [0]
    while work:
        l = work.pop()
        if l in seen:
            continue
        seen.add(l)
        for (bb, j2, kind, payload, pl) in f.defs().get(l, []):
            if kind == 'call':
                bad.append('result of %s' % (payload.callee or '?').split('::')[-1])
                continue
            rv = payload
            if rv[0] == 'agg' and rv[3] == 'Some':
                n += 1
                if not guarded(bb):
                    bad.append('Some(..) at line %s' % f.loc().split(':')[0])
            elif rv[0] == 'agg' and rv[3] == 'None':
                pass
            elif rv[0] == 'use' and op_local(rv[1]) is not None:
                work.append(op_local(rv[1]))
            elif rv[0] == 'use' and rv[1][0] == 'k':
                if 'None' not in str(rv[1][1]):
                    bad.append('constant %s' % rv[1][1])
            else:
                bad.append('computed value (%s)' % rv[0])
    ctx.inst(R, 'index-only-under-positive-probability', n >= 1 and not bad,
             'every Some(index) (%d) is built under `prob > 0` for the probability of that index' % n if not bad else
             'an index can be returned without a `prob > 0` test of its probability (%s): a masked (-inf logit, probability 0) candidate can be selected when rounding leaves the cumulative sum below the target' % '; '.join(bad[:3]), f.loc())
    # caller: fallback index only through unwrap_or on the helper's Option
    s = [x for x in fb.fns(crate=CRATE) if x.path.endswith('Multinomial as rten_generate::sampler::Sampler>::sample') and x.has_mir()]
    if ctx.anchor(R, 'Multinomial::sample', len(s) == 1):
        g = s[0]
        uo = [c for c in g.calls() if re.search(r'Option::<T>::unwrap_or(_default|_else)?$', c.callee or '')]
        ok = len(uo) == 1 and g.resolve_copy(uo[0].args[0])[0] == 'call' and (g.resolve_copy(uo[0].args[0])[1].callee or '').endswith('sampler::multinomial')
        ctx.inst(R, 'index-from-helper', ok, 'the index into Logits::indices() is multinomial(..).unwrap_or(fallback): the fallback is used only when no candidate has a positive probability', g.loc())
