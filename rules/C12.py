"""C12 Declared operator output types match produced types (structural clauses)."""
import re
from rulelib import *
from rulelib import _rv_operands
from facts import op_int, op_local, op_place
import C02

THOROUGH_CFGS = ('min_none', 'min_rten', 'min_onnx')   # reduced-feature builds of the rten crate (thorough tier)

EXPLANATION = (
    "Decided for every impl of Operator (macro-generated ones included), for all inputs: (fixed) when output_types declares "
    "Fixed(Tensor(D)) with a constant D, the set of element types T for which a Tensor<T> -> Value conversion "
    "(<Value as From<Tensor<T>>>::from, IntoOpResult) is monomorphically reachable from run / run_in_place is {rust(D)}, except "
    "reviewed intermediates (fused integer operators run their integer core first); (attr) when the declared type is an "
    "attribute (Cast.to, ConstantOfShape value, EyeLike dtype, QuantizeLinear.output_dtype, ...), every conversion site reached "
    "under a test of that attribute (in run or in a callee that receives it) produces the tested type; (copy-arm) when the "
    "declared type is CopyFromInput(i), every conversion site that is dominated (through closure creation sites and one call "
    "level) by a match of input i against a tensor variant produces that variant's element type, and i is below max_inputs; "
    "(consumer) CastElimination removes a Cast only under a comparison of the input's inferred dtype with the cast's target "
    "type, and graph inference pairs declared types / inferred shapes with output ids by position (zip over output_ids().iter() "
    "with no dropping or reordering adapter). Operators whose output_types is None or not a literal rule list are enumerated against a reviewed table. Whether the "
    "type-specific kernels compute the right values is not decided.")
ASSUMPTIONS = ["outputs are created through the Tensor<T> -> Value conversions or by returning (a copy of) an input value"]
RT = {'Float': 'f32', 'Int32': 'i32', 'Int8': 'i8', 'UInt8': 'u8'}
TENSOR_VARIANT = {'FloatTensor': 'f32', 'Int32Tensor': 'i32', 'Int8Tensor': 'i8', 'UInt8Tensor': 'u8'}
OP_TRAIT = 'rten::operator::Operator'
CONV = re.compile(r'(core::convert::Into<U>>::into$|core::convert::From<.*>>::from$|IntoOpResult>?::into_op_result$|::into$)')


def run(ctx):
    fb = ctx.fb()
    T = ctx.tables
    ops = operators(fb)
    ctx.floor('C12.fixed', 'impls of Operator with an output_types body', len(ops), 150)
    fixed(ctx, fb, ops, T)
    attr(ctx, fb, ops, T)
    copy_arm(ctx, fb, ops, T)
    consumer(ctx, fb)


def opname(p):
    return re.sub(r'^<|rten::ops::| as rten::operator::Operator>::\w+$', '', p)


def operators(fb):
    out = []
    for imp in fb.impls(trait=OP_TRAIT):
        it = imp['items']
        p = it.get('output_types', (None, None))[1]
        f = fb.fn(p) if p else None
        if f is None or not f.has_mir():
            continue
        out.append(dict(name=opname(p), otf=f, items=it, decl=declared(fb, f)))
    return out


def declared(fb, f):
    """[(rule, detail)] from the OutputType aggregates in output_types; detail: ('Tensor'|'Sequence', 'Float'..|'attr', operand) / index"""
    kinds = []
    for i, b in enumerate(f.bbs):
        if b.get('c') or i not in f.live():
            continue
        for s in b['s']:
            if s[0] == '=' and s[2][0] == 'agg' and s[2][1] == 'adt' and str(s[2][2]).endswith('::OutputType'):
                v = s[2][3]
                det = None
                if v == 'Fixed':
                    r = f.resolve_copy(s[2][4][0])
                    if r[0] == 'rv' and r[1][0] == 'agg':
                        inner = r[1][4][0] if r[1][4] else None
                        r2 = f.resolve_copy(inner) if inner else None
                        if r2 and r2[0] == 'rv' and r2[1][0] == 'agg' and not r2[1][4]:
                            det = (r[1][3], str(r2[1][3]), None)
                        else:
                            det = (r[1][3], 'attr', inner)
                    else:
                        det = ('?', 'attr', s[2][4][0])
                elif v in ('CopyFromInput', 'ElementTypeOfInputSequence', 'SequenceWithElementTypeOfInput'):
                    det = op_int(s[2][4][0])
                kinds.append((v, det))
    return kinds


def reach_of(fb, path):
    if not path:
        return None
    root = '<' + path.replace('>::', '>>::', 1)
    for cand in (root, path):
        try:
            r = fb.reach(cand)
        except Exception:
            r = None
        if r is not None:
            return r
    return None


def produced(fb, path):
    R = reach_of(fb, path)
    if R is None:
        return None
    out = {}
    for i, (d, inst, n) in enumerate(R.instances()):
        m = re.search(r'<rten::value::Value as core::convert::From<rten_tensor::tensor::TensorBase<alloc::vec::Vec<(\w+)>', inst)
        if m:
            out.setdefault(m.group(1), i)
    return R, out


def fixed(ctx, fb, ops, T):
    R = 'C12.fixed'
    inter = {e['op']: e for e in T.get('intermediate_types', [])}
    n = 0
    for o in ops:
        fx = [d for d in o['decl'] if d[0] == 'Fixed' and d[1] and d[1][1] != 'attr' and d[1][0] == 'Tensor']
        if not fx:
            continue
        want = set(RT.get(d[1][1]) for d in fx)
        for m in ('run', 'run_in_place'):
            p = o['items'].get(m, (None, None))[1]
            if not p or not p.startswith('<'):
                continue
            pr = produced(fb, p)
            if pr is None:
                if m == 'run':
                    ctx.inst(R, '%s:%s' % (o['name'], m), False, 'no monomorphic reachability set for %s' % p, o['otf'].loc())
                continue
            Rr, got = pr
            n += 1
            extra = set(got) - want
            allowed = set(inter.get(o['name'], {}).get('types', []))
            bad = extra - allowed
            if bad:
                t = sorted(bad)[0]
                chain = ' -> '.join(x.split('::')[-1] for x in Rr.chain(got[t])[-4:])
                ctx.inst(R, '%s:%s' % (o['name'], m), False, 'declares Fixed(%s) but %s can produce a %s tensor (%s)' % ('/'.join(sorted(want)), m, t, chain), o['otf'].loc())
            else:
                why = 'declares Fixed(%s); %s only converts %s tensors to values' % ('/'.join(sorted(want)), m, '/'.join(sorted(set(got) & want)) or 'no')
                if extra:
                    why += ' (reviewed intermediate %s: %s)' % ('/'.join(sorted(extra)), inter[o['name']]['reason'])
                ctx.inst(R, '%s:%s' % (o['name'], m), True, why, o['otf'].loc())
    ctx.floor(R, 'Fixed(constant) declarations checked against run / run_in_place', n, 30)
    # rule lists that are not literal aggregates
    rev = {e['op']: e['reason'] for e in T.get('unparsed_reviewed', [])}
    for o in ops:
        if not o['decl']:
            r = rev.get(o['name'])
            ctx.inst(R, 'non-literal:' + o['name'], r is not None, ('reviewed: ' + r) if r else 'output_types is not a literal rule list and is not reviewed', o['otf'].loc())


# ---------------------------------------------------------------------------------------------------------------
def conv_sites(fb, f):
    """(Call, T) for Tensor<T> -> Value / OpResult conversion call sites with a concrete T"""
    out = []
    for c in f.calls():
        if not CONV.search(c.callee or ''):
            continue
        ga = str(c.info.get('ga') or '')
        m = re.match(r'^\[(?:core::result::Result<)?rten_tensor::tensor::TensorBase<alloc::vec::Vec<(\w+)(?:, alloc::alloc::Global)?>', ga)
        if not m:
            continue
        if m.group(1) not in ('f32', 'i32', 'i8', 'u8'):
            continue
        if not re.search(r'rten::value::Value|into_op_result|OutputList|SmallVec', ga + (c.callee or '')):
            continue
        out.append((c, m.group(1)))
    return out


def variant_guards(fb, f, bb):
    """[(Fn, place, enum head, {variants})] over guards at bb and at enclosing closure creation sites"""
    out = []
    for (gf, g) in C02.inherited_guards(fb, f, bb):
        v = guard_variants(g, fb)
        if v and v[1] is not None:
            out.append((gf, v[2], v[0], v[1]))
    return out


def input_index(fb, f, place, depth=2):
    """index i if the place holds (a view of) operator input i: origin is InputList::require/get/require_as(i) or
    a parameter bound to such a value by every caller in rten::ops (one level)"""
    og = f.place_origins([e for e in place if not (isinstance(e, list) and e[0] == 'd')])
    idxs = set()
    if any(o[0] == 'call' and re.search(r'InPlaceInputs::', o[1] or '') for o in og):
        return None
    for o in og:
        if o[0] == 'call' and re.search(r'InputList::<.*>::(require|get|require_as|get_as)$|InputList::(require|get|require_as|get_as)$', o[1] or ''):
            for c in f.calls():
                if c.bb == o[2] and c.callee == o[1] and len(c.args) >= 2 and op_int(c.args[1]) is not None:
                    idxs.add(op_int(c.args[1]))
        if o[0] == 'param' and depth > 0 and o[1] >= 1:
            for (cf, c) in callers_of(fb, f.path, crates=['rten']):
                if o[1] < len(c.args):
                    pl = op_place(c.args[o[1]])
                    if pl:
                        i = input_index(fb, cf, pl, depth - 1)
                        if i is not None:
                            idxs.add(i)
    if len(idxs) == 1:
        return list(idxs)[0]
    return None


def fns_of_op(fb, o, extra_depth=1):
    """run / run_in_place bodies, their closures, and workspace callees in rten::ops one call level down (with closures)"""
    out = []
    seen = set()
    work = []
    for m in ('run', 'run_in_place'):
        p = o['items'].get(m, (None, None))[1]
        if p:
            work.append((p, 0))
    while work:
        p, d = work.pop()
        if p in seen:
            continue
        seen.add(p)
        f = fb.fn(p)
        if f is None or not f.has_mir():
            continue
        out.append(f)
        for cp in fb.closures_of(p):
            work.append((cp, d))
        if d < extra_depth:
            for c in f.calls():
                r = c.info.get('r')
                if r and c.info.get('rk') != 'virtual' and r.startswith(('rten::ops::', '<rten::ops::')):
                    work.append((r, d + 1))
    return out


def copy_arm(ctx, fb, ops, T):
    R = 'C12.copy-arm'
    nsite = 0
    nop = 0
    for o in ops:
        cp = [d for d in o['decl'] if d[0] == 'CopyFromInput' and d[1] is not None]
        if not cp:
            continue
        # index below max_inputs
        mi = fb.fn(o['items'].get('max_inputs', (None, None))[1] or '')
        if mi is not None and mi.has_mir():
            lim = None
            for (bb, j, kind, payload, dpl) in mi.defs().get(0, []):
                if kind != 'call' and payload[0] == 'agg' and payload[3] == 'Some' and op_int(payload[4][0]) is not None:
                    lim = op_int(payload[4][0])
            if lim is not None:
                for d in cp:
                    ctx.inst(R, 'index:%s' % o['name'], d[1] < lim, 'CopyFromInput(%d) with max_inputs = %d' % (d[1], lim), o['otf'].loc())
        if len(o['decl']) != len(cp) or len(set(d[1] for d in cp)) != 1:
            continue
        i = cp[0][1]
        nop += 1
        bad = None
        checked = 0
        for f in fns_of_op(fb, o):
            for (c, t) in conv_sites(fb, f):
                for (gf, place, head, vs) in variant_guards(fb, f, c.bb):
                    if not re.search(r'value::(ValueView|Value)$', head or '') or len(vs) != 1:
                        continue
                    v = list(vs)[0]
                    if v not in TENSOR_VARIANT:
                        continue
                    if input_index(fb, gf, place) != i:
                        continue
                    checked += 1
                    if TENSOR_VARIANT[v] != t:
                        bad = (c.loc(), v, t)
        nsite += checked
        # input i is taken at a single element type (require_as::<TensorView<T>>(i)): everything produced must be T
        typed, untyped = set(), False
        for m_ in ('run', 'run_in_place'):
            p_ = o['items'].get(m_, (None, None))[1]
            for f in ([fb.fn(p_)] + [fb.fn(q) for q in fb.closures_of(p_)]) if p_ else []:
                if f is None or not f.has_mir():
                    continue
                for c in f.calls():
                    if re.search(r'InputList::<.*>::(require|get|require_as|get_as)$', c.callee or '') and len(c.args) >= 2 and op_int(c.args[1]) == i:
                        ga = str(c.info.get('ga') or '')
                        mm = re.search(r'ViewData<[^,]*, (\w+)>|^\[[^,]*, (f32|i32|i8|u8)\]$', ga)
                        if c.callee.endswith('_as') and mm:
                            typed.add(mm.group(1) or mm.group(2))
                        else:
                            untyped = True
                    if re.search(r'InPlaceInputs::', c.callee or ''):
                        untyped = True
        if typed and not untyped and len(typed) == 1:
            pr = produced(fb, o['items'].get('run', (None, None))[1])
            if pr is not None:
                got = set(pr[1])
                other = got - typed
                checked += 1
                if other and bad is None:
                    bad = (o['otf'].loc(), 'taken as %s tensor' % list(typed)[0], sorted(other)[0])
        if checked or bad:
            ctx.inst(R, 'arms:' + o['name'], bad is None, ('%d conversion site(s) under a match of input %d produce the matched element type' % (checked, i)) if bad is None else
                     'declares CopyFromInput(%d) but where input %d is %s a %s tensor is produced' % (i, i, bad[1], bad[2]), bad[0] if bad else o['otf'].loc())
    ctx.floor(R, 'operators declaring CopyFromInput', nop, 100)
    ctx.floor(R, 'conversion sites under a match of the copied input', nsite, 40)


# ---------------------------------------------------------------------------------------------------------------
def attr(ctx, fb, ops, T):
    R = 'C12.attr'
    n = 0
    for o in ops:
        fa = [d for d in o['decl'] if d[0] == 'Fixed' and d[1] and d[1][1] == 'attr']
        if not fa:
            continue
        # the attribute field(s) the declared type is read from
        fields = set()
        for d in fa:
            if d[1][2] is not None:
                otf = o['otf']
                for og in otf.origins(d[1][2]):
                    if og[0] == 'param' and og[1] == 0 and len(og) > 2 and og[2]:
                        fields.add(str(og[2][0]))
                    if og[0] == 'call' and re.search(r'::dtype$', og[1] or ''):
                        for c in otf.calls():
                            if c.bb == og[2] and c.callee == og[1]:
                                for o2 in otf.origins(c.args[0]):
                                    if o2[0] == 'param' and o2[1] == 0 and len(o2) > 2 and o2[2]:
                                        fields.add(str(o2[2][0]))
        if not fields:
            ctx.inst(R, 'field:' + o['name'], False, 'cannot identify the attribute the declared type is read from', o['otf'].loc())
            continue
        n += 1
        bad = None
        checked = 0
        for f in fns_of_op(fb, o):
            for (c, t) in conv_sites(fb, f):
                for (gf, place, head, vs) in variant_guards(fb, f, c.bb):
                    if not re.search(r'value::(DataType|Scalar)$', head or '') or len(vs) != 1:
                        continue
                    v = list(vs)[0]
                    if v not in RT:
                        continue
                    if not is_attr_place(fb, gf, place, fields, o):
                        continue
                    checked += 1
                    if RT[v] != t:
                        bad = (c.loc(), v, t)
        # ... and no conversion site in run / run_in_place escapes the attribute: each is dominated by *some* test of it
        # (a type-deciding arm, or the None / default arm of an optional attribute); a site under no test produces its type
        # whatever the attribute says, while output_types() still declares the attribute's type
        unguarded = []
        n_sites = 0
        for f in fns_of_op(fb, o):
            if 'Operator>::run' not in f.path:
                continue
            for (c, t) in conv_sites(fb, f):
                n_sites += 1
                tested = False
                for (gf, place, head, vs) in variant_guards(fb, f, c.bb):
                    if strict_attr_place(fb, gf, place, fields, o):
                        tested = True
                if not tested:
                    # or-patterns (`Some(T) | None`) leave no single dominating edge: the site is still tested if every path
                    # to it goes through a switch on the attribute, one of which has a target that cannot reach the site
                    sws = []
                    for i, b in enumerate(f.bbs):
                        if b.get('c') or i not in f.live() or b['t'][0] != 'sw':
                            continue
                        r = f.resolve_copy(b['t'][1])
                        pl = None
                        if r[0] == 'rv' and r[1][0] == 'disc':
                            pl = r[1][1]
                        elif r[0] == 'place':
                            pl = r[1]
                        if pl is not None and strict_attr_place(fb, f, pl, fields, o):
                            sws.append(i)
                    if sws and c.bb not in f.reach_from(0, avoid=set(sws)):
                        for i in sws:
                            t_ = f.bbs[i]['t']
                            targets = [tb for v, tb in t_[2]] + [t_[3]]
                            if any(c.bb in f.reach_from(tb) or tb == c.bb for tb in targets) and any(c.bb not in f.reach_from(tb) and tb != c.bb for tb in targets):
                                tested = True
                if not tested:
                    unguarded.append((c.loc(), t))
        ctx.inst(R, 'all-sites-tested:%s' % o['name'], not unguarded, 'all %d result conversion sites in run / run_in_place are under a test of self.%s' % (n_sites, '/'.join(sorted(fields))) if not unguarded else
                 'a %s result is produced at %s under no test of self.%s, although output_types() declares the attribute\'s type: when the attribute names another type the value is mislabelled (and a following Cast to the declared type is eliminated)' % (unguarded[0][1], unguarded[0][0], '/'.join(sorted(fields))),
                 unguarded[0][0] if unguarded else o['otf'].loc())
        ctx.inst(R, 'arms:%s' % o['name'], bad is None, ('declared type is self.%s; %d conversion site(s) under a test of it produce the tested type' % ('/'.join(sorted(fields)), checked)) if bad is None else
                 'declares Fixed(self.%s) but under `%s == %s` a %s tensor is produced' % ('/'.join(sorted(fields)), '/'.join(sorted(fields)), bad[1], bad[2]), bad[0] if bad else o['otf'].loc())
    ctx.floor(R, 'operators whose declared type is an attribute', n, 4)


def strict_attr_place(fb, f, place, fields, o):
    """like is_attr_place, but a projection into a tuple built in this function (`match (a, self.attr) {..}`) is resolved
    to the tuple operand it selects, so a test of the *other* component does not count as a test of the attribute"""
    if len(place) >= 2 and isinstance(place[1], list) and place[1][0] == 'f':
        ds = f.defs().get(place[0], [])
        if len(ds) == 1 and ds[0][2] == 'rv' and ds[0][3][0] == 'agg' and ds[0][3][1] == 'tuple':
            ops_ = ds[0][3][4]
            idx = int(place[1][1])
            if idx < len(ops_):
                og = f.origins(ops_[idx])
                return any(x[0] == 'param' and x[1] == 0 and len(x) > 2 and x[2] and str(x[2][0]) in fields for x in og)
    return is_attr_place(fb, f, place, fields, o)


def is_attr_place(fb, f, place, fields, o, depth=2):
    og = f.place_origins(place if not any(isinstance(e, list) and e[0] == 'd' for e in place) else [place[0]])
    og = og | f.place_origins([place[0]])
    for x in og:
        if x[0] == 'param' and x[1] == 0 and len(x) > 2 and x[2] and str(x[2][0]) in fields and ('Operator>::' in f.path):
            return True
        if x[0] == 'upvar':
            og2, of = outer_origins(fb, f, ['c', [place[0]]])
            if any(y[0] == 'param' and y[1] == 0 and len(y) > 2 and y[2] and str(y[2][0]) in fields for y in og2) and 'Operator>::' in of.path:
                return True
        if x[0] == 'param' and depth > 0 and 'Operator>::' not in f.path:
            # a callee parameter: bound to self.<field> at every call from this operator's run / run_in_place
            ok_any = False
            for m in ('run', 'run_in_place'):
                p = o['items'].get(m, (None, None))[1]
                for cf in [fb.fn(p)] + [fb.fn(q) for q in fb.closures_of(p or '')] if p else []:
                    if cf is None or not cf.has_mir():
                        continue
                    for c in cf.calls():
                        if (c.info.get('r') or c.callee) == f.path and x[1] < len(c.args):
                            ao, af = outer_origins(fb, cf, c.args[x[1]])
                            if any(y[0] == 'param' and y[1] == 0 and len(y) > 2 and y[2] and str(y[2][0]) in fields for y in set(ao) | set(cf.origins(c.args[x[1]]))):
                                ok_any = True
            if ok_any:
                return True
    return False


# ---------------------------------------------------------------------------------------------------------------
def consumer(ctx, fb):
    R = 'C12.consumer'
    fs = [f for f in fb.fns(crate='rten') if re.search(r'CastElimination as .*FusionVisitor>::maybe_fuse$', f.path) and f.has_mir()]
    if not fs:
        ctx.inst(R, 'anchor:CastElimination', False, 'CastElimination::maybe_fuse not found', '')
        return
    f = fs[0]
    ok = False
    n = 0
    for i, b in enumerate(f.bbs):
        if b.get('c') or i not in f.live():
            continue
        for s in b['s']:
            if s[0] == '=' and s[2][0] == 'agg' and s[2][3] == 'Identity':
                n += 1
                # dominated by `input dtype == Tensor(to)`: a PartialEq::ne false / eq true guard whose operands are node dtype and cast.to
                for g in f.guards(i):
                    c, t = unwrap_not(g.cond(), g.truth())
                    if c[0] == 'call' and re.search(r'PartialEq>?::(ne|eq)$', c[1].callee or ''):
                        holds_eq = ((c[1].callee or '').endswith('::eq')) == t
                        og = set()
                        for a in c[1].args:
                            og |= f.origins(a)
                        has_dtype = any(o[0] == 'call' and re.search(r'Node::dtype$|Graph::get_node$', o[1] or '') for o in og)
                        has_to = any(o[0] == 'call' and re.search(r'downcast_ref', o[1] or '') for o in og) or any(o[0] == 'agg' and o[3] == 'Tensor' for o in og)
                        if holds_eq and has_dtype and has_to:
                            ok = True
    ctx.inst(R, 'cast-elimination-guard', ok and n >= 1, 'CastElimination yields Fusion::Identity only under `inferred input dtype == ValueType::Tensor(cast.to)`', f.loc())


    # ---- the consumer of output_types pairs the declared types with the operator's output ids *positionally*: an unused
    # optional output (id None) still occupies its position, so the id side of the zip must be output_ids().iter() itself,
    # without an adapter that drops or reorders entries (flatten / filter / skip / rev ...)
    g = fb.fn('rten::infer_shapes::infer_shapes')
    if not ctx.anchor(R, 'infer_shapes', g is not None and g.has_mir()):
        return
    TRANSPARENT = r'core::slice::<impl \[T\]>::iter$|IntoIterator>::into_iter$|Deref>::deref$|Iterator::enumerate$'
    nz = 0
    for c in g.calls():
        if not re.search(r'Iterator::zip$', c.callee or ''):
            continue
        if not any(o[0] == 'call' and re.search(r'OperatorNode::output_ids$', o[1] or '') for o in g.origins(c.args[0])):
            continue
        nz += 1
        other = 'declared output types' if any(o[0] == 'call' and re.search(r'Operator::output_types$', o[1] or '') for o in g.origins(c.args[1])) else 'inferred output shapes'
        cur, chain, ok = c.args[0], [], False
        for _ in range(6):
            r = g.resolve_copy(cur)
            if r[0] != 'call':
                break
            cal = r[1].callee or ''
            chain.append(cal.split('::')[-1] if '>::' not in cal else cal.split('>::')[-1])
            if re.search(r'OperatorNode::output_ids$', cal):
                ok = True
                break
            if not re.search(TRANSPARENT, cal) or not r[1].args:
                break
            cur = r[1].args[0]
        ctx.inst(R, 'positional-pairing:' + other.replace(' ', '-'), ok,
                 'output ids are paired with the %s by position: zip(output_ids().iter(), ..) with no dropping/reordering adapter (chain: %s)' % (other, ' <- '.join(chain)) if ok else
                 'the id side of the zip with the %s passes through `%s` before output_ids(): entries are dropped or reordered, so after an unused optional output every later output is labelled with its predecessor\'s type/shape' % (other, chain[-1] if chain else '?'), c.loc())
    ctx.floor(R, 'zips over output ids in infer_shapes', nz, 2)
