"""C21 External tensor data cannot escape the model directory or its file bounds."""
from rulelib import *

THOROUGH_CFGS = ('min_none', 'min_rten', 'min_onnx')   # reduced-feature builds of the rten crate (thorough tier)

EXPLANATION = (
    "Path gate + byte-range rules over rten::model::external_data (all 3 DataLoader impls, mmap feature on): "
    "every Ok(DataSlice) exit of DataLoader::load is dominated by a positive is_allowed_external_data_path guard on "
    "the location's path (directly or through a gating helper whose own Ok exits are so guarded); File::open / "
    "Mmap::map / the MemLoader map lookup happen only behind that guard and only in the enumerated helpers, on "
    "dir_path.push(data_path); the predicate returns true only after first-component=Normal, no-second-component and an "
    "extension test; DataSlice byte ranges are either the whole freshly read buffer or bounded by a dominating "
    "saturating/checked (offset+length) <= data().len() guard; allocation in FileLoader::read must be bounded by the "
    "file's real length; DataLocation is built from parsed u64 only in external_data_location.")
ASSUMPTIONS = ["std::path::Path::components / extension and std::fs::File::open behave as documented",
               "symlinks inside the model directory are out of scope (docs/security.md)"]

ED = 'rten::model::external_data::'
GATE = ED + 'is_allowed_external_data_path'
TRAIT = ED + 'DataLoader'
RESOURCE = ('re:^std::fs::File::open$', 're:^memmap2::Mmap::map$', 're:^memmap2::MmapOptions::map', 're:^std::fs::OpenOptions::open$',
            're:^std::fs::read$', 're:^std::fs::read_to_string$')


def ok_exit_sites(fn):
    """(bb, stmt) of `_0 = Result::Ok{..}` / `Option::Some{..}`; and calls assigning _0 directly"""
    oks, tails = [], []
    for (bb, j, kind, payload, dplace) in fn.defs().get(0, []):
        if kind == 'rv' and payload[0] == 'agg' and payload[3] in ('Ok',):
            oks.append((bb, payload))
        elif kind == 'call':
            tails.append(payload)
    return oks, tails


def path_param_like(fn, op, accept):
    """origins of op satisfy accept(origin)"""
    return any(accept(o) for o in fn.origins(op))


def gate_status(fb, fn, accept, depth=0, memo=None):
    """Is every Ok exit of fn dominated by a positive gate guard on a path accepted by `accept`
    (directly, or through an Ok-guard on a call to a helper that is itself gating on the arg)?
    returns (ok, [reasons])"""
    reasons = []
    oks, tails = ok_exit_sites(fn)
    if not oks and not tails:
        return False, ['no Ok exit found in ' + fn.path]
    all_ok = True
    for bb, rv in oks:
        ok, why = block_gated(fb, fn, bb, accept, depth)
        reasons.append('%s Ok-exit@bb%d: %s' % (fn.name, bb, why))
        all_ok &= ok
    for c in tails:
        if call_is(c, ('re:FromResidual', )):
            continue  # `?` error propagation: not an Ok exit
        ok, why = call_gating(fb, fn, c, accept, depth)
        reasons.append('%s tail-call %s: %s' % (fn.name, c.callee, why))
        all_ok &= ok
    return all_ok, reasons


def call_gating(fb, fn, c, accept, depth):
    """does call c return Ok only after gating one of its path-like args (which must come from an accepted origin)?"""
    if depth > 3:
        return False, 'depth'
    callee = fb.fn(c.callee)
    if callee is None or not callee.has_mir() or not c.callee.startswith('rten::'):
        return False, 'opaque callee'
    for i, a in enumerate(c.args):
        if not path_param_like(fn, a, accept):
            continue
        acc2 = lambda o, i=i: (o[0] == 'param' and o[1] == i) or (o[0] == 'call' and suffix_match(o[1], ('std::path::Path::new', 're:AsRef')))
        # allow field path on the param (location.path)
        ok, why = gate_status(fb, callee, lambda o, i=i: o[0] == 'param' and o[1] == i, depth + 1)
        if ok:
            return True, 'helper %s gates its arg %d (%s)' % (callee.name, i, '; '.join(why)[:200])
    return False, 'helper does not gate an accepted path argument'


def block_gated(fb, fn, bb, accept, depth):
    # direct positive guard
    for g, call in guards_call(fn, bb, GATE, True):
        if path_param_like(fn, call.args[0], accept):
            return True, 'direct guard ' + g.describe()
    # Ok/Some-guard on a helper call result (`?` / let-else)
    for g, h, vs, place in guards_variant(fn, bb, fb):
        if vs is None or not (vs <= {'Ok', 'Some', 'Continue'}):
            continue
        # the discriminated place: result of a call (possibly through Try::branch)
        d = fn.def_of_local(place[0])
        hops = 0
        while d is not None and d[2] == 'call' and call_is(d[3], ('re:Try>::branch$', 're:Result::<T, E>::map_err$', 're:Result::<T, E>::ok$')) and hops < 4:
            r = fn.resolve_copy(d[3].args[0])
            d = (None, None, 'call', r[1], None) if r[0] == 'call' else None
            hops += 1
        if d is not None and d[2] == 'call':
            ok, why = call_gating(fb, fn, d[3], accept, depth)
            if ok:
                return True, 'via %s: %s' % (d[3].callee.split('::')[-1], why)
    return False, 'NO dominating is_allowed_external_data_path guard on the location path'


def run(ctx):
    fb = ctx.fb()
    rt = fb.crates.get('rten')
    feats = set(rt.header['features']) if rt else set()
    ctx.inst('C21.gate', 'cfg:mmap-feature-analysed', 'mmap' in feats, 'rten compiled with features %s (MmapLoader visible only with mmap)' % sorted(feats), nontrivial=False)

    # ---- C21.gate: sibling agreement over DataLoader impls
    R = 'C21.gate'
    impls = [i for i in fb.impls(trait=TRAIT)]
    ctx.floor(R, 'DataLoader impls', len(impls), 3)
    loc_path = lambda o: (o[0] == 'param' and o[1] == 1 and (not o[2] or 'path' in o[2]))
    for i in impls:
        lp = i['items'].get('load', [None, None])[1]
        f = fb.fn(lp) if lp else None
        if not ctx.anchor(R, 'load of ' + i['self'], f is not None and f.has_mir()):
            continue
        ok, why = gate_status(fb, f, loc_path)
        ctx.inst(R, 'load-gated:' + i['self'], ok, '; '.join(why), f.loc())
    # resource accesses only behind the gate, only in the table
    table = ctx.table('resource_sites')
    sites = callers_of(fb, RESOURCE, crates={'rten'})
    sites = [(f, c) for f, c in sites if f.path.startswith('rten::model::external_data')]
    ctx.floor(R, 'file/mmap open sites in external_data', len(sites), 3)
    for f, c in sites:
        key = '%s>%s' % (f.path, c.callee)
        intable = key in table
        g = guards_call(f, c.bb, GATE, True)
        gated = any(any(o[0] == 'param' for o in f.origins(call.args[0])) for _, call in g)
        ctx.inst(R, 'open-site:' + key, intable and gated,
                 '%s in %s: table=%s, dominated by positive gate on a path parameter=%s' % (c.callee, f.name, intable, gated), c.loc())
        if c.callee.endswith('File::open'):
            o = f.origins(c.args[0])
            pushes = [p for p in f.calls() if call_is(p, 're:PathBuf::push$') and f.dominates(p.bb, c.bb)]
            okp = has_origin_call(o, 're:Path::to_path_buf$') and any(
                any(x[0] == 'param' for x in f.origins(p.args[1])) for p in pushes)
            base = set()
            for tp in f.calls():
                if call_is(tp, 're:Path::to_path_buf$'):
                    base |= f.origins(tp.args[0])
            okb = any((x[0] == 'param' and (x[2] == () or 'dir_path' in x[2])) for x in base)
            ctx.inst(R, 'open-path:' + f.path, okp and okb,
                     'opened path = dir_path.to_path_buf() + push(gated data_path): push=%s dir_path-origin=%s' % (okp, okb), c.loc())
    # MemLoader map lookup behind the gate
    ml = fb.fn('<%sMemLoader as %sDataLoader>::load' % (ED, ED))
    if ml is not None:
        gets = [c for c in ml.calls() if call_is(c, 're:HashMap::<K, V, S, A>::get$')]
        ctx.floor(R, 'MemLoader lookups', len(gets), 1)
        for c in gets:
            ctx.inst(R, 'memloader-lookup-gated', bool(guards_call(ml, c.bb, GATE, True)), 'map lookup dominated by the gate', c.loc())
    # loaders' dir_path comes from dir_path_from_model_path
    for adt, ctor in ((ED + 'FileLoader', ED + 'FileLoader::new'), (ED + 'MmapLoader', ED + 'MmapLoader::new')):
        aggs = aggregates_of(fb, adt)
        for f, bb, s, rv in aggs:
            a = fb.adt(adt)
            names = [fd['name'] for fd in a['variants'][0]['fields']]
            fields = dict(zip(names, rv[4]))
            ok = f.path == ctor and has_origin_call(f.origins(fields['dir_path']), ED + 'dir_path_from_model_path')
            ctx.inst(R, 'dir_path-origin:' + f.path, ok, '%s built in %s with dir_path from dir_path_from_model_path(model_path)' % (adt.split('::')[-1], f.name), f.loc(s[3]))

    # ---- C21.predicate
    R = 'C21.predicate'
    p = fb.fn(GATE)
    if ctx.anchor(R, 'fn is_allowed_external_data_path', p is not None and p.has_mir()):
        trues = [(bb, pl) for (bb, j, kind, pl, dp) in p.defs().get(0, []) if kind == 'rv' and pl[0] == 'use' and op_const(pl[1]) == 'true']
        others = [(bb, pl) for (bb, j, kind, pl, dp) in p.defs().get(0, []) if not (kind == 'rv' and pl[0] == 'use' and op_const(pl[1]) in ('true', 'false'))]
        ctx.floor(R, 'true exits', len(trues), 1)
        ctx.inst(R, 'only-constant-results', not others, 'every result is a literal true/false (non-literal results: %d)' % len(others), p.loc())
        comp_calls = [c for c in p.calls() if call_is(c, 're:std::path::Path::components$')]
        okc = len(comp_calls) == 1 and has_param_origin(p.origins(comp_calls[0].args[0]), 0)
        ctx.inst(R, 'components-of-param', okc, 'components() taken of the path parameter', p.loc())
        nexts = sorted([c for c in p.calls() if call_is(c, 're:<std::path::Components<.*> as core::iter::traits::iterator::Iterator>::next$')], key=lambda c: c.bb)
        for bb, pl in trues:
            vg = guards_variant(p, bb, fb)
            a = b = False
            first_next = None
            for g, h, vs, place in vg:
                if h == 'std::path::Component' and vs == {'Normal'}:
                    a = True
                    first_next = place[0]
            # (b) a later next() call, dominated by the first, whose result is known None / !is_some
            for c in nexts:
                if first_next is not None and c.dest[0] == first_next:
                    continue
                if not any(f2.dest[0] == first_next and p.dominates(f2.bb, c.bb) for f2 in nexts):
                    continue
                for g, call in guards_call(p, bb, 're:Option::<T>::is_some$', False) + guards_call(p, bb, 're:Option::<T>::is_none$', True):
                    if any(o[0] == 'call' and o[2] == c.bb for o in p.origins(call.args[0])):
                        b = True
                for g, h, vs, place in vg:
                    if place[0] == c.dest[0] and vs == {'None'}:
                        b = True
            e = False
            for g, call in guards_call(p, bb, ('re:str::<impl str>::(starts_with|ends_with)$', 're:PartialEq', 're:eq$'), True):
                if has_origin_call(p.origins(call.args[0]), 're:(Path::extension|Option::<T>::and_then)$'):
                    e = True
            ctx.inst(R, 'true-exit-guards', a and b and e,
                     'true only after first component is Normal (%s), no second component (%s), extension test (%s)' % (a, b, e), p.loc())

    # ---- C21.bounds
    R = 'C21.bounds'
    ds = aggregates_of(fb, ED + 'DataSlice')
    ctx.floor(R, 'DataSlice construction sites', len(ds), 3)
    for f, bb, s, rv in ds:
        a = fb.adt(ED + 'DataSlice')
        names = [fd['name'] for fd in a['variants'][0]['fields']]
        fields = dict(zip(names, rv[4]))
        r = f.resolve_copy(fields['bytes'])
        rng = r[1] if r[0] == 'rv' and r[1][0] == 'agg' and r[1][2] == 'core::ops::range::Range' else None
        if rng is None:
            ctx.inst(R, 'range:' + f.path, False, 'bytes is not a literal start..end range; cannot bound it', f.loc(s[3]))
            continue
        start, end = rng[4]
        so, eo = f.origins(start), f.origins(end)
        sto = f.origins(fields['storage'])
        # (a) whole fresh buffer
        whole = any(o == ('const', '0_usize') for o in so) and len([o for o in so if o[0] == 'const']) == len(so) and has_origin_call(eo, 're:Vec::<T, A>::len$') and any(o[0] == 'agg' and o[2].endswith('ConstantStorage') and o[3] == 'Buffer' for o in sto)
        if whole:
            ctx.inst(R, 'range:' + f.path, True, 'bytes = 0..buf.len() of the freshly read buffer', f.loc(s[3]))
            continue
        ok_guard = False
        gdesc = 'none'
        for op, x, y, g in normalized_cmps(f, bb):
            if op in ('Ge', 'Gt'):
                op, x, y = SWAP[op], y, x
            if op not in ('Le', 'Lt'):
                continue
            xo, yo = f.origins(x), f.origins(y)
            safe_sum = has_origin_call(xo, ('re:::saturating_add$', 're:::checked_add$')) and not any(o[0] == 'binop' and o[1].startswith('Add') for o in xo)
            from_loc = has_param_origin(xo, 1, 'offset') and has_param_origin(xo, 1, 'length')
            trusted = has_origin_call(yo, 'rten::constant_storage::ConstantStorage::data') and has_origin_call(yo, 're:slice::<impl \\[T\\]>::len$')
            if safe_sum and from_loc and trusted:
                ok_guard = True
                gdesc = g.describe()
        leaf_ok = lambda os: all(o[0] in ('cast', 'binop', 'const') or (o[0] == 'param' and o[1] == 1 and o[2] and o[2][-1] in ('offset', 'length')) or (o[0] == 'call' and suffix_match(o[1], ('re:::saturating_add$', 're:::checked_add$'))) for o in os)
        ok_ops = leaf_ok(so) and leaf_ok(eo) and has_param_origin(so, 1, 'offset') and not has_param_origin(so, 1, 'length')
        ctx.inst(R, 'range:' + f.path, ok_guard and ok_ops,
                 'offset..offset+length bounded by dominating guard (saturating/checked sum <= storage.data().len()): %s; range operands derive only from location.offset/length: %s' % (gdesc, ok_ops), f.loc(s[3]))
    # FileLoader::read: allocation bound + length check
    rd = fb.fn(ED + 'FileLoader::read')
    if ctx.anchor(R, 'fn FileLoader::read', rd is not None and rd.has_mir()):
        allocs = [c for c in rd.calls() if call_is(c, ('re:Vec::<T>::with_capacity$', 're:Vec::<T, A>::reserve', 're:vec::from_elem$', 're:Vec::<T, A>::resize$'))]
        ctx.floor(R, 'FileLoader::read allocation sites', len(allocs), 1)
        for c in allocs:
            szo = rd.origins(c.args[-1] if not call_is(c, 're:resize$') else c.args[1])
            tainted = has_param_origin(szo, 1, 'length')
            bounded = False
            for op, x, y, g in normalized_cmps(rd, c.bb):
                for u, v in ((x, y), (y, x)):
                    uo, vo = rd.origins(u), rd.origins(v)
                    if has_param_origin(uo, 1, 'length') and has_origin_call(vo, ('re:Metadata::len$', 're:File::metadata$', 're:Seek>::seek$', 're:stream_len')):
                        bounded = True
            ctx.inst(R, 'alloc-bounded:FileLoader::read', (not tainted) or bounded,
                     'T2: %s sized by location.length must be dominated by a comparison with the file\'s real length (metadata/seek); tainted=%s bounded=%s' % (c.callee.split('::')[-1], tainted, bounded), c.loc())
        oks, _ = ok_exit_sites(rd)
        for bb, rv in oks:
            okl = False
            for op, x, y, g in normalized_cmps(rd, bb):
                xo, yo = rd.origins(x), rd.origins(y)
                if op == 'Eq' and ((has_origin_call(xo, 're:Vec::<T, A>::len$') and has_param_origin(yo, 1, 'length')) or (has_origin_call(yo, 're:Vec::<T, A>::len$') and has_param_origin(xo, 1, 'length'))):
                    okl = True
            ctx.inst(R, 'read:length-verified', okl, 'Ok(buf) only when buf.len() == location.length', rd.loc())
        seeks = [c for c in rd.calls() if call_is(c, 're:Seek>::seek$')]
        ctx.inst(R, 'read:seek-from-start-offset', any(any(o[0] == 'agg' and o[3] == 'Start' for o in rd.origins(c.args[1])) and has_param_origin(rd.origins(c.args[1]), 1, 'offset') for c in seeks),
                 'read seeks to SeekFrom::Start(location.offset)', rd.loc())

    # ---- C21.single-door
    R = 'C21.single-door'
    dl = aggregates_of(fb, ED + 'DataLocation')
    ctx.floor(R, 'DataLocation construction sites', len(dl), 1)
    for f, bb, s, rv in dl:
        if f.o.get('trait') == 'core::clone::Clone' and f.o.get('self_adt') == ED + 'DataLocation':
            continue   # derived Clone copies an existing location field by field
        ok = f.path == 'rten::model::onnx_loader::external_data_location'
        a = fb.adt(ED + 'DataLocation')
        names = [fd['name'] for fd in a['variants'][0]['fields']]
        fields = dict(zip(names, rv[4]))
        okp = all(has_origin_call(f.origins(fields[k]), ('re:str::<impl str>::parse$',)) for k in ('offset', 'length'))
        ctx.inst(R, 'construct:' + f.path, ok and okp, 'DataLocation built only in external_data_location; offset/length from str::parse::<u64>: %s' % okp, f.loc(s[3]))
        prs = [c for c in f.calls() if call_is(c, 're:str::<impl str>::parse$')]
        ctx.inst(R, 'parse-type-u64:' + f.path, bool(prs) and all(c.generic_types == ['u64'] for c in prs), 'parse::<u64> (types %s)' % [c.generic_types for c in prs], f.loc())
