"""C32 The generator feeds the model a consistent token history - typestate / ordering clauses of rten_generate::Generator."""
import re
from rulelib import *
from rulelib import _rv_operands
from facts import op_int, op_local, op_place
import effects

EXPLANATION = (
    "Structural clauses of the history property, decided on every path of Generator's methods (rten-generate): "
    "(writers) the history state - prev_tokens, input_offset, the KV-cache slots - is written only by the run step "
    "(generate_impl / generate_next_token and their two public wrappers); the pending input_ids only by those and the three "
    "prompt methods; (record) every path from a successful Model::run to generate_impl's Ok return passes through an "
    "unconditional prev_tokens.extend(..) whose source is self.input_ids, so every token submitted to the model is recorded "
    "(the defect fixed in 6c73580 recorded them only while prev_tokens was empty); generate_next_token pushes the sampled "
    "token to prev_tokens and to input_ids and returns that same token, on every path to Ok; logits filters receive "
    "self.prev_tokens; (cache) each self-attention slot's cache is taken with Option::take and passed under the slot's "
    "input_id, requested under its output_id, and on every path through the post-run loop that does not return Err the slot "
    "is assigned a value derived from outputs.remove(0) - so the cache passed next is the one last returned; the "
    "cross-attention loop may skip the assignment only under the output.is_empty() test; requested outputs and their "
    "consumption use the same order (self-attention slots, cross-attention slots, logits); (positions) input_offset is "
    "advanced by input_ids.len(), read before input_ids.clear(), both only under !kv_cache.is_empty() and only after the "
    "successful run, and the positions handed to varying inputs are input_offset .. input_offset + input_ids.len(): with a "
    "KV cache each pending token is submitted once at contiguous positions, without one the whole history is resubmitted. "
    "Equality of the recorded sequence with the submitted one for every call history (e.g. no double recording) is value-level "
    "and not decided.")
ASSUMPTIONS = ["Model::run implementations return the requested outputs in the requested order (the Model trait's contract)"]

CRATE = 'rten_generate'
G = "rten_generate::generator::Generator::<'a>::"
NEXT = "<rten_generate::generator::Generator<'_> as core::iter::traits::iterator::Iterator>::next"
RUNSTEP = {'generate_impl', 'generate_next_token', 'process_prompt', 'next'}
PROMPT = {'with_prompt', 'append_prompt', 'clear_prompt'}


def pfields(f, op, depth=6, _seen=None):
    """names of `self` fields an operand derives from, following call arguments (iterators, index, deref ...)"""
    out = set()
    if _seen is None:
        _seen = set()
    if op is None or depth <= 0:
        return out
    for o in f.origins(op):
        if o[0] == 'param' and o[1] == 0 and len(o) > 2 and o[2]:
            out.add(str(o[2][0]))
        elif o[0] == 'call' and len(o) > 2 and isinstance(o[2], int):
            key = (o[1], o[2])
            if key in _seen:
                continue
            _seen.add(key)
            for c in f.calls():
                if c.bb == o[2]:
                    for a in c.args:
                        out |= pfields(f, a, depth - 1, _seen)
    return out


def ok_blocks(f):
    return [bb for (bb, j, kind, payload, pl) in f.defs().get(0, []) if kind == 'rv' and payload[0] == 'agg' and payload[3] == 'Ok']


def run(ctx):
    fb = ctx.fb()
    gi = fb.fn(G + 'generate_impl')
    gn = fb.fn(G + 'generate_next_token')
    if not ctx.anchor('C32.record', 'Generator::generate_impl / generate_next_token', gi is not None and gi.has_mir() and gn is not None and gn.has_mir()):
        return
    writers(ctx, fb)
    record(ctx, fb, gi, gn)
    cursor_reset(ctx, fb, gi)
    cache(ctx, fb, gi)
    positions(ctx, fb, gi)


def writers(ctx, fb):
    R = 'C32.writers'
    E = effects.Effects(fb)
    meths = [f for f in fb.fns(crate=CRATE) if f.has_mir() and '{closure' not in f.path and (f.path.startswith(G) or f.path == NEXT)]
    ctx.floor(R, 'Generator methods analysed', len(meths), 17)
    allowed = {
        'prev_tokens': RUNSTEP,
        'input_offset': RUNSTEP,
        'kv_cache': RUNSTEP,
        'encoder_kv_cache': RUNSTEP,
        'input_ids': RUNSTEP | PROMPT,
    }
    for fld, okset in sorted(allowed.items()):
        ws = set()
        for f in meths:
            try:
                Rd, W = E.self_effects(f.path)
            except Exception:
                continue
            if any(p and p[0] == fld for p in W):
                ws.add(f.path.split('::')[-1])
        bad = ws - okset
        ctx.inst(R, fld, not bad and bool(ws & okset),
                 'self.%s is written only by %s' % (fld, sorted(ws)) if not bad else
                 'self.%s is also written by %s: history state may only change in the run step%s' % (fld, sorted(bad), '' if fld != 'input_ids' else ' or the prompt methods'), '')


def record(ctx, fb, gi, gn):
    R = 'C32.record'
    runs = [c for c in gi.calls() if (c.callee or '').endswith('model::Model::run')]
    if not ctx.anchor(R, 'Model::run call in generate_impl', len(runs) == 1):
        return
    run = runs[0]
    oks = ok_blocks(gi)
    ext = [c for c in gi.calls() if re.search(r'Extend<.*>>::extend$|::extend_from_slice$', c.callee or '') and 'prev_tokens' in pfields(gi, c.args[0])]
    from_inputs = [c for c in ext if 'input_ids' in pfields(gi, c.args[1])]
    ok = bool(from_inputs) and bool(oks) and gi.all_paths_pass(run.target, set(oks), {c.bb for c in from_inputs})
    ctx.inst(R, 'submitted-tokens-recorded', ok,
             'every path from the successful Model::run to Ok passes through prev_tokens.extend(.. self.input_ids ..)' if ok else
             'there is a path from the successful Model::run to Ok that does not record the submitted input_ids in prev_tokens (e.g. recording only while prev_tokens is empty drops tokens added with append_prompt)', (from_inputs or ext or [run])[0].loc())
    # only after the run succeeded (a failed run records nothing)
    ok2 = all(gi.dominates(run.bb, c.bb) for c in ext) and bool(ext)
    ctx.inst(R, 'recorded-after-run', ok2, 'prev_tokens is extended only after Model::run returned', run.loc())

    # generate_next_token: sampled token -> prev_tokens, input_ids, return value
    samp = [c for c in gn.calls() if re.search(r'Sampler::sample$', c.callee or '')]
    if not ctx.anchor(R, 'Sampler::sample call in generate_next_token', len(samp) == 1):
        return
    s = samp[0]
    oks = ok_blocks(gn)

    def pushes(fld):
        out = []
        for c in gn.calls():
            if re.search(r'Vec::<T(, A)?>::push$', c.callee or '') and fld in pfields(gn, c.args[0]):
                r = gn.resolve_copy(c.args[1])
                if r[0] == 'call' and r[1].bb == s.bb:
                    out.append(c)
        return out
    for fld in ('prev_tokens', 'input_ids'):
        ps = pushes(fld)
        ok = bool(ps) and bool(oks) and gn.all_paths_pass(s.target, set(oks), {c.bb for c in ps})
        ctx.inst(R, 'sampled-token-pushed:' + fld, ok, 'every path from Sampler::sample to Ok pushes the sampled token to self.%s' % fld if ok else
                 'the sampled token does not reach self.%s on every path to Ok' % fld, s.loc())
    retok = False
    for (bb, j, kind, payload, pl) in gn.defs().get(0, []):
        if kind == 'rv' and payload[0] == 'agg' and payload[3] == 'Ok':
            r = gn.resolve_copy(payload[4][0]) if payload[4] else None
            retok = r is not None and r[0] == 'call' and r[1].bb == s.bb
    ctx.inst(R, 'returns-sampled-token', retok, 'Ok(..) carries the value returned by Sampler::sample', s.loc())
    fl = [c for c in gn.calls() if re.search(r'LogitsFilter::filter$', c.callee or '')]
    okf = bool(fl) and all('prev_tokens' in pfields(gn, c.args[2]) for c in fl)
    ctx.inst(R, 'filter-sees-history', okf, 'LogitsFilter::filter is given self.prev_tokens', fl[0].loc() if fl else gn.loc())


def cursor_reset(ctx, fb, gi):
    """the recording `prev_tokens.extend(self.input_ids[self.<cursor>..])` skips a prefix measured by a cursor field (how many
    pending tokens are already recorded).  That prefix only means something for the current contents of input_ids: every
    method that empties or replaces input_ids (Vec::clear / truncate / drain, or an assignment to the field) must also store
    to the cursor on every path afterwards - otherwise the next run skips (never records) that many freshly appended
    tokens, or slices out of range"""
    R = 'C32.record'
    cur = set()
    for c in gi.calls():
        if re.search(r'Extend<.*>>::extend$|::extend_from_slice$', c.callee or '') and 'prev_tokens' in pfields(gi, c.args[0]):
            cur |= (pfields(gi, c.args[1]) - {'input_ids'})
    if not cur:
        ctx.note('C32.record: the recording does not skip a prefix by a cursor field; cursor-reset clause not applicable')
        return
    n = 0
    for f in fb.fns(crate=CRATE):
        if not f.has_mir() or '{closure' in f.path or not (f.path.startswith(G) or f.path == NEXT):
            continue
        shr = [(c.bb, 'Vec::' + (c.callee or '').split('::')[-1]) for c in f.calls() if re.search(r'Vec::<T(, A)?>::(clear|truncate|drain|remove|pop|split_off)$', c.callee or '') and 'input_ids' in pfields(f, c.args[0])]
        stores = []
        for i, b in enumerate(f.bbs):
            if b.get('c') or i not in f.live():
                continue
            for st in b['s']:
                if st[0] == '=':
                    flds = [str(e[2]) for e in st[1][1:] if isinstance(e, list) and e[0] == 'f']
                    if flds == ['input_ids']:
                        shr.append((i, 'assignment'))
                    if flds and flds[-1] in cur and len(flds) == 1:
                        stores.append(i)
        for (bb, how) in shr:
            n += 1
            rets = f.return_blocks()
            # every path from the shrink to a return passes a store to the cursor (a store in the same block after it counts)
            ok = bb in stores or f.all_paths_pass(bb, set(rets), set(stores)) if stores else False
            name = f.path.split('::')[-1]
            ctx.inst(R, 'cursor-reset-with-shrink:%s' % name, bool(ok), '%s empties/replaces input_ids (%s) and stores to the recording cursor %s on every path after it' % (name, how, sorted(cur)) if ok else
                     '%s empties/replaces input_ids (%s) without updating the recording cursor %s: the next run records input_ids[stale..], skipping tokens that are submitted to the model (or panics when fewer tokens are pending)' % (name, how, sorted(cur)), f.loc())
    ctx.floor(R, 'places that empty or replace input_ids', n, 3)


def _loops_over(f, field, after_bb=None, before_bb=None):
    """(iter call, header, body) of loops whose iterator is self.<field>.iter()/iter_mut()"""
    out = []
    for c in f.calls():
        if not re.search(r'<impl \[T\]>::iter(_mut)?$', c.callee or ''):
            continue
        if field not in pfields(f, c.args[0]):
            continue
        if after_bb is not None and not f.dominates(after_bb, c.bb):
            continue
        if before_bb is not None and not f.dominates(c.bb, before_bb):
            continue
        # the loop whose header is dominated by this call and whose `next` receiver derives from it
        best = None
        for h, body in f.loops():
            if f.dominates(c.bb, h) and any(re.search(r'Iterator>::next$', k.callee or '') and k.bb in body and any(o[0] == 'call' and o[2] == c.bb for o in f.origins(k.args[0]) if len(o) > 2) for k in f.calls()):
                if best is None or len(body) > len(best[1]):
                    best = (h, body)
        if best:
            out.append((c, best[0], best[1]))
    return out


def cache(ctx, fb, gi):
    R = 'C32.cache'
    runs = [c for c in gi.calls() if (c.callee or '').endswith('model::Model::run')]
    if len(runs) != 1:
        return
    run = runs[0]
    # --- before the run: slots are emptied with take() and passed under input_id
    pre = _loops_over(gi, 'kv_cache', before_bb=run.bb)
    pre = [x for x in pre if (x[0].callee or '').endswith('iter_mut')]
    if ctx.anchor(R, 'pre-run loop over self.kv_cache', len(pre) == 1):
        c, h, body = pre[0]
        takes = [k for k in gi.calls() if k.bb in body and re.search(r'Option::<T>::take$', k.callee or '')]
        pushes = [k for k in gi.calls() if k.bb in body and re.search(r'Vec::<T(, A)?>::push$', k.callee or '')]
        okp = bool(takes) and bool(pushes)
        for k in pushes:
            r = gi.resolve_copy(k.args[1])
            flds = set()
            if r[0] == 'rv' and r[1][0] == 'agg' and len(r[1][4]) == 2:
                first = r[1][4][0]
                pl = op_place(first)
                flds = {str(e[2]) for e in (pl or [])[1:] if isinstance(e, list) and e[0] == 'f'} if pl else set()
                if not flds:
                    rr = gi.resolve_copy(first)
                    if rr[0] == 'place':
                        flds = {str(e[2]) for e in rr[1][1:] if isinstance(e, list) and e[0] == 'f'}
                second_from_take = any(o[0] == 'call' and re.search(r'Option::<T>::take$', o[1] or '') for o in gi.origins(r[1][4][1])) or \
                    any(re.search(r'Option::<T>::take$', x) for x in _call_chain(gi, r[1][4][1]))
                okp = okp and 'input_id' in flds and second_from_take
            else:
                okp = False
        ctx.inst(R, 'taken-cache-passed-under-input-id', okp, 'each slot\'s cache is removed with Option::take and pushed as (entry.input_id, cache)' if okp else
                 'a self-attention cache is not passed as (entry.input_id, taken cache)', c.loc())
    # --- requested outputs: output_id of kv_cache then encoder_kv_cache
    ch = [k for k in gi.calls() if re.search(r'Iterator::chain$', k.callee or '') and gi.dominates(k.bb, run.bb)]
    okc = len(ch) == 1 and 'kv_cache' in pfields(gi, ch[0].args[0]) and 'encoder_kv_cache' not in pfields(gi, ch[0].args[0]) and 'encoder_kv_cache' in pfields(gi, ch[0].args[1])
    cl_ok = 0
    for q in fb.closures_of(gi.path):
        cf = fb.fn(q)
        if cf is None or not cf.has_mir():
            continue
        rets = cf.defs().get(0, [])
        if len(rets) == 1 and rets[0][2] == 'rv' and rets[0][3][0] == 'use':
            pl = op_place(rets[0][3][1])
            if pl and any(isinstance(e, list) and e[0] == 'f' and str(e[2]) == 'output_id' for e in pl[1:]):
                cl_ok += 1
    ctx.inst(R, 'requested-order', okc and cl_ok >= 2, 'requested outputs are kv_cache[..].output_id, then encoder_kv_cache[..].output_id (then logits)' if okc and cl_ok >= 2 else
             'the requested output list is not self-attention output ids followed by cross-attention output ids', ch[0].loc() if ch else run.loc())
    # --- after the run: same order, every slot reassigned from outputs.remove(0)
    post_kv = [x for x in _loops_over(gi, 'kv_cache', after_bb=run.bb) if 'encoder_kv_cache' not in pfields(gi, x[0].args[0])]
    post_en = _loops_over(gi, 'encoder_kv_cache', after_bb=run.bb)
    if not ctx.anchor(R, 'post-run loops over kv_cache and encoder_kv_cache', len(post_kv) == 1 and len(post_en) == 1):
        return
    (c1, h1, b1), (c2, h2, b2) = post_kv[0], post_en[0]
    lg = [k for k in gi.calls() if re.search(r'Vec::<T(, A)?>::remove$', k.callee or '') and k.bb not in b1 and k.bb not in b2 and gi.dominates(run.bb, k.bb)]
    oko = gi.dominates(c1.bb, c2.bb) and bool(lg) and all(gi.dominates(c2.bb, k.bb) for k in lg)
    ctx.inst(R, 'consumed-order', oko, 'outputs are consumed in the requested order: self-attention loop, cross-attention loop, logits' if oko else
             'the order in which outputs are consumed differs from the order they are requested in', c1.loc())
    for name, (c, h, body), allow_skip in (('self-attention', post_kv[0], False), ('cross-attention', post_en[0], True)):
        rem = [k for k in gi.calls() if k.bb in body and re.search(r'Vec::<T(, A)?>::remove$', k.callee or '')]
        ok0 = len(rem) == 1 and op_int(rem[0].args[1]) == 0
        writes = []
        for i in body:
            for st in gi.bbs[i]['s']:
                if st[0] == '=' and any(isinstance(e, list) and e[0] == 'f' and str(e[2]) == 'cache' for e in st[1][1:]):
                    writes.append((i, st))
        from_out = bool(writes) and bool(rem) and all(any(o[0] == 'call' and len(o) > 2 and o[2] == rem[0].bb for o in _deep(gi, st[2])) for (i, st) in writes)
        avoid = {i for (i, st) in writes}
        skip_note = ''
        if allow_skip and rem:
            for i in body:
                t = gi.bbs[i]['t']
                if t[0] == 'sw':
                    r = gi.resolve_copy(t[1])
                    if r[0] == 'call' and re.search(r'Layout>::is_empty$', r[1].callee or '') and any(o[0] == 'call' and len(o) > 2 and o[2] == rem[0].bb for o in gi.origins(r[1].args[0])):
                        # the `true` target(s): values != 0 / otherwise
                        for v, tb in t[2]:
                            if int(v) != 0:
                                avoid.add(tb)
                        if all(int(v) == 0 for v, tb in t[2]):
                            avoid.add(t[3])
                        skip_note = ' (skipped only under output.is_empty(): encoder caches are computed once)'
        bypass = bool(rem) and h in gi.reach_from(rem[0].target, avoid=avoid)
        ok = ok0 and from_out and not bypass
        ctx.inst(R, 'slot-reassigned:' + name, ok, 'every path through the %s loop that continues assigns entry.cache from outputs.remove(0)%s' % (name, skip_note) if ok else
                 'a path through the %s loop continues without assigning entry.cache from outputs.remove(0): the slot was emptied by take() before the run, so the next step would run without (or with a stale) cache' % name, c.loc())


def _call_chain(f, op, depth=6):
    out = []
    cur = op
    for _ in range(depth):
        r = f.resolve_copy(cur)
        if r[0] != 'call':
            break
        out.append(r[1].callee or '')
        if not r[1].args:
            break
        cur = r[1].args[0]
    return out


def _deep(f, rv, depth=8):
    """origins of all operands of an rvalue, following call arguments"""
    out = set()
    work = [(o, depth) for o in _rv_operands(rv)]
    seen = set()
    while work:
        op, d = work.pop()
        if op is None or d <= 0:
            continue
        for o in f.origins(op):
            if o in out:
                continue
            out.add(o)
            if o[0] == 'call' and len(o) > 2 and isinstance(o[2], int) and o[2] not in seen:
                seen.add(o[2])
                for c in f.calls():
                    if c.bb == o[2]:
                        for a in c.args:
                            work.append((a, d - 1))
    return out


def positions(ctx, fb, gi):
    R = 'C32.positions'
    runs = [c for c in gi.calls() if (c.callee or '').endswith('model::Model::run')]
    if len(runs) != 1:
        return
    run = runs[0]
    # writes of input_offset
    ws = []
    for i, b in enumerate(gi.bbs):
        if b.get('c') or i not in gi.live():
            continue
        for st in b['s']:
            if st[0] == '=' and any(isinstance(e, list) and e[0] == 'f' and str(e[2]) == 'input_offset' for e in st[1][1:]):
                ws.append((i, st))
    clears = [c for c in gi.calls() if re.search(r'Vec::<T(, A)?>::clear$', c.callee or '') and 'input_ids' in pfields(gi, c.args[0])]
    if not ctx.anchor(R, 'input_offset update and input_ids.clear() in generate_impl', len(ws) == 1 and len(clears) == 1):
        return
    (wb, wst), cl = ws[0], clears[0]
    og = _deep(gi, wst[2])
    adds = any(o[0] == 'binop' and str(o[1]).startswith('Add') for o in og)
    lens = [o for o in og if o[0] == 'call' and re.search(r'Vec::<T(, A)?>::len$', o[1] or '')]
    len_calls = [c for c in gi.calls() if any(len(o) > 2 and c.bb == o[2] for o in lens) and 'input_ids' in pfields(gi, c.args[0])]
    reads_self = any(o[0] == 'param' and o[1] == 0 and len(o) > 2 and o[2] and str(o[2][0]) == 'input_offset' for o in og)
    ok = adds and bool(len_calls) and reads_self
    ctx.inst(R, 'offset-advanced-by-pending-length', ok, 'input_offset = input_offset + input_ids.len()' if ok else 'input_offset is not advanced by the number of submitted tokens', gi.loc(wst[-1] if isinstance(wst[-1], int) else None))
    ok2 = bool(len_calls) and all(gi.dominates(c.bb, cl.bb) and c.bb != cl.bb for c in len_calls)
    ctx.inst(R, 'length-read-before-clear', ok2, 'the input_ids.len() added to input_offset is read before input_ids.clear()' if ok2 else
             'input_ids is cleared before its length is added to input_offset: positions would stop advancing', cl.loc())

    def under_kv_guard(bb):
        for g in gi.guards(bb):
            c, t = unwrap_not(g.cond(), g.truth())
            if c[0] == 'call' and re.search(r'Vec::<T(, A)?>::is_empty$', c[1].callee or '') and t is False and 'kv_cache' in pfields(gi, c[1].args[0]) and 'encoder_kv_cache' not in pfields(gi, c[1].args[0]):
                return True
        return False
    ok3 = under_kv_guard(wb) and under_kv_guard(cl.bb)
    ctx.inst(R, 'cleared-only-with-kv-cache', ok3, 'input_offset is advanced and input_ids cleared only under !self.kv_cache.is_empty() (without a cache the whole history is resubmitted)' if ok3 else
             'the pending tokens are cleared / the offset advanced without the !kv_cache.is_empty() test', cl.loc())
    ok4 = gi.dominates(run.target, cl.bb) and gi.dominates(run.target, wb)
    ctx.inst(R, 'cleared-after-successful-run', ok4, 'pending tokens are cleared only after Model::run succeeded', cl.loc())
    # positions handed to varying inputs
    rng = []
    for i, b in enumerate(gi.bbs):
        if b.get('c') or i not in gi.live():
            continue
        for st in b['s']:
            if st[0] == '=' and st[2][0] == 'agg' and str(st[2][2]).endswith('ops::range::Range') and gi.dominates(i, run.bb):
                rng.append((i, st))
    okr = False
    for (i, st) in rng:
        a, b2 = st[2][4][0], st[2][4][1]
        oa = gi.origins(a)
        ob = _deep(gi, ['use', b2])
        if any(o[0] == 'param' and o[1] == 0 and len(o) > 2 and o[2] and str(o[2][0]) == 'input_offset' for o in oa) and \
                any(o[0] == 'binop' and str(o[1]).startswith('Add') for o in ob) and \
                any(o[0] == 'param' and o[1] == 0 and len(o) > 2 and o[2] and str(o[2][0]) == 'input_offset' for o in ob) and \
                any(o[0] == 'call' and re.search(r'Vec::<T(, A)?>::len$', o[1] or '') for o in ob):
            okr = True
    ctx.inst(R, 'positions-range', okr, 'positions given to varying inputs are input_offset .. input_offset + input_ids.len()' if okr else
             'no Range input_offset .. input_offset + input_ids.len() is built before the run', run.loc())
