"""C26 Invalid run requests are reported as errors - validation precedes execution, prefix is panic-free."""
import re
from rulelib import *
from facts import op_int, op_local, op_place
import loaderlib as L
import C22

THOROUGH_CFGS = ('min_none', 'min_rten', 'min_onnx')   # reduced-feature builds of the rten crate (thorough tier)

EXPLANATION = (
    "Request validation is decided structurally for every run / partial_run request: (order) Graph::run reaches the "
    "executor only after validate_inputs and get_cached_plan returned Ok, partial_run only after validate_inputs and "
    "create_plan; Planner::create_plan builds a plan only after the duplicate-output, output-kind, duplicate-input and "
    "input-kind checks passed, each of which has an Err exit; (validate-all) validate_inputs visits every supplied input "
    "(no short-circuiting iterator adapter between the parameter and the loop) and has Err exits guarded by the dtype, rank "
    "and fixed-dimension comparisons; (cache) a cached plan is reused only for id lists that are permutations of the "
    "planned ones without repeats, so the cache cannot bypass the planner's checks; (plan-for-request) every executor "
    "call receives the plan computed for exactly the inputs/outputs it is given; (panic-sites) every panic-capable site "
    "in the pre-execution prefix and every plan-invariant panic in run_plan is in the reviewed table with the validation "
    "that makes it unreachable. Panics inside operators for metadata-conforming inputs are not decided.")
ASSUMPTIONS = ["operators may still fail or panic on inputs that conform to the declared metadata (outside this clause)"]

G = 'rten::graph::Graph::'
PLN = "rten::graph::planner::Planner::<'a>::"
PREFIX = [r"^rten::graph::Graph::(validate_inputs|run|run_subgraph|partial_run|get_cached_plan|create_plan|get_node|node_name|get_source_node|operator_dependencies|get_node_id|execution_plan|run_plan)(::\{closure#\d+\})*$",
          r"^rten::graph::planner::", r"^<rten::graph::planner::", r"^rten::graph::NodeRefCount::",
          r"^rten::model::Model::(run|run_n|run_one|partial_run|node_id|find_node|input_ids|output_ids)(::\{closure#\d+\})*$"]
SHORT_CIRCUIT = ('map_while', 'take_while', 'skip_while', 'take', 'skip', 'step_by', 'filter', 'filter_map', 'find', 'find_map', 'scan', 'fuse', 'rev', 'chain', 'zip', 'peekable')


def run(ctx):
    fb = ctx.fb()
    T = ctx.tables
    order(ctx, fb)
    validate_all(ctx, fb)
    C22.matches_rules(ctx, fb, 'C26.cache')
    plan_for_request(ctx, fb)
    panic_sites_rule(ctx, fb, T)


def ok_guarded(f, bb, fb, callee_pats):
    sg = L.success_guard_calls(f, bb, fb)
    return any(suffix_match(k, callee_pats) for k in sg)


def order(ctx, fb):
    R = 'C26.order'
    # Graph::run / partial_run: executor only after validation + planning succeeded
    for name, needs in (('run', ('Graph::validate_inputs', 'Graph::get_cached_plan')), ('partial_run', ('Graph::validate_inputs', "Planner::<'a>::create_plan")),
                        ('run_subgraph', ('Graph::get_cached_plan',))):
        f = fb.fn(G + name)
        if not ctx.anchor(R, 'fn Graph::' + name, f is not None and f.has_mir()):
            continue
        # executor entry: direct run_plan call, or the closure (containing run_plan) handed to ThreadPool::run
        sites = [c for c in f.calls() if c.callee == G + 'run_plan']
        for cp in fb.closures_of(f.path):
            cf = fb.fn(cp)
            if any(c.callee == G + 'run_plan' for c in cf.calls()):
                cc = closure_creation(fb, cf)
                if cc:
                    sites.append(type('S', (), {'bb': cc[1], 'loc': lambda self, cf=cf: cf.loc()})())
        ctx.inst(R, 'executor-site:' + name, bool(sites), '%d executor entry site(s) in Graph::%s' % (len(sites), name), f.loc(), nontrivial=False)
        for s in sites:
            for need in needs:
                ctx.inst(R, '%s:after:%s' % (name, need.split('::')[-1]), ok_guarded(f, s.bb, fb, 're:' + re.escape(need) + '$'),
                         'Graph::%s reaches run_plan only after %s returned Ok' % (name, need), s.loc())
    # Planner::create_plan: four validations dominate PlanBuilder::plan
    f = fb.fn(PLN + 'create_plan')
    if ctx.anchor(R, 'fn Planner::create_plan', f is not None and f.has_mir()):
        plan_calls = [c for c in f.calls() if (c.callee or '').endswith("PlanBuilder::<'a>::plan")]
        ctx.floor(R, 'PlanBuilder::plan call in create_plan', len(plan_calls), 1)
        dup = [c for c in f.calls() if c.callee == 'rten::graph::planner::first_duplicate_by']
        for c in plan_calls:
            for pi, what in ((2, 'outputs'), (1, 'inputs')):
                # duplicate check on this list, None-guarded
                okd = False
                for d in dup:
                    if has_param_origin(f.origins(d.args[0]), pi) and f.dominates(d.bb, c.bb):
                        for g, h, vs, place in guards_variant(f, c.bb, fb):
                            po = f.place_origins(place)
                            if vs == {'None'} and any(o[0] == 'call' and o[1] == d.callee and o[2] == d.bb for o in po) \
                                    and not any(o[0] == 'call' and o[1] != d.callee for o in po):
                                okd = True
                ctx.inst(R, 'create_plan:unique-' + what, okd, 'plan is built only after first_duplicate_by(%s) returned None' % what, c.loc())
                # kind check: a loop over this list with get_node and an Err exit, whose header dominates the plan call
                okk = False
                for h, body in f.loops():
                    if not f.dominates(h, c.bb):
                        continue
                    it = [x for x in f.calls() if x.bb in body and call_is(x, 're:Iterator>::next$|Iterator::next$')]
                    over = any(has_param_origin(f.origins(x.args[0]), pi) and
                               not (set((o[1] or '').split('::')[-1] for o in f.origins(x.args[0]) if o[0] == 'call') & set(SHORT_CIRCUIT)) for x in it)
                    gn = [x for x in f.calls() if x.bb in body and x.callee == G + 'get_node']
                    errs = [bb for bb, k, i in L.return_defs(f) if k == 'stop' and i == 'Err' and any(f.dominates(x.bb, bb) for x in gn if x.bb in body)]
                    if over and gn and errs:
                        okk = True
                ctx.inst(R, 'create_plan:kind-' + what, okk, 'plan is built only after a loop over %s checked each id with get_node (value or constant) with an Err exit' % what, c.loc())


def validate_all(ctx, fb):
    R = 'C26.validate-all'
    f = fb.fn(G + 'validate_inputs')
    if not ctx.anchor(R, 'fn Graph::validate_inputs', f is not None and f.has_mir()):
        return
    loops = f.loops()
    main = None
    for h, body in loops:
        nx = [c for c in f.calls() if c.bb in body and call_is(c, 're:Iterator>::next$|Iterator::next$')]
        if any(has_param_origin(f.origins(c.args[0]), 1) for c in nx):
            if main is None or len(body) > len(main[1]):
                main = (h, body, [c for c in nx if has_param_origin(f.origins(c.args[0]), 1)][0])
    if not ctx.anchor(R, 'loop over the inputs parameter', main is not None):
        return
    h, body, nxt = main
    og = f.origins(nxt.args[0])
    adapters = sorted(set((o[1] or '').split('::')[-1] for o in og if o[0] == 'call') & set(SHORT_CIRCUIT))
    ty = f.local_ty(L.Progress(fb, {'rten'})._root_local(f, nxt.args[0]) or 0)
    ctx.inst(R, 'visits-every-input', not adapters and 'map_while' not in ty and 'take_while' not in ty,
             'the validation loop iterates the inputs slice directly (iterator %s; adapters that can drop or cut off elements: %s)' % (ty[:80], adapters or 'none'), nxt.loc())
    # Err exits guarded by dtype / rank / dimension comparisons
    errs = [bb for bb, k, i in L.return_defs(f) if k == 'stop' and i == 'Err' and f.dominates(h, bb)]
    kinds = {'dtype': False, 'rank': False, 'dim': False}
    for bb in errs:
        for g in f.guards(bb):
            if not f.dominates(h, g.bb):
                continue
            cnd, t = unwrap_not(g.cond(), g.truth())
            ops = []
            if cnd[0] == 'call' and call_is(cnd[1], 're:PartialEq.*::(ne|eq)$'):
                ops = list(cnd[1].args)
            elif cnd[0] == 'cmp' and cnd[1] in ('Ne', 'Eq'):
                ops = [cnd[2], cnd[3]]
            if len(ops) != 2:
                continue
            names = set()
            for o in ops:
                names |= set((x[1] or '').split('::')[-1] for x in f.origins(o) if x[0] == 'call')
            if 'dtype' in names:
                kinds['dtype'] = True
            if 'len' in names and 'shape' in names:
                kinds['rank'] = True
            if ('next' in names or 'zip' in names or 'enumerate' in names) and 'shape' in names:
                kinds['dim'] = True
    # dimension check: an inner loop over zip(expected_shape, shape) with a compared Err exit
    for h2, b2 in f.loops():
        if h2 == h or not (b2 < body):
            continue
        nx2 = [c for c in f.calls() if c.bb in b2 and call_is(c, 're:Iterator>::next$|Iterator::next$')]
        names2 = set()
        for c in nx2:
            names2 |= set((x[1] or '').split('::')[-1] for x in f.origins(c.args[0]) if x[0] == 'call')
        if not ({'shape', 'zip'} <= names2):
            continue
        for bb in errs:
            if not f.dominates(h2, bb):
                continue
            for g in f.guards(bb):
                cnd, t = unwrap_not(g.cond(), g.truth())
                if g.bb in b2 and ((cnd[0] == 'cmp' and cnd[1] in ('Ne', 'Eq')) or (cnd[0] == 'call' and call_is(cnd[1], 're:PartialEq.*::(ne|eq)$'))):
                    kinds['dim'] = True
    ctx.floor(R, 'Err exits inside the validation loop', len(errs), 3)
    for k, v in kinds.items():
        ctx.inst(R, 'err-on-mismatch:' + k, v, 'an Err exit is guarded by the %s comparison between the supplied value and the node metadata' % k, f.loc())
    # non-value ids are skipped (continue), never an early Ok
    oks = [bb for bb, k, i in L.return_defs(f) if k == 'ok']
    ctx.inst(R, 'ok-only-after-loop', all(bb not in body for bb in oks) and bool(oks), 'Ok(()) is returned only after the loop has finished', f.loc())


def plan_for_request(ctx, fb):
    R = 'C26.plan-for-request'
    n = 0
    for f, c in callers_of(fb, G + 'run_plan', crates={'rten'}):
        n += 1
        top = f.path.split('::{closure')[0]
        plan_o, of = outer_origins(fb, f, c.args[2])
        in_o, _ = outer_origins(fb, f, c.args[1])
        out_o, _ = outer_origins(fb, f, c.args[3])
        det = ''
        ok = False
        if has_origin_call(plan_o, 're:Graph::get_cached_plan$'):
            # ids given to get_cached_plan derive from the same inputs / outputs as given to run_plan
            g = of
            gc = [x for x in g.calls() if x.callee == G + 'get_cached_plan']
            ok = bool(gc)
            for x in gc:
                ids_o, outs_o = g.origins(x.args[1]), g.origins(x.args[2])
                same_in = has_param_origin(ids_o, 1) and has_param_origin(in_o, 1)
                same_out = has_param_origin(outs_o, 2) and has_param_origin(out_o, 2) and not any(o[0] == 'call' for o in out_o)
                ok &= same_in and same_out
                det = 'plan from get_cached_plan(ids of `inputs`, `outputs`) and run_plan(`inputs`, plan, `outputs`) use the same request (%s, %s)' % (same_in, same_out)
        elif has_origin_call(plan_o, "re:Planner::<'a>::prune_plan$"):
            ok = has_origin_call(out_o, "re:Planner::<'a>::prune_plan$") and has_param_origin(in_o, 1)
            det = 'pruned plan and its output ids both come from the same prune_plan result; inputs are the request inputs'
        else:
            det = 'plan passed to run_plan has an unrecognised source %s' % sorted(o[1] for o in plan_o if o[0] == 'call')[:3]
        ctx.inst(R, 'run_plan-caller:' + top.split('::')[-1], ok, det, c.loc())
    ctx.floor(R, 'run_plan call sites', n, 3)


def panic_sites_rule(ctx, fb, T):
    R = 'C26.panic-sites'
    # closure ordinals shift when an unrelated closure is added to the parent: reviewed closure sites are identified by
    # (parent path with ordinals erased, what, the panic message literal) instead
    norm = lambda p_: re.sub(r'\{closure#\d+\}', '{closure}', p_)
    rev = {(e['fn'], e['what'], e.get('msg')): e['reason'] for e in T.get('panic_reviewed', [])}

    def message(s):
        c = s.get('call')
        if c is None:
            return None
        for a in c.args:
            if a and a[0] == 'k':
                m = re.search(r'"([^"]*)"', str(a[1]))
                if m:
                    return m.group(1)
        # panic!/panic_fmt: the literal is an argument of the format_args that feeds the call
        for a in c.args:
            for o in s['f'].origins(a):
                if o[0] == 'const':
                    m = re.search(r'"([^"]*)"', str(o[1]))
                    if m:
                        return m.group(1)
        return None
    n = 0
    nfn = 0
    for p in fb.fn_paths(crate='rten'):
        if not any(re.search(x, p) for x in PREFIX):
            continue
        f = fb.fn(p)
        if not f.has_mir():
            continue
        nfn += 1
        for s in panic_sites(f):
            n += 1
            what = s['detail'].split('::')[-1] if s['call'] else s['kind'].split(':', 1)[1]
            short = p.replace('rten::graph::', '')
            s['f'] = f
            r = rev.get((p, what, None))
            if r is None and '{closure#' in p:
                msg = message(s)
                r = rev.get((norm(p), what, msg))
                if r is None:
                    # message literal not recoverable from the facts (format_args!): accept only if the parent has exactly one
                    # reviewed closure entry for this kind of site
                    cands = [v for (k_fn, k_what, k_msg), v in rev.items() if k_fn == norm(p) and k_what == what]
                    if msg is None and len(cands) == 1:
                        r = cands[0]
            ok, why = (r is not None), ('reviewed: %s' % r if r else '')
            if not ok and s['kind'].startswith('assert:Overflow') and all(L.is_pure_counter(f.origins(o)) or L.only_calls(f.origins(o), ('re:Enumerate<I> as core::iter::traits::iterator::Iterator>::next$',)) for o in s['ops']):
                ok, why = True, 'loop counter / enumerate index arithmetic'
            ctx.inst(R, '%s|%s' % (short, what), ok, why if ok else 'panic-capable site (%s) in the run-request prefix is not in the reviewed table' % s['detail'], f.loc(s['line']))
    ctx.floor(R, 'prefix functions analysed', nfn, 30)
    ctx.count('prefix_panic_sites', n)
