"""C06 Safe tensor APIs never access memory out of bounds or alias mutably - invariant establishment + unsafe inventory."""
import re
from rulelib import *
from facts import op_int, op_local, op_place
import loaderlib as L

EXPLANATION = (
    "The safety argument of rten-tensor is: (I1) every TensorBase satisfies data.len() >= layout.min_data_len() and mutable "
    "storage has no internal overlap, (I2) trusted layouts yield offsets < min_data_len, (I3) unsafe accesses use only such "
    "offsets. Decided structurally: (construct) every `TensorBase { data, layout }` construction site (54) is classified by "
    "the resolved provenance of its two operands - length/overlap-checked, same tensor, layout operation on the same data, "
    "slice pair (data range and layout from the same layout call), fresh buffer with a layout built from its own shape, or "
    "the unsafe unchecked constructor - and any site outside these classes is a violation; (overflow) the functions that "
    "compute I1/I2 (min_data_len, len, contiguous strides, is_contiguous, may_have_internal_overlap) contain no "
    "overflow-checked (wrapping in release) multiplication or addition; (unsafe-inventory) every call of an unsafe function "
    "in rten-tensor is discharged by offset provenance (offsets produced by layout/iterator code) or is in the reviewed "
    "table; (mut-unique) mutable iterators obtain element offsets only from the offset iterators, whose double-ended "
    "consistency is decided by the effect rule C07.DEI, and mutable lane iteration asserts the view is not broadcast. "
    "(dyn-rank) DynLayout's one array holds shape and strides of equal length at every construction / mutation site; "
    "(unchecked-offset) safe callers of Layout::offset_unchecked test index_valid(), forward, or run under "
    "layout.len() == data.len(). UB-freedom of arbitrary call sequences in the Miri sense is not decided.")
ASSUMPTIONS = ["offsets produced by a TrustedLayout are < min_data_len (I2) is trusted per the unsafe trait contract", "std Vec/slice internals trusted"]

TB = 'rten_tensor::tensor::TensorBase'
SAME_DATA = {'clone', 'view', 'view_mut', 'new', 'assume_init', 'into', 'from'}
LAYOUT_SAME = {'clone', 'into', 'from', 'try_into', 'layout', 'branch', 'unwrap', 'expect'}
LAYOUT_OPS = {'permuted', 'transposed', 'nd_layout', 'squeezed', 'remove_dim', 'insert_dim', 'reshaped_for_view', 'broadcast'}
SLICE_DATA = {'slice', 'slice_mut', 'split_mut'}
SLICE_LAYOUT = {'index_axis', 'slice_axis', 'slice_with', 'slice_dyn', 'split'}
FRESH_DATA = {'to_vec', 'to_vec_in', 'alloc', 'into_data', 'into_storage'}
FRESH_LAYOUT = {'from_shape', 'reshaped_for_copy', 'clone'}
INVARIANT_FNS = ('rten_tensor::layout::Layout::min_data_len', 'rten_tensor::layout::saturating_product', '<rten_tensor::layout::NdLayout<N> as rten_tensor::layout::Layout>::len',
                 '<rten_tensor::layout::DynLayout as rten_tensor::layout::Layout>::len', 'rten_tensor::layout::NdLayout::<N>::contiguous_strides',
                 'rten_tensor::layout::DynLayout::contiguous_shape_and_strides', 'rten_tensor::overlap::is_contiguous', 'rten_tensor::overlap::may_have_internal_overlap')


def names(f, op):
    og = f.origins(op)
    calls = set((o[1] or '?').split('::')[-1] for o in og if o[0] == 'call')
    params = set((o[1], tuple(o[2])) for o in og if o[0] == 'param')
    return params, calls


def run(ctx):
    fb = ctx.fb()
    T = ctx.tables
    construct(ctx, fb, T, 'C06.construct')
    overflow(ctx, fb, 'C06.overflow')
    unsafe_inventory(ctx, fb, T)
    mut_unique(ctx, fb)
    unchecked_offset(ctx, fb, T)
    dyn_rank(ctx, fb, T)
    import C07
    C07.dei(ctx, fb, 'C06.mut-unique-DEI')


def construct(ctx, fb, T, R):
    aggs = aggregates_of(fb, TB)
    ctx.floor(R, 'TensorBase construction sites', len(aggs), 50)
    outside = [a for a in aggs if a[0].crate.name != 'rten_tensor']
    ctx.inst(R, 'only-in-rten-tensor', not outside, 'TensorBase { data, layout } is built only inside rten-tensor (fields are private): %s' % [a[0].path for a in outside][:3], '')
    fresh_ok = RevTable({e['fn']: e['reason'] for e in T.get('fresh_reviewed', [])})
    for (f, bb, s, rv) in sorted(aggs, key=lambda a: a[0].path):
        d, l = rv[4][0], rv[4][1]
        dp, dc = names(f, d)
        lp, lc = names(f, l)
        gn = set()
        for (op, a, b, g) in normalized_cmps(f, bb):
            oa, ob = f.origins(a), f.origins(b)
            na = set((x[1] or '').split('::')[-1] for x in oa if x[0] == 'call')
            nb = set((x[1] or '').split('::')[-1] for x in ob if x[0] == 'call')
            arith = any(x[0] == 'binop' for x in oa | ob)
            # accepted: min_data_len == len, min_data_len <= len, len >= min_data_len  (no arithmetic on either side)
            good = (op == 'Eq' and {'min_data_len', 'len'} <= (na | nb)) or (op in ('Le', 'Lt') and 'min_data_len' in na and 'len' in nb) or (op in ('Ge', 'Gt') and 'len' in na and 'min_data_len' in nb)
            if good and not arith:
                gn |= na | nb
        short = f.path.replace('rten_tensor::tensor::', '')
        cls, why = None, ''
        if {'len', 'min_data_len'} <= gn:
            cls, why = 'checked', 'dominated by a comparison of data.len() with layout.min_data_len()'
        elif f.path.endswith('::from_storage_and_layout_unchecked') and f.o.get('unsafe'):
            cls, why = 'unsafe-contract', 'unsafe constructor: caller promises the invariant'
        elif dc <= SAME_DATA and (dp or dc) and lc <= LAYOUT_SAME and (any(p[1][:1] == ('layout',) for p in lp) or 'layout' in lc):
            cls, why = 'same', 'same storage and same layout as an existing tensor'
        elif dc <= SAME_DATA and (dp or dc) and lc and lc <= (LAYOUT_OPS | LAYOUT_SAME) and (lc & LAYOUT_OPS):
            cls, why = 'layout-op', 'same storage with a layout transformed by %s (never increases min_data_len)' % sorted(lc & LAYOUT_OPS)
            if 'broadcast' in lc and 'ViewData' not in f.path:
                cls, why = None, 'broadcast layout on storage that is not an immutable view'
        elif dc and dc <= SLICE_DATA and lc and lc <= (SLICE_LAYOUT | LAYOUT_SAME) and (lc & SLICE_LAYOUT):
            # the sliced range and the layout must come from the same call
            rng_calls = set()
            for c in f.calls():
                if (c.callee or '').split('::')[-1] in SLICE_DATA:
                    for a in c.args[1:]:
                        rng_calls |= set((o[1] or '').split('::')[-1] for o in f.origins(a) if o[0] == 'call')
            if rng_calls & lc & SLICE_LAYOUT:
                cls, why = 'slice-pair', 'data range and layout both come from %s' % sorted(rng_calls & lc & SLICE_LAYOUT)
            else:
                why = 'sliced data and layout do not come from the same layout call (%s vs %s)' % (sorted(rng_calls), sorted(lc))
        elif dc and dc <= FRESH_DATA and lc <= (FRESH_LAYOUT | LAYOUT_SAME):
            r = fresh_ok.get(f.path)
            if r:
                cls, why = 'fresh', 'reviewed: ' + r
            else:
                why = 'fresh buffer (%s) with layout (%s): not in the reviewed table' % (sorted(dc), sorted(lc))
        else:
            why = 'unrecognised provenance: data via %s, layout via %s, guards %s' % (sorted(dc), sorted(lc), sorted(gn)[:4])
        ctx.inst(R, 'site:%s' % short, cls is not None, ('%s: %s' % (cls, why)) if cls else ('TensorBase constructed without establishing the length invariant - ' + why), f.loc(s[3]))
    # callers of the unchecked constructor
    allowed = RevTable({e['fn']: e['reason'] for e in T.get('unchecked_callers', [])})
    for (f, c) in callers_of(fb, 're:TensorBase::<S, L>::from_storage_and_layout_unchecked$'):
        ctx.inst(R, 'unchecked-caller:' + f.path.replace('rten_tensor::', ''), f.path in allowed, ('reviewed: ' + allowed[f.path]) if f.path in allowed else 'from_storage_and_layout_unchecked called from an unreviewed function', c.loc())


def overflow(ctx, fb, R, fns=INVARIANT_FNS):
    for p in fns:
        f = fb.fn(p)
        if not ctx.anchor(R, 'fn ' + p.split('::', 1)[1], f is not None and f.has_mir()):
            continue
        bad = []
        for g in [fb.fn(x) for x in fb.with_closures(p)]:
            for (bb, kind, ops, line, exp, cond, expected) in g.asserts():
                if kind in ('Overflow:Mul', 'Overflow:Add', 'Overflow:Shl'):
                    # arithmetic on indices / lengths / loop counters is not arithmetic on dimension sizes
                    if all(_index_like(fb, g, o) for o in ops):
                        continue
                    bad.append((kind, g.loc(line)))
            for c in g.calls():
                if call_is(c, ('re:Iterator::(product|sum)$',)):
                    bad.append(('Iterator::' + c.callee.split('::')[-1], c.loc()))
        ctx.inst(R, p.split('::')[-1] + ':' + p.split('::')[-2][:12], not bad,
                 'no wrapping * / + / product() / sum() on shape or stride values (saturating or checked arithmetic only)' if not bad else 'wrapping arithmetic on sizes: %s' % bad[:3], f.loc())


def _index_like(fb, g, o):
    """operand is a constant, a counter, a length / rank, or the item of a range / enumerate iterator (not a dimension size)"""
    if op_int(o) is not None or L.is_pure_counter(g.origins(o)):
        return True
    prog = L.Progress(fb, {'rten_tensor'})
    c = prog._def_call(g, o)
    if c is not None and call_is(c, ('re:::len$', 're:::ndim$')):
        return True
    og = g.origins(o)

    def range_item(o2):
        # item of an integer range iterator (possibly reversed): look at the receiver's concrete type
        if o2[0] != 'call' or not suffix_match(o2[1], ('re:::next$',)):
            return False
        t = g.term(o2[2])
        if t[0] != 'call' or not t[2]:
            return False
        root = prog._root_local(g, t[2][0])
        ty = g.local_ty(root) if root is not None else ''
        return 'core::ops::range::Range<' in ty and not re.search(r'slice::iter|IntoIter|Zip<|Copied<|Cloned<|Map<', ty)
    return bool(og) and all(o2[0] in L.PURE_KINDS or o2[0] == 'len_of' or range_item(o2) for o2 in og)


def unsafe_inventory(ctx, fb, T):
    R = 'C06.unsafe-inventory'
    rev = RevTable({(e['fn_short'], e['callee']): e['reason'] for e in T.get('unsafe_reviewed', [])})
    OFFSET_SRC = ('re:Iterator>::next$', 're:Iterator::next$', 're:::next_back$', 're:::nth$', 're:Layout>?::offset$', 're:LayoutExt::must_offset$', 're:::must_offset$', 're:::offset_unchecked$',
                  're:::offset$', 're:Option::<T>::(unwrap|expect)$', 're:Try>::branch$')
    n = 0
    nauto = 0
    for f in fb.fns(crate='rten_tensor'):
        if not f.has_mir():
            continue
        for c in f.calls():
            if not c.info.get('us') or (c.callee or '').startswith('core::fmt::'):
                continue
            n += 1
            cal = (c.callee or '').split('::')[-1]
            ok, why = False, ''
            if cal in ('get_unchecked', 'get_unchecked_mut') and len(c.args) > 1:
                og = f.origins(c.args[1])
                calls = [o[1] for o in og if o[0] == 'call']
                if calls and all(suffix_match(x, OFFSET_SRC) for x in calls) and not any(o[0] == 'param' for o in og):
                    ok, why = True, 'offset produced by layout / offset-iterator code (%s)' % sorted(set(x.split('::')[-1] for x in calls))
            if not ok and (f.o.get('unsafe') or _enclosing_unsafe(fb, f)):
                ok, why = True, 'inside an `unsafe fn`: the obligation is part of that function\'s contract and is checked at its callers'
            if not ok and cal in ('get_unchecked', 'get_unchecked_mut') and len(c.args) > 1 and '{closure#' in f.path:
                # closure |acc, offset| ... passed to Offsets::fold / for_each
                og = f.origins(c.args[1])
                if og and all(o[0] == 'param' for o in og):
                    cc = closure_creation(fb, f)
                    if cc:
                        pf = cc[0]
                        for x in pf.calls():
                            if call_is(x, ('re:Offsets.*::(fold|for_each)$', 're:Iterator::(fold|for_each)$', 're:Iterator>::(fold|for_each)$')) and any(o[0] == 'agg' and o[2] == f.path for a in x.args for o in pf.origins(a)):
                                recv = pf.local_ty(op_local(x.args[0])) if op_local(x.args[0]) is not None else ''
                                if 'Offsets' in recv or 'LaneRanges' in recv:
                                    ok, why = True, 'offset is the item of an Offsets iterator driving this closure (%s)' % x.callee.split('::')[-1]
            if not ok:
                r = rev.get((f.path.replace('rten_tensor::', ''), cal))
                if r:
                    ok, why = True, 'reviewed: ' + r
            if ok and not why.startswith('reviewed'):
                nauto += 1
            ctx.inst(R, '%s|%s' % (f.path.replace('rten_tensor::', ''), cal), ok, why if ok else 'call of unsafe fn %s is neither discharged by offset provenance nor reviewed' % c.callee, c.loc())
        if f.o.get('rawderefs') and not (f.o.get('unsafe') or _enclosing_unsafe(fb, f)):
            r = rev.get((f.path.replace('rten_tensor::', ''), 'raw-deref'))
            ctx.inst(R, '%s|raw-deref' % f.path.replace('rten_tensor::', ''), r is not None, ('reviewed: ' + r) if r else '%d raw pointer dereference(s) not reviewed' % len(f.o['rawderefs']), f.loc(f.o['rawderefs'][0]))
    ctx.floor(R, 'unsafe call sites in rten-tensor', n, 80)
    ctx.count('unsafe_sites_auto_discharged', nauto)


def _enclosing_unsafe(fb, f):
    g = f
    while '{closure#' in g.path:
        par = g.o.get('parent')
        g = fb.fn(par) if par else None
        if g is None:
            return False
        if g.o.get('unsafe'):
            return True
    return False


def mut_unique(ctx, fb):
    R = 'C06.mut-unique'
    # mutable element iterators: the offset passed to get_unchecked_mut comes from the offsets iterator
    for ty, meths in (("rten_tensor::iterators::IterMut<'a, T>", ('next', 'nth')), ("rten_tensor::iterators::IterMut<'_, T>", ('next_back',))):
        for impl in fb.impls(crate='rten_tensor'):
            if impl['self'] != ty or impl['trait'] not in ('core::iter::traits::iterator::Iterator', 'core::iter::traits::double_ended::DoubleEndedIterator'):
                continue
            for m in meths:
                if m not in impl['items']:
                    continue
                f = fb.fn(impl['items'][m][1])
                gm = [c for c in f.calls() if (c.callee or '').endswith('get_unchecked_mut')]
                ok = bool(gm) and all(has_origin_call(f.origins(c.args[1]), ('re:Offsets as .*>::(next|next_back|nth)$', 're:Iterator::nth$', 're:Offsets.*::next', 're:::nth$')) for c in gm)
                ctx.inst(R, 'IterMut::%s:offset-from-offsets-iterator' % m, ok, 'the &mut handed out by IterMut::%s uses an offset yielded by the Offsets iterator (each offset once: C07.DEI)' % m, f.loc())
    f = fb.fn("rten_tensor::iterators::LanesMut::<'a, T>::new")
    if ctx.anchor(R, 'fn LanesMut::new', f is not None and f.has_mir()):
        asserts = [c for c in f.calls() if call_is(c, 're:core::panicking::panic')]
        isb = [c for c in f.calls() if (c.callee or '').endswith('::is_broadcast')]
        aggs = [a for a in aggregates_of(fb, 'rten_tensor::iterators::LanesMut') if a[0].path == f.path]
        ok = bool(isb) and bool(aggs) and all(any(g.cond()[0] == 'call' and g.cond()[1].callee == isb[0].callee and g.truth() is False for g in f.guards(a[1])) for a in aggs)
        ctx.inst(R, 'LanesMut:not-broadcast', ok, 'LanesMut is constructed only after `!view.is_broadcast()` held (non-debug assert)', f.loc())



def _then_some_valid(f, c):
    """`self.index_valid(i).then_some(self.offset_unchecked(i))`: the unchecked offset is released only if the index is valid"""
    for y in f.calls():
        if re.search(r'::then_some$', y.callee or '') and len(y.args) == 2:
            r1 = f.resolve_copy(y.args[1])
            r0 = f.resolve_copy(y.args[0])
            if r1[0] == 'call' and r1[1].bb == c.bb and r0[0] == 'call' and (r0[1].callee or '').endswith('::index_valid'):
                return True
    return False


def unchecked_offset(ctx, fb, T):
    """who-may-call Layout::offset_unchecked (a *safe* function that skips the index check): every caller is an unsafe fn
    (the obligation is its caller's), a forwarding offset_unchecked impl, guarded by a positive index_valid() test, or reviewed"""
    R = 'C06.unchecked-offset'
    rev = RevTable({e['fn']: e['reason'] for e in T.get('offset_unchecked_callers', [])})
    n = 0
    cnt = {}
    for cr in ('rten_tensor', 'rten', 'rten_gemm', 'rten_imageproc', 'rten_vecmath', 'rten_text', 'rten_generate', 'rten_serialize'):
        for f, c in callers_of(fb, 're:::offset_unchecked$', crates=[cr]):
            n += 1
            short = f.path.replace('rten_tensor::', '')[-70:]
            cnt[short] = cnt.get(short, 0) + 1
            key = 'caller:%s#%d' % (short, cnt[short])
            if f.o.get('unsafe'):
                ctx.inst(R, key, True, 'unsafe fn: the in-bounds obligation is stated for its callers (see C06.unsafe-inventory)', c.loc())
            elif f.path.endswith('::offset_unchecked'):
                ctx.inst(R, key, True, 'forwarding impl of offset_unchecked', c.loc())
            elif guards_call(f, c.bb, 're:::index_valid$', truth=True) or _then_some_valid(f, c):
                ctx.inst(R, key, True, 'result is used only under a positive index_valid() test', c.loc())
            elif _dense_storage_guard(f, c.bb):
                # weak checking: only the offset is bounds-checked (by Storage::get). That is sound exactly when every storage
                # element belongs to this view - otherwise an out-of-shape index can land on an element of a sibling view
                # (split_at_mut along an inner axis interleaves the halves' storage ranges)
                ctx.inst(R, key, True, 'used only under `layout.len() == data.len()`: every in-range offset is an element of this view (the offset itself is bounds-checked by Storage::get)', c.loc())
            else:
                r = rev.get(f.path)
                ctx.inst(R, key, r is not None, ('reviewed: ' + r) if r else
                         'safe function calls offset_unchecked without an index_valid() test: an out-of-range index yields an offset outside the view (or inside another view of the same storage)', c.loc())
    ctx.floor(R, 'callers of offset_unchecked', n, 6)



def _dense_storage_guard(f, bb):
    """a dominating `Layout::len(..) == Storage::len(..)` comparison (true edge)"""
    for (op, a, b, g) in normalized_cmps(f, bb):
        if op != 'Eq':
            continue
        oa, ob = f.origins(a), f.origins(b)
        def is_layout_len(og):
            return any(o[0] == 'call' and re.search(r'Layout>?::len$', o[1] or '') for o in og)
        def is_storage_len(og):
            return any(o[0] == 'call' and re.search(r'Storage>?::len$', o[1] or '') for o in og)
        if (is_layout_len(oa) and is_storage_len(ob)) or (is_layout_len(ob) and is_storage_len(oa)):
            return True
    return False


def dyn_rank(ctx, fb, T):
    """DynLayout keeps shape and strides in ONE array and derives the rank from its length (ndim = len / 2): every bounds /
    overlap argument about a DynLayout assumes the two halves have equal length.  (param-constructor) the one constructor
    that receives the halves as two independent caller slices checks len(shape) == len(strides) before building the
    array; (sites) every other place that builds a DynLayout is in a reviewed table with the reason the halves match;
    (paired-mutation) methods that change the array's length in place insert / remove in pairs."""
    R = 'C06.dyn-rank'
    DL = 'rten_tensor::layout::DynLayout'
    aggs = aggregates_of(fb, DL, crates=['rten_tensor'])
    ctx.floor(R, 'DynLayout construction sites', len(aggs), 8)
    outside = [a for a in aggregates_of(fb, DL) if a[0].crate != 'rten_tensor'] if hasattr(aggs[0][0], 'crate') else []
    reviewed = T.get('dyn_layout_sites', {})
    seen = set()
    for (f, bb, st, rv) in aggs:
        if f.path in seen:
            continue
        seen.add(f.path)
        short = f.path.replace('rten_tensor::layout::', '')
        if f.path.endswith('MutLayout>::from_shape_and_strides'):
            # both caller slices flow into the array: their lengths must be compared first
            ok = False
            for g in f.guards(bb):
                c, t = unwrap_not(g.cond(), g.truth())
                if c[0] == 'cmp' and ((c[1] == 'Eq' and t is True) or (c[1] == 'Ne' and t is False)):
                    oa, ob = f.origins(c[2]), f.origins(c[3])
                    pa = {o[1] for o in oa if o[0] == 'param'} | {o[1] for o in ob if o[0] == 'param'}
                    lens = any(x[0] in ('len', 'ptrmeta') or (x[0] == 'call' and re.search(r'::len$', x[1] or '')) for x in (oa | ob))
                    if {0, 1} <= pa:
                        ok = True
            ctx.inst(R, 'param-constructor:' + short, ok, 'the array is built from the caller\'s shape and strides only after their lengths compared equal' if ok else
                     'shape and strides of different lengths are concatenated unchecked: the rank is then (len(shape)+len(strides))/2 and the bounds/overlap checks validate a layout other than the one later indexed (out-of-bounds read through the safe API after remove_axis)', f.loc())
        else:
            r = reviewed.get(f.path)
            ctx.inst(R, 'site:' + short, r is not None, ('reviewed: ' + r) if r else 'DynLayout built at an unreviewed site: it must be shown that both halves of shape_and_strides have the same length', f.loc())
    for k in reviewed:
        if k not in seen:
            ctx.note('C06.dyn-rank: reviewed-table entry no longer matches a construction site: ' + k)
    # in-place length changes come in pairs
    n = 0
    for f in fb.fns(crate='rten_tensor'):
        if not f.has_mir() or 'DynLayout' not in f.path:
            continue
        ins = [c for c in f.calls() if re.search(r'SmallVec::<A>::insert$', c.callee or '')]
        rem = [c for c in f.calls() if re.search(r'SmallVec::<A>::remove$', c.callee or '')]
        oth = [c for c in f.calls() if re.search(r'SmallVec::<A>::(push|pop|truncate|clear|drain|swap_remove|retain|insert_many|append)$', c.callee or '')]
        if not (ins or rem or oth):
            continue
        n += 1
        ok = len(ins) % 2 == 0 and len(rem) % 2 == 0 and not oth
        ctx.inst(R, 'paired-mutation:' + f.path.replace('rten_tensor::layout::', ''), ok,
                 'changes the array length by %d insert(s) and %d remove(s): shape and stride halves stay the same length' % (len(ins), len(rem)) if ok else
                 'changes the length of shape_and_strides by an odd number of elements (%d insert, %d remove, %d other): the halves no longer match' % (len(ins), len(rem), len(oth)), f.loc())
    ctx.floor(R, 'DynLayout methods changing the array length in place', n, 3)
