"""C38 The ONNX protobuf decoder terminates and never panics (crate rten_onnx)."""
import re
from rulelib import *
from facts import op_int, op_local, op_place, place_fields
import loaderlib as L
import callgraph

EXPLANATION = (
    "Scope-complete static rules over every function of crate rten_onnx (#![forbid(unsafe_code)] checked): "
    "(arith) every overflow-checked arithmetic site is either provably harmless (constant shifts, loop counters, "
    "C - x under a proven loop invariant x < C) or in the reviewed table - plain + - * on input-derived lengths is a "
    "violation; (cast) every narrowing or sign-changing integer cast likewise; (limit) every LimitReader read/skip "
    "method checks check_has_bytes(len) before delegating, check_has_bytes compares a checked sum with self.end, every "
    "LimitReader is built with end = min(saturating sum, parent end / end of input) and the root readers take the end "
    "of input from the buffer length or file metadata, so a length larger than the remaining input is an error before "
    "any allocation, read or seek; (alloc) every allocation whose size is not a constant is covered by that argument; "
    "(progress) every natural loop has a call on every cycle path that consumes >= 1 byte (or advances a finite "
    "iterator) whenever it succeeds, and the back edge is only reached on that success - summaries are computed "
    "inductively from BufRead::consume(n>=1) / read_exact([u8;N]) / Option::take; (recursion) every call-graph cycle "
    "is cut by an edge that is only taken after a depth-gate (depth < constant, depth+1 stored) succeeded; "
    "(limit) a LEN field's length is checked against the enclosing limit before the field exists, and the owned reader "
    "pre-allocates only when the input end is known; "
    "(panic-sites) no unwrap/expect/panic!/index site outside the discharged or reviewed set. Decides termination "
    "and panic-freedom structurally for all inputs; linear time is decided only as 'each iteration consumes input'.")
ASSUMPTIONS = ["std::io (Cursor, BufReader, File) read/seek semantics are trusted", "external implementations of ReadValue are out of scope",
               "x86_64: usize and u64 have the same width"]

CRATE = 'rten_onnx'
INT_W = {'u8': (8, False), 'u16': (16, False), 'u32': (32, False), 'u64': (64, False), 'u128': (128, False), 'usize': (64, False),
         'i8': (8, True), 'i16': (16, True), 'i32': (32, True), 'i64': (64, True), 'i128': (128, True), 'isize': (64, True),
         'bool': (1, False), 'char': (32, False)}
ALLOC = ('re:alloc::vec::from_elem$', 're:Vec::<T(, A)?>::with_capacity(_in)?$', 're:Vec::<T, A>::(reserve|reserve_exact|try_reserve|try_reserve_exact|resize|resize_with)$',
         're:alloc::raw_vec::', 're:String::(with_capacity|reserve|reserve_exact)$', 're:VecDeque::<T(, A)?>::(with_capacity|reserve)$',
         're:::repeat$', 're:Box::<\\[T\\]>::new_(uninit|zeroed)_slice$', 're:alloc::alloc::(alloc|alloc_zeroed|realloc)$')


def fn_short(p):
    return re.sub(r'rten_onnx::(protobuf::)?', '', p)


def run(ctx):
    fb = ctx.fb()
    T = ctx.tables
    c = fb.crates.get(CRATE)
    if not ctx.anchor('C38.scope', 'crate rten_onnx', c is not None):
        return
    fns = [f for f in fb.fns(crate=CRATE) if f.has_mir()]
    ctx.floor('C38.scope', 'functions with MIR in rten_onnx', len(fns), 100)
    ctx.inst('C38.forbid-unsafe', 'crate-attribute', c.header.get('forbid_unsafe') is True,
             '#![forbid(unsafe_code)] on rten_onnx: %s' % c.header.get('forbid_unsafe'), 'rten-onnx/src/lib.rs')

    arith(ctx, fb, fns, T)
    casts(ctx, fb, fns, T)
    limit(ctx, fb, T)
    alloc(ctx, fb, fns, T)
    progress(ctx, fb, fns, T)
    recursion(ctx, fb, T)
    panics(ctx, fb, fns, T)


# ---------------------------------------------------------------------------
def reviewed(T, table, fn, what):
    for e in T.get(table, []):
        if norm_closures(e['fn']) == norm_closures(fn.path) and e['what'] == what:
            return e['reason']
    return None


def arith(ctx, fb, fns, T):
    R = 'C38.arith'
    n = 0
    for f in fns:
        for (bb, kind, ops, line, exp, cond, expected) in f.asserts():
            if not kind.startswith('Overflow'):
                continue
            n += 1
            op = kind.split(':')[-1]
            key = '%s|%s' % (fn_short(f.path), op)
            ok, why = False, ''
            if op in ('Shl', 'Shr') and len(ops) == 2 and op_int(ops[1]) is not None:
                ok, why = True, 'shift by constant %s' % op_int(ops[1])
            elif op == 'Sub' and len(ops) == 2 and op_int(ops[0]) is not None and op_place(ops[1]):
                okk, w = L.loop_invariant_lt(f, _root(f, op_place(ops[1])[0]), op_int(ops[0]) + 1, bb)
                ok, why = okk, 'C - x: ' + w
            elif op in ('Add', 'Mul') and all(_harmless(f, o) for o in ops):
                ok, why = True, 'loop counter / enumerate index / constant operands only'
            if not ok:
                r = reviewed(T, 'arith_reviewed', f, op)
                if r:
                    ok, why = True, 'reviewed: ' + r
            tainted = [_describe(f, o) for o in ops if not _harmless(f, o)]
            ctx.inst(R, key, ok, (why if ok else 'unchecked %s on %s - not provably harmless and not in the reviewed table (use checked_/saturating_ arithmetic); %s' % (op, ', '.join(tainted) or 'operands', why)),
                     f.loc(line))
    ctx.floor(R, 'overflow-checked arithmetic sites', n, 8)


def _root(f, loc):
    for _ in range(6):
        d = f.def_of_local(loc)
        if d is None or d[2] != 'rv':
            return loc
        rv = d[3]
        if rv[0] == 'use' and rv[1][0] in ('c', 'm') and len(rv[1][1]) == 1:
            loc = rv[1][1][0]
            continue
        return loc
    return loc


def _harmless(f, o):
    if op_int(o) is not None:
        return True
    og = f.origins(o)
    return L.only_calls(og, ('re:Enumerate<I> as core::iter::traits::iterator::Iterator>::next$',))


def _describe(f, o):
    og = f.origins(o)
    parts = []
    for x in sorted(og, key=str):
        if x[0] == 'param':
            parts.append('param#%d%s' % (x[1], ('.' + '.'.join(map(str, x[2]))) if x[2] else ''))
        elif x[0] == 'call':
            parts.append('call ' + (x[1] or '?').split('::')[-1])
    return '{' + ', '.join(sorted(set(parts))[:5]) + '}'


def casts(ctx, fb, fns, T):
    R = 'C38.cast'
    n = 0
    for f in fns:
        for i, b in enumerate(f.bbs):
            if b.get('c') or i not in f.live():
                continue
            for s in b['s']:
                if not (s[0] == '=' and s[2][0] == 'cast' and s[2][1].startswith('IntToInt')):
                    continue
                src, dst = f.ty(s[2][3]), f.ty(s[2][4])
                if src not in INT_W or dst not in INT_W:
                    continue
                (sw, ss), (dw, ds) = INT_W[src], INT_W[dst]
                lossless = (dw > sw and (ds or not ss)) or (dw == sw and ss == ds)
                if lossless:
                    continue
                n += 1
                what = '%s->%s' % (src, dst)
                ok, why = False, ''
                if op_int(s[2][2]) is not None or L.is_pure_counter(f.origins(s[2][2])):
                    ok, why = True, 'constant / counter'
                else:
                    r = reviewed(T, 'cast_reviewed', f, what)
                    if r:
                        ok, why = True, 'reviewed: ' + r
                ctx.inst(R, '%s|%s' % (fn_short(f.path), what), ok,
                         why if ok else 'lossy or sign-changing cast %s of %s is not in the reviewed table (use try_from)' % (what, _describe(f, s[2][2])), f.loc(s[3]))
    ctx.count('lossy_casts', n)


# ---------------------------------------------------------------------------
LR = "rten_onnx::protobuf::value::LimitReader"
LR_IMPL = "<rten_onnx::protobuf::value::LimitReader<'a, R> as rten_onnx::protobuf::value::ReadValue>::"
LR_INH = "rten_onnx::protobuf::value::LimitReader::<'a, R>::"
VR_IMPL = "<rten_onnx::protobuf::value::ValueReader<R> as rten_onnx::protobuf::value::ReadValue>::"
RV = 'rten_onnx::protobuf::value::ReadValue::'


def limit(ctx, fb, T):
    R = 'C38.limit'
    need = {'read_i32': 4, 'read_i64': 8, 'read_varint': 1, 'read_bytes': None, 'read_string': None, 'skip': None}
    for m, k in need.items():
        f = fb.fn(LR_IMPL + m)
        if not ctx.anchor(R, 'fn LimitReader::' + m, f is not None and f.has_mir()):
            continue
        delegates = [c for c in f.calls() if c.declared == RV + m or (c.callee or '').endswith('ReadValue>::' + m)]
        ok = bool(delegates)
        det = []
        for d in delegates:
            sg = L.success_guard_calls(f, d.bb, fb)
            chk = [c for c in f.calls() if c.callee == LR_INH + 'check_has_bytes' and f.dominates(c.bb, d.bb)]
            good = False
            for c in chk:
                if c.callee not in sg:
                    continue
                a = c.args[1]
                if k is None:
                    good = has_param_origin(f.origins(a), 1) and not any(o[0] in ('binop', 'call') for o in f.origins(a))
                    det.append('check_has_bytes(len) with len = the method parameter: %s' % good)
                else:
                    v = op_int(a)
                    good = v is not None and v >= k
                    det.append('check_has_bytes(%s) >= %d' % (v, k))
            ok &= good
        ctx.inst(R, 'checked-before-delegate:' + m, ok, 'LimitReader::%s delegates to the inner reader only after check_has_bytes succeeded (%s)' % (m, '; '.join(det) or 'no guard found'), f.loc() if f else '')

    f = fb.fn(LR_INH + 'check_has_bytes')
    if ctx.anchor(R, 'fn LimitReader::check_has_bytes', f is not None and f.has_mir()):
        ok_exits = [(bb, k, i) for bb, k, i in L.return_defs(f) if k == 'ok']
        good = bool(ok_exits)
        for bb, k, i in ok_exits:
            g = False
            for (op, a, b, gd) in normalized_cmps(f, bb):
                if op in ('Gt', 'Ge'):
                    op, a, b = SWAP[op], b, a
                if op not in ('Le', 'Lt'):
                    continue
                oa, ob = f.origins(a), f.origins(b)
                lim = any(o[0] == 'param' and o[1] == 0 and 'end' in o[2] for o in ob)
                summed = has_origin_call(oa, ('re:::checked_add$',)) and has_param_origin(oa, 1) and has_origin_call(oa, ('re:::position$',))
                wraps = any(o[0] == 'binop' and o[1] in ('Add', 'AddWithOverflow', 'AddUnchecked') for o in oa)
                if lim and summed and not wraps:
                    g = True
            good &= g
        ctx.inst(R, 'check_has_bytes:checked-sum<=end', good, 'Ok is returned only under checked_add(position(), len) <= self.end', f.loc())
        ctx.inst(R, 'check_has_bytes:no-plain-arithmetic', not [1 for a in f.asserts() if a[1].startswith('Overflow')], 'no overflow-checked (wrapping in release) arithmetic in check_has_bytes', f.loc())

    # who may construct LimitReader
    # "field lengths larger than the remaining input are errors": sub_limit *clamps* (it cannot fail), so the header
    # reader Fields::next must test the length of a LEN field against the enclosing limit before the field exists
    fn_next = fb.fn('rten_onnx::protobuf::field::Fields::<\'r, R>::next')
    if ctx.anchor(R, 'fn Fields::next', fn_next is not None and fn_next.has_mir()):
        ok, where = False, fn_next.loc()
        for q in fb.with_closures(fn_next.path):
            h = fb.fn(q)
            if h is None or not h.has_mir():
                continue
            lens = [(i, st) for i, b in enumerate(h.bbs) if not b.get('c') and i in h.live() for st in b['s']
                    if st[0] == '=' and st[2][0] == 'agg' and st[2][3] == 'Len']
            chk = [c for c in h.calls() if (c.callee or '').endswith('LimitReader::<\'a, R>::check_has_bytes')]
            for (i, st) in lens:
                where = h.loc()
                for c in chk:
                    # same value checked and wrapped; the Len(..) is built only on the success side of the check
                    same = bool(h.origins(c.args[1]) & h.origins(st[2][4][0])) if st[2][4] else False
                    succ_side = h.dominates(c.bb, i) and any(gd.bb != c.bb and h.dominates(c.bb, gd.bb) for gd in h.guards(i))
                    if same and succ_side:
                        ok = True
        ctx.inst(R, 'field-length-within-enclosing-limit', ok,
                 'FieldValue::Len(len) is produced only after check_has_bytes(len) succeeded against the enclosing message limit' if ok else
                 'a length-delimited field is accepted without testing its length against the enclosing limit: sub_limit() silently clamps, so an embedded message / packed field claiming more bytes than remain is decoded from the bytes available instead of being an error', where)

    aggs = aggregates_of(fb, LR, crates={CRATE})
    ctx.floor(R, 'LimitReader construction sites', len(aggs), 2)
    adt = fb.adt(LR)
    fields = [fd['name'] for fd in adt['variants'][0]['fields']] if adt else []
    ctx.inst(R, 'LimitReader:fields', fields == ['inner', 'end', 'depth'], 'LimitReader fields %s' % fields, '')
    for (f, bb, s, rv) in aggs:
        ops = dict(zip(fields, rv[4]))
        short = f.path.split('::')[-1]
        if f.path == LR_INH + 'sub_limit':
            oe = f.origins(ops.get('end'))
            ok = has_origin_call(oe, 're:::min$') and any(o[0] == 'param' and o[1] == 0 and 'end' in o[2] for o in oe) \
                and has_origin_call(oe, ('re:::saturating_add$', 're:::checked_add$')) and not any(o[0] == 'binop' and o[1].startswith('Add') for o in oe)
            ctx.inst(R, 'sub_limit:end<=parent', ok, 'sub-reader end = min(position saturating+ len, self.end): never beyond the parent limit, no wrapping sum', f.loc(s[3]))
            od = f.origins(ops.get('depth'))
            ctx.inst(R, 'sub_limit:depth-inherited', od == {('param', 0, ('depth',))}, 'sub-reader inherits depth from its parent (%s)' % sorted(od, key=str)[:3], f.loc(s[3]))
        elif f.path == LR_INH + 'new':
            oe = f.origins(ops.get('end'))
            ok = has_origin_call(oe, 're:::min$') and has_origin_call(oe, 're:ReadValue::end_position$') \
                and has_origin_call(oe, ('re:::saturating_add$', 're:::checked_add$')) and not any(o[0] == 'binop' and o[1].startswith('Add') for o in oe)
            ctx.inst(R, 'new:end<=input-end', ok, 'root limit = min(position saturating+ len, inner.end_position()): bounded by the end of the input when known', f.loc(s[3]))
            ctx.inst(R, 'new:depth-zero', op_int(ops.get('depth')) == 0, 'root reader starts at depth 0', f.loc(s[3]))
        else:
            ctx.inst(R, 'constructs-LimitReader:' + fn_short(f.path), False, 'LimitReader built outside LimitReader::new / sub_limit', f.loc(s[3]))
    # depth writes
    for (f, bb, s, fld) in field_writes(fb, LR, crates={CRATE}):
        if fld in ('end', 'inner'):
            ctx.inst(R, 'writes-%s:%s' % (fld, fn_short(f.path)), False, 'LimitReader.%s assigned outside construction' % fld, f.loc(s[3]))
    # callers of LimitReader::new
    for (f, c) in callers_of(fb, LR_INH + 'new'):
        ctx.inst(R, 'new-caller:' + fn_short(f.path), f.path == "rten_onnx::protobuf::field::Fields::<'r, R>::new", 'LimitReader::new (root limit) is called from %s' % f.path, c.loc())
    # root readers
    VRA = 'rten_onnx::protobuf::value::ValueReader'
    vaggs = aggregates_of(fb, VRA, crates={CRATE})
    ctx.floor(R, 'ValueReader construction sites', len(vaggs), 3)
    for (f, bb, s, rv) in vaggs:
        end = rv[4][1] if len(rv[4]) > 1 else None
        oe = f.origins(end)
        nm = f.path.split('::')[-1]
        if nm == 'from_buf':
            r = f.resolve_copy(end)
            direct = r[0] == 'rv' and r[1][0] == 'agg' and r[1][3] == 'Some'
            ok = direct and (has_origin_call(oe, 're:::len$') or any(o[0] == 'len_of' for o in oe)) and has_param_origin(oe, 0) \
                and not any(o[0] == 'call' and not suffix_match(o[1], ('re:::len$', 're:::as_ref$')) for o in oe)
            ctx.inst(R, 'root:from_buf', ok, 'ValueReader::from_buf records end = Some(buf.len())', f.loc(s[3]))
        elif nm == 'from_file':
            # file.metadata().ok().filter(is_file).map(|m| m.len()): the value is produced by a closure of from_file
            lens = []
            for cp in fb.closures_of(f.path):
                cf = fb.fn(cp)
                lens.append(has_origin_call(cf.origins(['c', [0]]), 're:std::fs::Metadata::len$'))
            ok = has_origin_call(oe, 're:std::fs::File::metadata$') and has_origin_call(oe, 're:Option::<T>::map$') and any(lens) \
                and not any(o[0] == 'const' and o[1] not in ('0_u64',) for o in oe if o[0] == 'const' and re.match(r'^\d', o[1]))
            ctx.inst(R, 'root:from_file', ok, 'ValueReader::from_file records end = length from the file metadata (regular files)', f.loc(s[3]))
        elif nm == 'new':
            ok = any(o[0] == 'agg' and o[3] == 'None' for o in oe)
            ctx.inst(R, 'root:new', ok, 'ValueReader::new (unknown input length) records end = None', f.loc(s[3]))
        elif f.o.get('trait') == 'core::default::Default':
            continue
        else:
            ctx.inst(R, 'constructs-ValueReader:' + fn_short(f.path), False, 'ValueReader built outside new / from_buf / from_file', f.loc(s[3]))
    f = fb.fn(VR_IMPL + 'end_position')
    if ctx.anchor(R, 'fn ValueReader::end_position', f is not None and f.has_mir()):
        og = f.origins(['c', [0]])
        ctx.inst(R, 'root:end_position', og == {('param', 0, ('end',))}, 'ValueReader::end_position returns self.end', f.loc())
    f = fb.fn(LR_IMPL + 'end_position')
    if ctx.anchor(R, 'fn LimitReader::end_position', f is not None and f.has_mir()):
        og = f.origins(['c', [0]])
        ctx.inst(R, 'limit:end_position', any(o[0] == 'param' and o[1] == 0 and o[2] == ('end',) for o in og) and not any(o[0] in ('call', 'const') for o in og),
                 'LimitReader::end_position returns Some(self.end)', f.loc())
    for entry, ctor in (('rten_onnx::onnx::ModelProto::parse_buf', 'from_buf'), ('rten_onnx::onnx::ModelProto::parse_file', 'from_file')):
        f = fb.fn(entry)
        if ctx.anchor(R, 'fn ' + entry.split('::')[-1], f is not None and f.has_mir()):
            mk = [c for c in f.calls() if 'ValueReader' in (c.callee or '')]
            ctx.inst(R, 'entry:' + entry.split('::')[-1], bool(mk) and all((c.callee or '').endswith('::' + ctor) for c in mk),
                     '%s builds its reader with ValueReader::%s (%s)' % (entry.split('::')[-1], ctor, [fn_short(c.callee) for c in mk]), f.loc())


def alloc(ctx, fb, fns, T):
    R = 'C38.alloc'
    n = 0
    for f in fns:
        for c in f.calls():
            if not call_is(c, ALLOC):
                continue
            sized = [a for a in c.args if op_local(a) is not None and f.local_ty(op_local(a)) in ('usize', 'u64')]
            if not sized:
                continue
            n += 1
            what = (c.callee or '').split('::')[-1]
            a = sized[-1]
            og = f.origins(a)
            ok, why = False, ''
            if L.is_pure_counter(og):
                ok, why = True, 'constant size'
            elif f.path == VR_IMPL + 'read_bytes' and og == {('param', 1, ())}:
                # discharged interprocedurally: every caller passes a length that check_has_bytes accepted
                bad = []
                for (g, cc) in callers_of(fb, (VR_IMPL + 'read_bytes', RV + 'read_bytes')):
                    if g.path.startswith(LR_IMPL) or (g.path == VR_IMPL + 'read_string' and g.origins(cc.args[1]) == {('param', 1, ())}):
                        continue
                    if cc.callee and cc.callee.startswith(LR_IMPL):
                        continue
                    bad.append(g.path)
                for (g, cc) in callers_of(fb, (VR_IMPL + 'read_string', RV + 'read_string')):
                    if g.path.startswith(LR_IMPL) or (cc.callee and cc.callee.startswith(LR_IMPL)):
                        continue
                    bad.append(g.path)
                # ... and that check only means something when the end of the input is known: the allocation sits under
                # a `self.end` is Some(..) test (with an unknown end the buffer must grow with the data actually read)
                end_known = False
                for g in f.guards(c.bb):
                    cd = g.cond()
                    if cd[0] == 'call' and re.search(r'Option::<T>::is_some$', cd[1].callee or '') and g.truth() is True and \
                            any(o[0] == 'param' and o[1] == 0 and len(o) > 2 and o[2] and str(o[2][0]) == 'end' for o in f.origins(cd[1].args[0])):
                        end_known = True
                    if cd[0] == 'disc' and isinstance(cd[1], list) and any(isinstance(e, list) and e[0] == 'f' and str(e[2]) == 'end' for e in cd[1][1:]) and (g.vals == [1] or (g.vals is None and g.excluded == [0])):
                        end_known = True
                if not end_known:
                    bad.append('(allocation not under a `self.end.is_some()` test: with an unknown input length check_has_bytes cannot bound len)')
                ok = not bad
                why = 'len is the parameter of ValueReader::read_bytes; all workspace callers reach it through LimitReader (check_has_bytes(len) <= end of input, C38.limit) and the allocation is made only when the end of the input is known' if ok else 'read_bytes/read_string called on an unlimited reader from %s' % bad[:3]
            else:
                r = reviewed(T, 'alloc_reviewed', f, what)
                if r:
                    ok, why = True, 'reviewed: ' + r
            ctx.inst(R, '%s|%s' % (fn_short(f.path), what), ok, why if ok else 'allocation %s sized by %s is not bounded by the remaining input (no discharge, not reviewed)' % (what, _describe(f, a)), c.loc())
    ctx.floor(R, 'input-sized allocation sites', n, 1)


def progress(ctx, fb, fns, T):
    R = 'C38.progress'
    prog = L.Progress(fb, {CRATE})
    n = 0
    for f in fns:
        for (h, body) in f.loops():
            n += 1
            ok, why = L.loop_progress(f, h, body, prog)
            if not ok:
                r = reviewed(T, 'loop_reviewed', f, 'loop')
                if r:
                    ok, why = True, 'reviewed: ' + r
            line = f.bbs[h]['t'][-2] if f.bbs[h]['t'][0] in ('sw',) else f.line
            ctx.inst(R, 'loop:' + fn_short(f.path), ok, ('every iteration makes progress: ' + why) if ok else ('loop not proven to make progress: ' + why), f.loc())
    ctx.floor(R, 'natural loops in rten_onnx', n, 18)
    # the summaries the loops rely on, reported individually
    for p in ("rten_onnx::protobuf::varint::read_varint", "rten_onnx::protobuf::field::Fields::<'r, R>::next",
              VR_IMPL + 'read_varint', VR_IMPL + 'read_i32', VR_IMPL + 'read_i64', LR_IMPL + 'read_varint', LR_IMPL + 'read_i32', LR_IMPL + 'read_i64'):
        f = fb.fn(p)
        if ctx.anchor(R, 'fn ' + fn_short(p), f is not None and f.has_mir()):
            ok, why = prog.fn_progress(p)
            ctx.inst(R, 'summary:' + fn_short(p), ok, ('consumes >= 1 byte whenever it returns a value: ' if ok else 'NOT proven to consume input on success: ') + why, f.loc())


def recursion(ctx, fb, T):
    R = 'C38.recursion'
    cg = callgraph.CallGraph(fb)
    nodes = set(fb.fn_paths(crate=CRATE))
    sccs = cg.sccs(nodes)
    gates = depth_gates(fb, cg, nodes)
    ctx.floor(R, 'depth-gate functions', len(gates), 2)
    for g, why in sorted(gates.items()):
        ctx.inst(R, 'gate:' + fn_short(g), True, why, fb.fn(g).loc())
    real = 0
    for scc in sccs:
        sset = set(scc)
        # edges inside the SCC
        edges = []
        for p in scc:
            f = fb.fn(p)
            for q, call, how in cg.callees(f):
                if q in sset and call is not None:
                    edges.append((p, q, call, how, f))
        # artefact: self-loop through a call on the generic parameter R (type nesting, not runtime recursion)
        def artefact(e):
            p, q, call, how, f = e
            return how == 'cha' and call.info.get('r') is None and re.match(r'^\[(\'?\{?[a-z_]*\}?, )*[A-Z][A-Za-z]*/#\d+\]$', call.info.get('ga', '') or '') is not None
        if all(artefact(e) for e in edges):
            ctx.inst(R, 'scc-generic:' + fn_short(scc[0]), True, 'cycle only through calls on the generic reader parameter (type nesting decreases): not runtime recursion', fb.fn(scc[0]).loc(), nontrivial=False)
            continue
        real += 1
        # remove gated edges: edges whose call site is dominated by the success guard of a depth gate
        kept = []
        ngated = 0
        for e in edges:
            p, q, call, how, f = e
            if artefact(e):
                continue
            sg = L.success_guard_calls(f, call.bb, fb)
            if any(g in sg for g in gates):
                ngated += 1
                continue
            kept.append((p, q))
        # is the remaining graph acyclic?
        adj = {}
        for p, q in kept:
            adj.setdefault(p, set()).add(q)
        cyc = find_cycle(adj)
        ctx.inst(R, 'scc:' + fn_short(scc[0]), cyc is None,
                 ('recursive cycle of %d functions: every cycle passes one of %d call sites that are only reached after a depth gate succeeded' % (len(scc), ngated)) if cyc is None
                 else 'unbounded recursion: cycle %s has no depth-gated edge' % fmt_chain([fn_short(x) for x in cyc]), fb.fn(scc[0]).loc())
    ctx.floor(R, 'recursive cycles analysed', real, 1)


def find_cycle(adj):
    color = {}
    stack = []

    def dfs(u):
        color[u] = 1
        stack.append(u)
        for v in sorted(adj.get(u, ())):
            if color.get(v, 0) == 1:
                return stack[stack.index(v):] + [v]
            if color.get(v, 0) == 0:
                r = dfs(v)
                if r:
                    return r
        stack.pop()
        color[u] = 2
        return None
    import sys
    sys.setrecursionlimit(10000)
    for u in sorted(adj):
        if color.get(u, 0) == 0:
            r = dfs(u)
            if r:
                return r
    return None


def depth_gates(fb, cg, nodes):
    """functions whose success exits are all behind `depth < CONST` (and store depth + 1), closed over functions whose
    success exits are all behind the success of a gate call"""
    gates = {}
    for p in sorted(nodes):
        f = fb.fn(p)
        if f is None or not f.has_mir():
            continue
        rets = L.return_defs(f)
        oks = [r for r in rets if r[1] == 'ok']
        if not oks or any(r[1] in ('call', 'other') for r in rets):
            continue
        good = True
        bound = None
        for bb, k, info in oks:
            hit = False
            for (op, a, b, g) in normalized_cmps(f, bb):
                if op in ('Gt', 'Ge'):
                    op, a, b = SWAP[op], b, a
                if op not in ('Lt', 'Le'):
                    continue
                oa = f.origins(a)
                cb = op_int(b)
                if cb is not None and 0 < cb <= 10000 and any(o[0] == 'param' and o[1] == 0 and o[2] and o[2][-1] == 'depth' for o in oa):
                    hit = True
                    bound = cb
            good &= hit
        if not good:
            continue
        # depth + 1 stored on the way
        inc = False
        for i, b in enumerate(f.bbs):
            for s in b['s']:
                if s[0] == '=' and place_fields(s[1])[-1:] == ['depth']:
                    og = f.origins(['c', s[1]]) if False else f.origins(s[2][1]) if s[2][0] == 'use' else set()
                    if any(o[0] == 'binop' and o[1].startswith('Add') for o in og) and any(o[0] == 'const' and const_int_safe(o[1]) == 1 for o in og):
                        inc = True
        if inc:
            gates[p] = 'success only under self.depth < %d, and the returned reader carries depth + 1' % bound
    # closure: success exits dominated by success of a gate
    changed = True
    while changed:
        changed = False
        for p in sorted(nodes):
            if p in gates:
                continue
            f = fb.fn(p)
            if f is None or not f.has_mir():
                continue
            rets = L.return_defs(f)
            oks = [r for r in rets if r[1] == 'ok']
            if not oks or any(r[1] == 'other' for r in rets):
                continue
            if any(r[1] == 'call' and not call_is(r[2], 're:from_residual$') for r in rets):
                continue
            if all(any(g in L.success_guard_calls(f, bb, fb) for g in gates) for bb, k, i in oks):
                via = [g for g in gates if any(g in L.success_guard_calls(f, bb, fb) for bb, k, i in oks)]
                gates[p] = 'success only after %s succeeded' % fn_short(via[0])
                changed = True
    return gates


def const_int_safe(t):
    from facts import const_int
    return const_int(t)


def panics(ctx, fb, fns, T):
    R = 'C38.panic-sites'
    n = 0
    for f in fns:
        for s in panic_sites(f, include_overflow=False):
            if s['kind'].startswith('assert:') and s['kind'] != 'assert:BoundsCheck' and not s['kind'].startswith('assert:Division') and not s['kind'].startswith('assert:Remainder'):
                continue
            n += 1
            what = s['detail'].split('::')[-1] if s['call'] else s['kind']
            ok, why = False, ''
            c = s['call']
            if c is not None and call_is(c, ('re:core::slice::index::<impl core::ops::index::Index<I> for \\[T\\]>::index$',)):
                ok, why = range_to_min_len(f, c)
            if not ok:
                r = reviewed(T, 'panic_reviewed', f, what)
                if r:
                    ok, why = True, 'reviewed: ' + r
            ctx.inst(R, '%s|%s' % (fn_short(f.path), what), ok, why if ok else 'panic-capable site %s is neither discharged nor reviewed' % s['detail'], f.loc(s['line']))
    ctx.count('panic_capable_sites', n)
    ctx.inst(R, 'census', True, '%d panic-capable (non-arithmetic) sites in rten_onnx' % n, '', nontrivial=False)


def range_to_min_len(f, c):
    """buf[..n] with n = min(len(buf), _)"""
    prog = L.Progress(f.fb, {CRATE})
    base = prog._root_local(f, c.args[0])
    r = f.resolve_copy(c.args[1])
    if not (r[0] == 'rv' and r[1][0] == 'agg' and r[1][2] == 'core::ops::range::RangeTo'):
        return (False, '')
    m = prog._def_call(f, r[1][4][0])
    if m is None or not call_is(m, 're:::min$'):
        return (False, 'range end is not a min(..)')
    for a in m.args:
        lc = prog._def_call(f, a)
        if lc is not None and call_is(lc, 're:::len$') and prog._root_local(f, lc.args[0]) == base:
            return (True, 'slice[..min(slice.len(), _)] cannot be out of range')
    return (False, 'range end min(..) does not involve the length of the indexed slice')
