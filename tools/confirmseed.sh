#!/bin/bash
# confirmseed.sh <seed worktree>: independently confirm a seeded change in its scratch worktree:
#  (1) pristine tree + patch: whole workspace test suite passes; (2) demo fails with the patch; (3) demo passes without.
# writes <wt>/_seed/confirm.log and prints a one-line verdict
WT="$1"; S="$WT/_seed"; LOG="$S/confirm.log"
cd "$WT" || exit 2
{
git checkout -q -- . ; git clean -fdq -e target -e _seed
git apply --whitespace=nowarn "$S/patch.diff" || { echo "VERDICT patch-does-not-apply"; exit 1; }
echo "== suite with patch"; 
CARGO_NET_OFFLINE=true cargo nextest run --workspace --offline --no-fail-fast 2>&1 | tail -15
SUITE=${PIPESTATUS[0]}
echo "suite rc=$SUITE"
echo "== demo with patch"; timeout 1800 sh "$S/demo.sh" "$WT" 2>&1 | tail -15; DW=${PIPESTATUS[0]}; echo "demo-with rc=$DW"
git checkout -q -- . ; git clean -fdq -e target -e _seed
echo "== demo without patch"; timeout 1800 sh "$S/demo.sh" "$WT" 2>&1 | tail -8; DO=${PIPESTATUS[0]}; echo "demo-without rc=$DO"
git checkout -q -- . ; git clean -fdq -e target -e _seed
if [ "$SUITE" = 0 ] && [ "$DW" != 0 ] && [ "$DO" = 0 ]; then echo "VERDICT confirmed"; else echo "VERDICT NOT-confirmed suite=$SUITE demo_with=$DW demo_without=$DO"; fi
} > "$LOG" 2>&1
tail -1 "$LOG"
