#!/usr/bin/env python3
"""seedprompt.py <Cxx> <worktree> [angle]: prompt for an independent seeding sub-agent (property text + worktree only)"""
import json, sys
pid, wt = sys.argv[1], sys.argv[2]
angle = sys.argv[3] if len(sys.argv) > 3 else ''
p = [json.loads(l) for l in open('/verif/properties.jsonl') if json.loads(l)['id'] == pid][0]
print(f"""You are given a scratch git worktree of the open-source Rust project robertknight/rten (an ONNX inference engine: graph planner/optimizer, SIMD GEMM kernels, ~100 tensor operators, a strided tensor library) at {wt}. Work ONLY inside {wt}. Do not read, list or modify /repo or /verif or any other directory under /tmp/seed. The sandbox is offline: always pass --offline to cargo, and use the worktree's own target dir (run cargo from inside {wt}; {wt}/target is pre-populated so builds are incremental).

PROPERTY ({p['id']}: {p['title']}):
{p['statement']}
Quantified over: {p['quantifier']['text']}
Files involved: {', '.join(p['anchors'].get('files', []))}

YOUR TASK: act as a realistic source of regression. Make a small, plausible change to the project's (non-test) source code that BREAKS the property above, such that:
 1. the workspace still compiles (cargo build --workspace --offline);
 2. the project's existing tests still pass, unedited: run at least `cargo test --offline -p <each crate you touched>` (for the root crate that is `cargo test --offline -p rten --lib`) and confirm zero failures; do not edit, delete or ignore existing tests;
 3. the breakage needs something SPECIFIC to manifest: a particular interleaving, a crash or fault at a particular point, a multi-step sequence of operations, an unusual input (extreme size, wrap-around, rare attribute/feature combination, rarely taken code path or CPU kernel), or two cooperating sites that each look fine alone. It must NOT be something ordinary use or the existing tests expose at once. Prefer changes a code reviewer could plausibly let through (a "simplification", "optimisation", refactor or an off-by-one in a rare branch) over sabotage that is obviously malicious.
 {('Angle to explore: ' + angle) if angle else ''}
 4. write a DEMONSTRATION: a new Rust test (an integration test file under the touched crate's tests/ directory, or a #[test] in a new file, or a small example program) that FAILS (wrong result / panic / hang with a timeout / UB symptom) with your change applied and PASSES on the original code. Verify both directions yourself (use `git stash` / `git diff` / `git apply -R` inside the worktree to toggle your change while keeping the demonstration).

DELIVERABLES, all inside {wt}/_seed/ :
 - patch.diff : `git diff` of the source change ONLY (not the demonstration), applicable with `git apply` at the repository root;
 - the demonstration file(s), plus demo.sh : a shell script that, run from the repository root of a checkout with the demonstration files copied to the places demo.sh says (or that copies them itself from its own directory, given the repo root as $1), runs the demonstration and exits non-zero iff the property is violated;
 - meta.json : {{"property": "{p['id']}", "summary": "...what the change does...", "needs": "...what specific condition is needed for the breakage to manifest...", "files_changed": [...], "commands_run": ["...the exact commands you ran and their outcome (tests passed with change; demo fails with change; demo passes without)..."]}}.
Leave the worktree with your change applied and the demonstration in place. In your final message report: the summary, the needs, the test commands you ran and their results. Keep the change minimal (ideally under 15 changed lines). If after real effort you cannot find a change meeting all constraints, say so plainly and explain why.""")
