#!/usr/bin/env python3
"""tryseed.py <patch.diff> <Cxx> [Cyy ...]: apply a seeded change to a scratch worktree of /repo HEAD and run the
given checks against it (no evidence written).  Prints the violation keys; exit 0 if any check fired."""
import os, sys, subprocess, tempfile, shutil, re
V = os.path.dirname(os.path.dirname(os.path.abspath(__file__)))
patch, props = sys.argv[1], sys.argv[2:]
wt = tempfile.mkdtemp(prefix='verif-seedtry-'); os.rmdir(wt)
rep = tempfile.mkdtemp(prefix='verif-seedrep-')
try:
    subprocess.run(['git', '-C', '/repo', 'worktree', 'add', '--detach', '-q', wt, 'HEAD'], check=True)
    r = subprocess.run(['git', '-C', wt, 'apply', '--whitespace=nowarn', '-3', patch], capture_output=True, text=True)
    if r.returncode != 0:
        r = subprocess.run(['git', '-C', wt, 'apply', '--whitespace=nowarn', patch], capture_output=True, text=True)
    if r.returncode != 0:
        print('PATCH DOES NOT APPLY:', r.stderr[:500]); sys.exit(2)
    fired = False
    for p in props:
        env = dict(os.environ, VERIF_REPO=wt, VERIF_SCRATCH='1', VERIF_SCRATCH_REPORTS=rep)
        r = subprocess.run([os.path.join(V, 'check'), p], capture_output=True, text=True, env=env)
        keys = re.findall(r'rule=\S+ key=(.*)', r.stdout)
        print('%s rc=%d keys=%s' % (p, r.returncode, keys))
        if r.returncode not in (0, 1) or 'fact generation failed' in (r.stdout + r.stderr):
            print((r.stdout + r.stderr)[-1500:])
        for l in r.stdout.split('\n'):
            if l.startswith('  ') and not l.startswith('  rule='):
                print('   ', l.strip()[:300])
        fired |= r.returncode == 1
    sys.exit(0 if fired else 1)
finally:
    shutil.rmtree(rep, ignore_errors=True)
    subprocess.run(['git', '-C', '/repo', 'worktree', 'remove', '--force', wt], capture_output=True)
    shutil.rmtree(wt, ignore_errors=True)
    subprocess.run(['git', '-C', '/repo', 'worktree', 'prune'], capture_output=True)
