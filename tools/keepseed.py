#!/usr/bin/env python3
"""keepseed.py <seed-worktree-name> <id> <property> <detected|missed> "<keys or reason>"
Copies a confirmed seeded change into /verif/seeded/<id>/ : patch.diff re-based onto /repo HEAD, the demonstration,
meta.json (agent's description + what was run to confirm + which check catches it)."""
import json, os, shutil, subprocess, sys, tempfile
name, sid, prop, verdict, note = sys.argv[1:6]
src = '/tmp/seed/%s/_seed' % name
dst = '/verif/seeded/%s' % sid
os.makedirs(dst, exist_ok=True)
patch = os.path.join(src, 'patch.rebased.diff') if os.path.exists(os.path.join(src, 'patch.rebased.diff')) else os.path.join(src, 'patch.diff')
wt = tempfile.mkdtemp(prefix='verif-keep-'); os.rmdir(wt)
subprocess.run(['git', '-C', '/repo', 'worktree', 'add', '--detach', '-q', wt, 'HEAD'], check=True)
try:
    r = subprocess.run(['git', '-C', wt, 'apply', '--whitespace=nowarn', '-3', patch], capture_output=True, text=True)
    if r.returncode != 0:
        print('cannot rebase', r.stderr); sys.exit(1)
    subprocess.run(['git', '-C', wt, 'reset', '-q'], check=True)
    d = subprocess.run(['git', '-C', wt, 'diff'], capture_output=True, text=True).stdout
    open(os.path.join(dst, 'patch.diff'), 'w').write(d)
finally:
    subprocess.run(['git', '-C', '/repo', 'worktree', 'remove', '--force', wt], capture_output=True)
for fn in os.listdir(src):
    if fn in ('patch.diff', 'patch.rebased.diff', 'meta.json', 'confirm.log'):
        continue
    if os.path.isdir(os.path.join(src, fn)):
        shutil.copytree(os.path.join(src, fn), os.path.join(dst, fn), dirs_exist_ok=True)
    else:
        shutil.copy(os.path.join(src, fn), os.path.join(dst, fn))
meta = {}
try:
    meta = json.load(open(os.path.join(src, 'meta.json')))
except Exception as e:
    meta = {'agent_meta_unreadable': str(e)}
conf = open(os.path.join(src, 'confirm.log')).read() if os.path.exists(os.path.join(src, 'confirm.log')) else ''
head = subprocess.run(['git', '-C', '/repo', 'rev-parse', '--short', 'HEAD'], capture_output=True, text=True).stdout.strip()
out = {
    'property': prop,
    'origin': 'independent sub-agent given only the property text and a scratch worktree (%s)' % name,
    'breaks': meta.get('summary', ''),
    'needs_to_manifest': meta.get('needs', ''),
    'agent_commands': meta.get('commands_run', []),
    'confirmed_by_me': {
        'how': 'tools/confirmseed.sh in the scratch worktree: pristine tree + patch -> `cargo nextest run --workspace --offline --no-fail-fast` passes; demo.sh exits non-zero with the patch and zero without',
        'verdict': [l for l in conf.split('\n') if l.startswith('VERDICT')][-1:] or ['not run'],
        'log_tail': [l for l in conf.split('\n') if 'rc=' in l or 'Summary' in l][:8],
    },
    'patch_applies_to_repo_head': head,
    'checks': {'verdict': verdict, 'detail': note,
               'how': 'tools/tryseed.py seeded/%s/patch.diff %s  (scratch worktree of /repo HEAD + patch, ./check with VERIF_REPO)' % (sid, prop)},
}
json.dump(out, open(os.path.join(dst, 'meta.json'), 'w'), indent=1)
print('kept', dst, verdict)
