#!/bin/bash
# mkseedwt.sh <name>: scratch worktree of /repo HEAD for a seeding sub-agent (outside /repo and /verif)
set -e
D=/tmp/seed/$1
git -C /repo worktree add --detach -q "$D" HEAD
cp -a /repo/target "$D/target" 2>/dev/null || true
mkdir -p "$D/_seed"
echo "$D"
