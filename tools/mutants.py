#!/usr/bin/env python3
"""Both-ways self test of the rules (DESIGN §7).

selftest/<prop>/<name>.patch : unified diff against /repo (first lines may be comments)
    # expect: <substring of a violation key>      (one or more)
    # props: C23,C22                               (optional: also run these checks)
For each mutant: git worktree of /repo HEAD under $TMPDIR, apply the patch, run
`./check <prop>` with VERIF_REPO pointing at it and VERIF_SCRATCH=1 (no evidence is
written), require exit 1 and every expected key among the reported violation keys,
then remove the worktree.  usage: mutants.py [prop ...] [--only name] [--keep]
"""
import os, sys, subprocess, tempfile, shutil, re, json, glob, time
V = os.path.dirname(os.path.dirname(os.path.abspath(__file__)))
REPO = '/repo'

def run_mutant(prop, patch, keep=False):
    name = os.path.basename(patch)[:-6]
    lines = open(patch).read().split('\n')
    expects = [l.split(':', 1)[1].strip() for l in lines if l.startswith('# expect:')]
    props = [prop]
    for l in lines:
        if l.startswith('# props:'):
            props = [p.strip() for p in l.split(':', 1)[1].split(',')]
    wt = tempfile.mkdtemp(prefix='verif-mut-')
    os.rmdir(wt)
    rep = tempfile.mkdtemp(prefix='verif-mutrep-')
    t0 = time.time()
    try:
        subprocess.run(['git', '-C', REPO, 'worktree', 'add', '--detach', '-q', wt, 'HEAD'], check=True)
        r = subprocess.run(['git', '-C', wt, 'apply', '--whitespace=nowarn', patch], capture_output=True, text=True)
        if r.returncode != 0:
            return name, False, 'patch does not apply: ' + r.stderr.strip()[:300]
        keys = []
        rc_any = 0
        out_all = ''
        for p in props:
            env = dict(os.environ, VERIF_REPO=wt, VERIF_SCRATCH='1', VERIF_SCRATCH_REPORTS=rep)
            r = subprocess.run([os.path.join(V, 'check'), p], capture_output=True, text=True, env=env)
            out_all += r.stdout + r.stderr
            rc_any |= r.returncode
            keys += re.findall(r'rule=\S+ key=(.*)', r.stdout)
        if 'fact generation failed' in out_all:
            return name, False, 'mutant does not compile: ' + out_all[-600:]
        missing = [e for e in expects if not any(e in k for k in keys)]
        if any(l.startswith('# expect-none') for l in lines):
            # benign (behaviour-preserving) variant: the checks must stay silent
            ok = rc_any == 0
            return name, ok, 'benign variant: rc=%d keys=%s (%.0fs)' % (rc_any, keys[:6], time.time() - t0)
        ok = rc_any == 1 and not missing and bool(expects)
        return name, ok, 'rc=%d keys=%s missing=%s (%.0fs)' % (rc_any, keys[:6], missing, time.time() - t0)
    finally:
        shutil.rmtree(rep, ignore_errors=True)
        if not keep:
            subprocess.run(['git', '-C', REPO, 'worktree', 'remove', '--force', wt], capture_output=True)
            shutil.rmtree(wt, ignore_errors=True)
            subprocess.run(['git', '-C', REPO, 'worktree', 'prune'], capture_output=True)

def main():
    args = sys.argv[1:]
    keep = '--keep' in args
    only = None
    if '--only' in args:
        only = args[args.index('--only') + 1]
    props = [a for a in args if re.match(r'^C\d+$', a)]
    if not props:
        props = sorted(os.path.basename(d) for d in glob.glob(os.path.join(V, 'selftest', 'C*')))
    bad = 0
    for p in props:
        for patch in sorted(glob.glob(os.path.join(V, 'selftest', p, '*.patch'))):
            if only and only not in patch:
                continue
            name, ok, msg = run_mutant(p, patch, keep)
            print('%s %s/%s  %s' % (('SILENT-OK' if 'benign' in msg else 'DETECTED') if ok else ('FALSE-ALARM' if 'benign' in msg else 'MISSED  '), p, name, msg), flush=True)
            bad += 0 if ok else 1
    return 1 if bad else 0

if __name__ == '__main__':
    sys.exit(main())
