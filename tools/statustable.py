#!/usr/bin/env python3
"""statustable.py: regenerate the DESIGN.md section 9.1 status table from evidence/*.json (rule groups and instance counts
of the last run of every check) and selftest/ (mutants; benign variants counted separately)."""
import glob, json, os, re
V = os.path.dirname(os.path.dirname(os.path.abspath(__file__)))
rows = []
for p in sorted(glob.glob(os.path.join(V, 'evidence', 'C*.json'))):
    d = json.load(open(p))
    pid = d['property_id']
    rules = d['coverage'].get('rules', {})
    groups = ', '.join('%s %d' % (k.split('.', 1)[1] if '.' in k else k, v) for k, v in sorted(rules.items(), key=lambda kv: kv[0]))
    muts = glob.glob(os.path.join(V, 'selftest', pid, '*.patch'))
    benign = [m for m in muts if open(m).readline().startswith('# expect-none')]
    seeds = sorted(os.path.basename(s) for s in glob.glob(os.path.join(V, 'seeded', pid + '-*')) if not s.endswith('neutralised'))
    rows.append('| %s | %s | %d%s | %s |' % (pid, groups, len(muts) - len(benign), (' (+%d benign)' % len(benign)) if benign else '', ' '.join(seeds) or '-'))
table = '| id | rule groups (instances on the current tree) | mutants | seeds kept |\n|----|---------------------------------------------|---------|-----------|\n' + '\n'.join(rows) + '\n'
dp = os.path.join(V, 'DESIGN.md')
s = open(dp).read()
m = re.search(r'\| id \| rule groups \(instances on the current tree\) \| mutants \|.*?\n(?=\n)', s, re.S)
assert m, 'status table not found'
s = s[:m.start()] + table + s[m.end():]
open(dp, 'w').write(s)
print('rewrote %d rows' % len(rows))
