import sys, os
sys.path.insert(0, os.path.join(os.path.dirname(os.path.abspath(__file__)), '..', 'engine', 'py'))
import runner
d, h = runner.ensure_facts((sys.argv[1] if len(sys.argv) > 1 else 'ws',))
print(list(d.values())[0])
