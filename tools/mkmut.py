#!/usr/bin/env python3
"""helper to author mutants: mkmut.py <prop> <name> <file> <expect[;expect2]> then old/new text on stdin separated by a line '=====' """
import subprocess, sys
prop, name, file, expect = sys.argv[1:5]
old, new = sys.stdin.read().split('\n=====\n')
new = new.rstrip('\n') if not new.endswith('\n\n') else new
s = open('/repo/' + file).read()
assert s.count(old.rstrip('\n')) >= 1, 'old text not found'
s2 = s.replace(old.rstrip('\n'), new.rstrip('\n'), 1)
open('/repo/' + file, 'w').write(s2)
d = subprocess.run(['git', '-C', '/repo', 'diff', '--', file], capture_output=True, text=True).stdout
open('/repo/' + file, 'w').write(s)
hdr = ''.join('# expect: %s\n' % e for e in expect.split(';'))
import os
os.makedirs('/verif/selftest/%s' % prop, exist_ok=True)
open('/verif/selftest/%s/%s.patch' % (prop, name), 'w').write(hdr + d)
print('wrote', name, len(d.split('\n')), 'lines')
