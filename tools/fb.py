"""interactive helper: from tools.fb import *; fb = get()"""
import sys, os
V = os.path.dirname(os.path.dirname(os.path.abspath(__file__)))
sys.path.insert(0, os.path.join(V, 'engine', 'py')); sys.path.insert(0, os.path.join(V, 'rules'))
import facts, runner
from rulelib import *
def get(cfg='ws'):
    dirs, h = runner.ensure_facts((cfg,))
    return facts.FactBase(dirs[cfg], cfg)
