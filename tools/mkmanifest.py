#!/usr/bin/env python3
"""Regenerates /verif/MANIFEST.json from tools/claims.json (claimed checks) and the
not-applicable table; validates against the schema."""
import json, os, sys
V = os.path.dirname(os.path.dirname(os.path.abspath(__file__)))
claims = json.load(open(os.path.join(V, 'tools', 'claims.json')))
props = [json.loads(l) for l in open(os.path.join(V, 'properties.jsonl'))]
ids = [p['id'] for p in props]
checks = []
for pid in ids:
    c = claims['claimed'].get(pid)
    if not c:
        continue
    checks.append({
        'property_id': pid,
        'quick_cmd': './check %s --tier quick' % pid,
        'thorough_cmd': './check %s --tier thorough' % pid,
        'evidence_file': 'evidence/%s.json' % pid,
        'replay_cmd_template': './check %s --replay {path}' % pid,
        'engine': 'mirfacts+rules',
        'level_claimed': {'category': 'other', 'text': c['text'], 'design_ref': 'DESIGN.md §5 ' + pid},
        'level_note': c.get('note', 'Trusted base: rustc nightly MIR construction and trait resolution; std / third-party crates treated as boundaries; the reviewed instance tables in /verif/tables. Decides the named structural clause(s) on the x86_64 build of the analysed feature configuration, not the runtime behaviour.'),
        'technique': c['technique'],
    })
na = []
for pid in ids:
    if pid in claims['claimed']:
        continue
    r = claims['not_applicable'].get(pid)
    if not r:
        print('property %s neither claimed nor N/A' % pid, file=sys.stderr); sys.exit(1)
    na.append({'property_id': pid, 'reason': r})
m = {
    'version': 1,
    'setup_cmd': 'cd engine/mirfacts && CARGO_NET_OFFLINE=true cargo build --release --offline',
    'hooks': {
        'guard': 'rten_verif',
        'enable': 'none needed: the analysis reads /repo\'s source through a rustc_private driver (RUSTC_WORKSPACE_WRAPPER under cargo +nightly check); no instrumentation is compiled into rten',
        'baseline_off_cmd': 'cd /repo && cargo test --workspace --no-fail-fast --offline',
        'source_commits': [],
        'add_only': True,
    },
    'engines': [
        {'name': 'mirfacts', 'path': 'engine/mirfacts', 'kind_free_text': 'rustc_private driver: dumps resolved MIR, impl/ADT/static facts and monomorphic reachability of every workspace crate', 'serves_properties': [c['property_id'] for c in checks]},
        {'name': 'rules', 'path': 'rules', 'kind_free_text': 'python rule modules (dominance guards, provenance, who-may-call/construct, sibling agreement, discharge) over the fact base', 'serves_properties': [c['property_id'] for c in checks]},
    ],
    'checks': checks,
    'not_applicable': na,
    'notes': claims.get('notes', ''),
}
json.dump(m, open(os.path.join(V, 'MANIFEST.json'), 'w'), indent=1)
try:
    import jsonschema
    jsonschema.validate(m, json.load(open('/root/.vp/MANIFEST.schema.json')))
    print('MANIFEST.json valid: %d checks, %d n/a' % (len(checks), len(na)))
except ImportError:
    print('jsonschema not importable; wrote MANIFEST.json unvalidated')
