"""Rule runner: makes sure the fact base matches /repo's working tree, evaluates the
rule module of one property, compares with known findings, writes evidence + replay
files and prints the interface lines."""
import fcntl
import hashlib
import importlib
import json, re
import os
import shutil
import subprocess
import sys
import time

VERIF = os.path.dirname(os.path.dirname(os.path.dirname(os.path.abspath(__file__))))
REPO = os.environ.get('VERIF_REPO', '/repo')
FACTS_ROOT = os.path.join(VERIF, '.facts')
sys.path.insert(0, os.path.join(VERIF, 'engine', 'py'))
sys.path.insert(0, os.path.join(VERIF, 'rules'))

import facts  # noqa: E402

CFGS = {
    # name -> cargo check arguments
    'ws': ['--workspace', '--lib'],
    'ser': ['-p', 'rten-serialize', '--features', 'npz,safetensors', '--lib'],
    'min_none': ['-p', 'rten', '--no-default-features', '--lib'],
    'min_rten': ['-p', 'rten', '--no-default-features', '--features', 'rten_format', '--lib'],
    'min_onnx': ['-p', 'rten', '--no-default-features', '--features', 'onnx_format', '--lib'],
}

SRC_EXT = ('.rs', '.toml', '.py', '.fbs', '.lock')


def repo_hash():
    """content hash over tracked + untracked source files of the repo working tree"""
    out = subprocess.run(['git', '-C', REPO, 'ls-files', '-co', '--exclude-standard'],
                         capture_output=True, text=True, check=True).stdout.split('\n')
    h = hashlib.sha256()
    for rel in sorted(set(out)):
        if not rel or not rel.endswith(SRC_EXT):
            continue
        p = os.path.join(REPO, rel)
        if not os.path.isfile(p):
            continue
        h.update(rel.encode())
        with open(p, 'rb') as f:
            h.update(hashlib.sha256(f.read()).digest())
    # engine identity: driver sources + roots
    for rel in ('engine/mirfacts/src/main.rs', 'engine/mirfacts/src/dump.rs',
                'engine/mirfacts/src/reach.rs', 'engine/mirfacts/src/json.rs',
                'engine/roots.txt', 'engine/bin/genfacts.sh'):
        with open(os.path.join(VERIF, rel), 'rb') as f:
            h.update(f.read())
    return h.hexdigest()[:24]


def ensure_driver():
    drv = os.path.join(VERIF, 'engine', 'mirfacts', 'target', 'release', 'mirfacts')
    if os.path.exists(drv):
        return drv
    subprocess.run(['cargo', 'build', '--release', '--offline'], cwd=os.path.join(VERIF, 'engine', 'mirfacts'),
                   check=True, stdout=subprocess.DEVNULL, stderr=subprocess.DEVNULL,
                   env=dict(os.environ, CARGO_NET_OFFLINE='true'))
    return drv


def ensure_facts(cfgs=('ws',)):
    """returns {cfg: dir}; generates missing configurations under a file lock"""
    os.makedirs(FACTS_ROOT, exist_ok=True)
    h = repo_hash()
    d = os.path.join(FACTS_ROOT, h)
    os.makedirs(d, exist_ok=True)
    lock = open(os.path.join(FACTS_ROOT, 'lock'), 'w')
    fcntl.flock(lock, fcntl.LOCK_EX)
    try:
        for cfg in cfgs:
            marker = os.path.join(d, 'DONE.' + cfg)
            if os.path.exists(marker):
                continue
            ensure_driver()
            t0 = time.time()
            r = subprocess.run([os.path.join(VERIF, 'engine', 'bin', 'genfacts.sh'), d, cfg, '--'] + CFGS[cfg],
                               capture_output=True, text=True)
            if r.returncode != 0:
                raise RuntimeError('fact generation failed for cfg %s:\n%s' % (cfg, r.stderr[-4000:]))
            with open(marker, 'w') as f:
                f.write('%.1f\n' % (time.time() - t0))
        # prune old fact dirs (keep the 3 most recent)
        dirs = [os.path.join(FACTS_ROOT, x) for x in os.listdir(FACTS_ROOT)
                if os.path.isdir(os.path.join(FACTS_ROOT, x))]
        dirs.sort(key=lambda p: os.path.getmtime(p), reverse=True)
        os.utime(d, None)
        for old in dirs[10:]:
            if old != d:
                shutil.rmtree(old, ignore_errors=True)
    finally:
        fcntl.flock(lock, fcntl.LOCK_UN)
        lock.close()
    return {cfg: d for cfg in cfgs}, h


class Ctx:
    def __init__(self, prop, tier, fact_dirs, tables, repo_hash_):
        self.prop = prop
        self.tier = tier
        self.fact_dirs = fact_dirs
        self.repo_hash = repo_hash_
        self._fbs = {}
        self.instances = []   # dict(rule,key,ok,detail,loc,nontrivial)
        self.notes = []
        self.tables = tables
        self.counters = {}
        self.assumptions = []
        self.explanation = ''
        self.trusted_base = ['rustc nightly MIR construction and Instance::try_resolve',
                             'std / third-party crates as analysis boundaries',
                             'reviewed instance tables under /verif/tables']

    def fb(self, cfg=None):
        cfg = cfg or getattr(self, 'default_cfg', 'ws')
        if cfg not in self._fbs:
            self._fbs[cfg] = facts.FactBase(self.fact_dirs[cfg], cfg)
        return self._fbs[cfg]

    def table(self, name, default=None):
        return self.tables.get(name, default if default is not None else {})

    def inst(self, rule, key, ok, detail='', loc='', nontrivial=True):
        """record one evaluated rule instance (obligation)"""
        # ordinal among equal keys keeps keys position-free but unique
        base = '%s|%s' % (rule, key)
        n = sum(1 for i in self.instances if i['base'] == base)
        full = base if n == 0 else '%s#%d' % (base, n)
        self.instances.append(dict(rule=rule, key=full, base=base, ok=bool(ok), detail=detail,
                                   loc=loc, nontrivial=nontrivial))
        return ok

    def anchor(self, rule, what, present, detail=''):
        """fail closed when an anchor (function, trait, field) is missing"""
        return self.inst(rule, 'anchor:' + what, present,
                         detail or ('anchor %s %s' % (what, 'found' if present else 'MISSING (fail closed)')),
                         nontrivial=False)

    def floor(self, rule, what, count, floor):
        return self.inst(rule, 'floor:' + what, count >= floor,
                         '%s: %d instances (floor %d)' % (what, count, floor), nontrivial=False)

    def note(self, text):
        """informational remark recorded in the evidence (never a violation), e.g. a reviewed-table entry that is no longer needed"""
        self.notes.append(text)
        print('note: ' + text, file=sys.stderr)

    def count(self, name, n=1):
        self.counters[name] = self.counters.get(name, 0) + n


def load_tables(prop):
    p = os.path.join(VERIF, 'tables', prop + '.json')
    if os.path.exists(p):
        with open(p) as f:
            return json.load(f)
    return {}


def load_known():
    p = os.path.join(VERIF, 'known_findings.json')
    if os.path.exists(p):
        with open(p) as f:
            return json.load(f)
    return {'findings': [], 'fixed': []}


def main(argv):
    import argparse
    ap = argparse.ArgumentParser()
    ap.add_argument('prop')
    ap.add_argument('--tier', default=os.environ.get('VERIF_TIER', 'quick'))
    ap.add_argument('--replay', default=None)
    ap.add_argument('--list', action='store_true', help='print every instance')
    args = ap.parse_args(argv)
    prop = args.prop
    tier = args.tier if args.tier in ('quick', 'thorough') else 'quick'
    seed = int(os.environ.get('VERIF_SEED', '0') or 0)
    t0 = time.time()

    mod = importlib.import_module(prop)
    cfgs = list(getattr(mod, 'CFGS', ('ws',)))
    if tier == 'thorough':
        cfgs += [c for c in getattr(mod, 'THOROUGH_CFGS', ()) if c not in cfgs]
    fact_dirs, h = ensure_facts(cfgs)
    ctx = Ctx(prop, tier, fact_dirs, load_tables(prop), h)
    ctx.explanation = getattr(mod, 'EXPLANATION', '')
    mod.run(ctx)
    if tier == 'thorough' and hasattr(mod, 'run_thorough'):
        mod.run_thorough(ctx)
    if tier == 'thorough':
        # re-evaluate the same rules on every reduced-feature configuration of the rten crate: the cfg'd-out variants of
        # loaders / registries / operators are different code.  Scope-size floors and anchors that legitimately shrink or
        # disappear with the features are not violations there; every substantive instance is.
        for cfg in getattr(mod, 'THOROUGH_CFGS', ()):
            sub = Ctx(prop, tier, fact_dirs, load_tables(prop), h)
            sub.default_cfg = cfg
            sub._fbs = ctx._fbs
            try:
                mod.run(sub)
            except Exception as e:   # a rule that cannot run on a reduced configuration is reported, not hidden
                ctx.note('cfg %s: rules aborted with %s: %s' % (cfg, type(e).__name__, str(e)[:200]))
                continue
            skipped = 0
            for i in sub.instances:
                k = i['key'].split('|', 1)[1] if '|' in i['key'] else i['key']
                structural = k.startswith(('floor:', 'anchor:', 'reach:', 'census', 'stale-table:', 'cfg:'))
                if not i['ok'] and (structural or i['rule'] in getattr(mod, 'CFG_DEPENDENT_RULES', ()) or i['key'] in getattr(mod, 'CFG_DEPENDENT_KEYS', ())):
                    skipped += 1
                    continue
                ctx.inst('%s@%s' % (i['rule'], cfg), k, i['ok'], i['detail'], i['loc'], nontrivial=i['nontrivial'])
            ctx.count('cfg_%s_instances' % cfg, len(sub.instances))
            ctx.count('cfg_%s_scope_instances_skipped' % cfg, skipped)

    known = load_known()
    known_keys = {(k['property'], k['key']): k for k in known.get('findings', [])}
    viol = [i for i in ctx.instances if not i['ok']]
    new_viol = []
    printed_known = set()
    for v in viol:
        kk = known_keys.get((prop, v['key']))
        if kk is None and '@' in v['key']:
            # thorough tier: the same instance re-evaluated on a reduced-feature configuration carries an `@cfg` suffix
            kk = known_keys.get((prop, re.sub(r'@[A-Za-z0-9_]+(?=\||$)', '', v['key'])))
        if kk is not None:
            if v['key'] not in printed_known:
                print('KNOWN-FINDING: property=%s %s [%s]' % (prop, kk.get('what', ''), v['key']))
                printed_known.add(v['key'])
        else:
            new_viol.append(v)

    scratch = bool(os.environ.get('VERIF_SCRATCH'))
    rep_dir = os.path.join(os.environ.get('VERIF_SCRATCH_REPORTS', os.path.join(VERIF, 'reports')), prop)
    if os.path.isdir(rep_dir) and not args.replay:
        shutil.rmtree(rep_dir, ignore_errors=True)
    replay_hit = None
    if args.replay:
        with open(args.replay) as f:
            want = json.load(f)
        replay_hit = [v for v in viol if v['key'] == want.get('key')]
        if replay_hit:
            print('REPLAY: instance still violates: %s\n  %s\n  at %s' % (want['key'], replay_hit[0]['detail'], replay_hit[0]['loc']))
        else:
            print('REPLAY: instance no longer violates: %s' % want.get('key'))
    else:
        for n, v in enumerate(new_viol):
            os.makedirs(rep_dir, exist_ok=True)
            rp = os.path.join(rep_dir, '%03d.json' % n)
            with open(rp, 'w') as f:
                json.dump(dict(property=prop, rule=v['rule'], key=v['key'], detail=v['detail'], loc=v['loc'],
                               repo_hash=h, replay='./check %s --replay %s' % (prop, rp)), f, indent=1)
            print('VIOLATION property=%s replay=%s' % (prop, rp))
            print('  rule=%s key=%s\n  %s\n  at %s' % (v['rule'], v['key'], v['detail'], v['loc']))

    if args.list:
        for i in ctx.instances:
            print('%s %s  %s  [%s]' % ('ok ' if i['ok'] else 'BAD', i['key'], i['detail'], i['loc']))

    # evidence
    n_inst = len(ctx.instances)
    nontriv = len(set(i['key'] for i in ctx.instances if i['nontrivial']))
    rules = sorted(set(i['rule'] for i in ctx.instances))
    per_rule = {r: sum(1 for i in ctx.instances if i['rule'] == r) for r in rules}
    samples = []
    seen_rules = set()
    for i in ctx.instances:
        if i['nontrivial'] and i['rule'] not in seen_rules and len(samples) < 12:
            seen_rules.add(i['rule'])
            samples.append(dict(rule=i['rule'], key=i['key'], verdict='holds' if i['ok'] else 'violated',
                                detail=i['detail'], loc=i['loc']))
    for v in viol[:8]:
        samples.append(dict(rule=v['rule'], key=v['key'], verdict='violated', detail=v['detail'], loc=v['loc'],
                            known_finding=(prop, v['key']) in known_keys))
    fb_stats = {}
    for cfg, fb in ctx._fbs.items():
        fb_stats[cfg] = {name: c.nfunctions for name, c in fb.crates.items()}
    ev = {
        'property_id': prop,
        'tier': tier,
        'seed': seed,
        'level': 'other',
        'coverage': {
            'explanation': ctx.explanation or ('static rule instances evaluated over the MIR fact base of /repo (%s)' % prop),
            'evaluations': max(n_inst, 1),
            'distinct_nontrivial': nontriv,
            'rule': 'one evaluation = one rule instance (obligation) found by enumerating the resolved MIR of /repo; '
                    'non-trivial = the verdict depended on guards / provenance / reachability facts, not only on an anchor existing; '
                    'distinct = distinct position-free keys',
            'obligations': n_inst,
            'discharged': n_inst - len(viol),
            'samples': samples or [{'note': 'no instances'}],
            'rules': per_rule,
            'functions_analysed_per_crate': fb_stats,
            'counters': ctx.counters,
            'cfgs': cfgs,
            'repo_tree_hash': h,
            'checker_cmd': './check %s --tier %s' % (prop, tier),
            'trusted_base': ctx.trusted_base,
            'known_findings_matched': sorted(printed_known),
            'notes': ctx.notes[:40],
            'exhaustive': True,
        },
        'assumptions': ctx.assumptions + getattr(mod, 'ASSUMPTIONS', []),
        'wall_s': round(time.time() - t0, 2),
        'violations': len(new_viol),
    }
    if not args.replay and not scratch:
        os.makedirs(os.path.join(VERIF, 'evidence'), exist_ok=True)
        with open(os.path.join(VERIF, 'evidence', prop + '.json'), 'w') as f:
            json.dump(ev, f, indent=1, sort_keys=True)
            f.write('\n')
    print('%s: %d rule instances, %d violated (%d known), %d new; %.1fs' % (
        prop, n_inst, len(viol), len(viol) - len(new_viol), len(new_viol), time.time() - t0))
    if args.replay:
        return 1 if replay_hit else 0
    return 1 if new_viol else 0


if __name__ == '__main__':
    sys.exit(main(sys.argv[1:]))
