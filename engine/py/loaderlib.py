"""Rule primitives for decoders / loaders of untrusted bytes (DESIGN §2 T-rules, loop progress, recursion).
Used by C38, C05, C34.  Everything here is evaluated on the dumped MIR; nothing is executed."""
import re
from collections import defaultdict
from facts import op_place, op_local, op_int, place_fields, const_int
from rulelib import (suffix_match, call_is, guards_variant, guards_cmp, normalized_cmps, unwrap_not,
                     PANIC_CALLEES, INDEX_CALLEES, panic_sites, fmt_chain)

SUCCESS_VARIANTS = {'Ok', 'Some', 'Continue'}
FAIL_VARIANTS = {'Err', 'None', 'Break'}


# ---------------------------------------------------------------------------
# origins helpers

def origin_kinds(origins):
    return set(o[0] for o in origins)


def origin_callees(origins):
    return [o[1] for o in origins if o[0] == 'call' and o[1]]


PURE_KINDS = {'const', 'named_const', 'binop', 'unop', 'cast'}


def is_pure_counter(origins):
    """value computed only from constants by local arithmetic (loop counters, literals)"""
    return bool(origins) and origin_kinds(origins) <= PURE_KINDS


def only_calls(origins, pats, extra_kinds=()):
    """origins consist of pure arithmetic + calls matching pats (+ extra kinds)"""
    for o in origins:
        if o[0] in PURE_KINDS or o[0] in extra_kinds:
            continue
        if o[0] == 'call' and suffix_match(o[1], pats):
            continue
        if o[0] == 'len_of':
            continue
        return False
    return bool(origins)


# ---------------------------------------------------------------------------
# success guards: "this block is only reached when call C returned Ok / Some / Continue"

def success_guard_calls(fn, bb, fb):
    """dict callee -> set(variant names established) for guards at bb that assert a success variant of a value
    whose provenance includes a call (through Try::branch, downcasts, copies)."""
    out = defaultdict(set)
    for g, h, vs, place in guards_variant(fn, bb, fb):
        if not vs or not (vs <= SUCCESS_VARIANTS):
            continue
        for o in fn.place_origins(place):
            if o[0] == 'call' and o[1]:
                out[o[1]] |= vs
    return out


def fail_guard_calls(fn, bb, fb):
    out = defaultdict(set)
    for g, h, vs, place in guards_variant(fn, bb, fb):
        if not vs or not (vs <= FAIL_VARIANTS):
            continue
        for o in fn.place_origins(place):
            if o[0] == 'call' and o[1]:
                out[o[1]] |= vs
    return out


# ---------------------------------------------------------------------------
# exits of a function: classify every assignment to _0

def return_defs(fn):
    """list of (bb, kind, info): kind in 'ok' (success aggregate; info = variant path list),
    'stop' (Ok(None) / None / Err: terminating or failing), 'call' (info = Call), 'other'"""
    out = []
    for (bb, j, k, payload, dplace) in fn.defs().get(0, []):
        if len(dplace) != 1:
            out.append((bb, 'other', 'partial write to return place'))
            continue
        if k == 'call':
            out.append((bb, 'call', payload))
            continue
        rv = payload
        if rv[0] == 'agg' and rv[1] == 'adt' and rv[2] in ('core::result::Result', 'core::option::Option',
                                                         'core::ops::control_flow::ControlFlow'):
            v = rv[3]
            if v in FAIL_VARIANTS:
                out.append((bb, 'stop', v))
                continue
            path = [v]
            # second level: Ok(Some(..)) / Ok(None) / Some(Ok(..)) / Some(Err(..))
            if rv[4]:
                r = fn.resolve_copy(rv[4][0])
                if r[0] == 'rv' and r[1][0] == 'agg' and r[1][1] == 'adt' and r[1][2] in (
                        'core::result::Result', 'core::option::Option'):
                    v2 = r[1][3]
                    if v2 in FAIL_VARIANTS:
                        out.append((bb, 'stop', '%s(%s)' % (v, v2)))
                        continue
                    path.append(v2)
                elif r[0] == 'call':
                    path.append(('call', r[1]))
            out.append((bb, 'ok', path))
        elif rv[0] == 'use' and rv[1][0] in ('c', 'm'):
            r = fn.resolve_copy(rv[1])
            if r[0] == 'call':
                out.append((bb, 'call', r[1]))
            elif r[0] == 'rv' and r[1][0] == 'agg' and r[1][1] == 'adt' and r[1][3] in FAIL_VARIANTS:
                out.append((bb, 'stop', r[1][3]))
            else:
                out.append((bb, 'other', 'copy of %s' % (r[0],)))
        else:
            out.append((bb, 'other', rv[0]))
    return out


# ---------------------------------------------------------------------------
# Progress summaries (C38.progress): "if F returns a success value then at least one input byte was consumed
# (or a finite iterator advanced)".

class Progress:
    """Inductive summaries over workspace functions.  A function F *makes progress on success* if every exit that
    writes a success value (Ok(x) with x != None, Some(..)) is dominated by
      - a base progress call:  BufRead::consume(n) with n provably >= 1, Read::read_exact into a non-empty fixed array,
        Option::take (yields Some at most once), next() of a finite std iterator, or
      - the success guard of a call to another progress function,
    or is itself the tail call of a progress function.  Trait methods declared in the workspace are progress iff all
    workspace impls are (CHA; recursion assumed coinductively)."""

    FINITE_ITER = re.compile(r'core::slice::iter::|core::ops::range::Range<|core::iter::adapters::(enumerate|copied|cloned|zip|rev|map|take|skip|step_by|chain|filter|filter_map|flatten|peekable|take_while|skip_while|inspect|fuse)::|alloc::vec::into_iter::IntoIter|core::array::iter::IntoIter|core::str::iter::|smallvec::IntoIter|core::option::IntoIter|core::option::Iter|std::collections::hash::|alloc::collections::')

    def __init__(self, fb, crates, adt_iter_sources=None):
        self.fb = fb
        self.crates = set(crates)
        self.memo = {}
        self.why = {}
        self._impls = None
        self._from_fn = None

    # -- base facts ------------------------------------------------------
    def consume_positive(self, fn, call):
        """BufRead::consume(n): is n provably >= 1 ?  returns (ok, reason)"""
        n = call.args[1]
        v = op_int(n)
        if v is not None:
            return (v >= 1, 'constant %s' % v)
        r = fn.resolve_copy(n)
        # n = x + 1 (overflow-checked add of an unsigned value and a positive constant)
        if r[0] == 'rv' and r[1][0] == 'use':
            r = fn.resolve_copy(r[1][1])
        loc = op_local(n)
        # follow `_68 = move _70.0` of AddWithOverflow
        for _ in range(4):
            d = fn.def_of_local(loc) if loc is not None else None
            if d is None or d[2] != 'rv':
                break
            rv = d[3]
            if rv[0] == 'use' and rv[1][0] in ('c', 'm'):
                loc = rv[1][1][0]
                continue
            if rv[0] == 'bin' and rv[1] in ('Add', 'AddWithOverflow', 'AddUnchecked'):
                for o in (rv[2], rv[3]):
                    c = op_int(o)
                    if c is not None and c >= 1:
                        return (True, 'n = x + %d (unsigned)' % c)
            break
        # n = min(len(buf), C - x) with buf non-empty (guard) and loop invariant x < C
        c = self._def_call(fn, n)
        if c is not None and call_is(c, 're:core::cmp::Ord::min$|::min$'):
            oks = []
            for a in c.args:
                ok, why = self._positive(fn, a, call.bb)
                oks.append((ok, why))
            if all(o for o, _ in oks):
                return (True, 'n = min(%s)' % ', '.join(w for _, w in oks))
            return (False, 'n = min(..) with an operand not provably >= 1: %s' % '; '.join(w for _, w in oks))
        return (False, 'argument not provably >= 1')

    def _def_call(self, fn, op):
        loc = op_local(op)
        for _ in range(6):
            d = fn.def_of_local(loc) if loc is not None else None
            if d is None:
                return None
            if d[2] == 'call':
                return d[3]
            rv = d[3]
            if rv[0] == 'use' and rv[1][0] in ('c', 'm') and len(rv[1][1]) == 1:
                loc = rv[1][1][0]
                continue
            return None
        return None

    def _positive(self, fn, op, at_bb):
        """operand provably >= 1 at the point of its (single) definition"""
        v = op_int(op)
        if v is not None:
            return (v >= 1, 'const %d' % v)
        c = self._def_call(fn, op)
        if c is not None and call_is(c, ('re:core::slice::<impl \\[T\\]>::len$', 're:Vec::<T, A>::len$')):
            # len(buf): need a dominating guard is_empty(buf) == false on the same slice local
            base = self._root_local(fn, c.args[0])
            for g in fn.guards(c.bb):
                cnd, t = unwrap_not(g.cond(), g.truth())
                if cnd[0] == 'call' and call_is(cnd[1], 're:::is_empty$') and t is False:
                    if self._root_local(fn, cnd[1].args[0]) == base:
                        return (True, 'len(buf) with buf non-empty (is_empty guard)')
            return (False, 'len(buf) without a dominating !is_empty guard')
        # C - x with invariant x < C
        loc = op_local(op)
        for _ in range(4):
            d = fn.def_of_local(loc) if loc is not None else None
            if d is None or d[2] != 'rv':
                break
            rv = d[3]
            if rv[0] == 'use' and rv[1][0] in ('c', 'm'):
                loc = rv[1][1][0]
                continue
            if rv[0] == 'bin' and rv[1] in ('Sub', 'SubWithOverflow'):
                cval = op_int(rv[2])
                x = op_place(rv[3])
                if cval is not None and x is not None:
                    xl = self._copy_root(fn, x[0])
                    ok, why = loop_invariant_lt(fn, xl, cval, d[0])
                    return (ok, 'C - x with %s' % why)
            break
        return (False, 'operand of unknown sign')

    def _root_local(self, fn, op):
        """local a reference operand ultimately points to (through &*, copies)"""
        p = op_place(op)
        if p is None:
            return None
        loc = p[0]
        for _ in range(8):
            d = fn.def_of_local(loc)
            if d is None or d[2] != 'rv':
                return loc
            rv = d[3]
            if rv[0] in ('ref', 'raw'):
                loc = rv[2][0]
                continue
            if rv[0] == 'use' and rv[1][0] in ('c', 'm'):
                loc = rv[1][1][0]
                continue
            if rv[0] == 'cast' and rv[1].startswith('PointerCoercion(Unsize') and rv[2][0] in ('c', 'm'):
                loc = rv[2][1][0]
                continue
            return loc
        return loc

    def _copy_root(self, fn, loc):
        for _ in range(6):
            d = fn.def_of_local(loc)
            if d is None or d[2] != 'rv':
                return loc
            rv = d[3]
            if rv[0] == 'use' and rv[1][0] in ('c', 'm') and len(rv[1][1]) == 1:
                loc = rv[1][1][0]
                continue
            return loc
        return loc

    def base_progress(self, fn, call):
        """(True, reason) if this call site itself guarantees progress when it returns (successfully)"""
        cal = call.callee or ''
        dec = call.declared or ''
        if dec.endswith('std::io::BufRead::consume') or cal.endswith('std::io::BufRead::consume') or cal.endswith('as std::io::BufRead>::consume'):
            ok, why = self.consume_positive(fn, call)
            return (ok, 'consume(n): ' + why)
        if dec.endswith('std::io::Read::read_exact') or cal.endswith('::read_exact'):
            # buffer must be a non-empty fixed-size array
            p = op_place(call.args[1])
            root = self._root_local(fn, call.args[1])
            ty = fn.local_ty(root) if root is not None else ''
            m = re.match(r'^\[u8; (\d+)\]$', ty)
            if m and int(m.group(1)) >= 1:
                return (True, 'read_exact into [u8; %s]' % m.group(1))
            return (False, 'read_exact into a buffer of unknown length (%s)' % ty)
        if call_is(call, 're:core::option::Option::<T>::take$'):
            return (True, 'Option::take yields Some at most once')
        if dec.endswith('core::iter::traits::iterator::Iterator::next') or cal.endswith('Iterator>::next') or dec.endswith('DoubleEndedIterator::next_back'):
            root = self._root_local(fn, call.args[0])
            ty = fn.local_ty(root) if root is not None else ''
            t = ty.lstrip('&').replace('mut ', '')
            if self.FINITE_ITER.match(t.strip()):
                return (True, 'next() of a finite std iterator (%s)' % t.strip()[:60])
        return (None, '')

    # -- summaries ---------------------------------------------------------
    def impl_methods(self, trait, name):
        if self._impls is None:
            self._impls = defaultdict(list)
            for i in self.fb.impls():
                for n, (kind, path) in i['items'].items():
                    if kind == 'fn':
                        self._impls[(i['trait'], n)].append(path)
        return self._impls.get((trait, name), [])

    def is_progress_call(self, fn, call, depth=0):
        """does this call make progress whenever it returns a success value?  (bool, reason)"""
        b = self.base_progress(fn, call)
        if b[0] is not None:
            return b
        info = call.info
        r = info.get('r')
        if r and info.get('rk') != 'virtual':
            return self.fn_progress(r, depth + 1)
        d, tr = info.get('d'), info.get('tr')
        if d and tr and self.fb.crate_of(tr) is not None:
            name = d.split('::')[-1]
            impls = self.impl_methods(tr, name)
            if not impls:
                return (False, 'trait method %s has no workspace impl' % d)
            bad = []
            for p in impls:
                ok, why = self.fn_progress(p, depth + 1)
                if not ok:
                    bad.append('%s: %s' % (p, why))
            # default body
            dfn = self.fb.fn(d)
            if dfn is not None and dfn.has_mir():
                ok, why = self.fn_progress(d, depth + 1)
                if not ok:
                    bad.append('%s: %s' % (d, why))
            return (not bad, 'all %d impls of %s make progress' % (len(impls), d) if not bad else '; '.join(bad[:2]))
        if d and d.endswith('core::iter::traits::iterator::Iterator::next'):
            # generic iterator stored in an ADT of this crate: look at what it is constructed with
            return self.generic_iter_progress(fn, call, depth)
        return (False, 'callee %s not summarised' % (r or d))

    def from_fn_sources(self):
        """adt path -> list of closure paths passed to core::iter::from_fn whose result is stored in that ADT"""
        if self._from_fn is None:
            m = defaultdict(set)
            fb = self.fb
            for c in fb.crates.values():
                if c.name not in self.crates:
                    continue
                for p, line in c.fn_lines.items():
                    if 'from_fn' not in line:
                        continue
                    f = fb.fn(p)
                    if not f.has_mir():
                        continue
                    closures_by_local = {}
                    for call in f.calls():
                        if call_is(call, 're:core::iter::sources::from_fn::from_fn$|core::iter::from_fn$'):
                            cl = None
                            for o in f.origins(call.args[0]):
                                if o[0] == 'agg' and o[1] == 'closure':
                                    cl = o[2]
                            closures_by_local[call.dest[0]] = cl
                    if not closures_by_local:
                        continue
                    for i, b in enumerate(f.bbs):
                        for s in b['s']:
                            if s[0] == '=' and s[2][0] == 'agg' and s[2][1] == 'adt':
                                for o in s[2][4]:
                                    for og in f.origins(o):
                                        if og[0] == 'call' and suffix_match(og[1], 're:from_fn$'):
                                            for l, cl in closures_by_local.items():
                                                m[s[2][2]].add(cl)
            self._from_fn = m
        return self._from_fn

    def generic_iter_progress(self, fn, call, depth):
        adt = fn.o.get('self_adt')
        if not adt:
            return (False, 'generic Iterator::next outside an ADT method')
        srcs = self.from_fn_sources().get(adt)
        if not srcs:
            return (False, 'no from_fn construction site found for %s' % adt)
        bad = []
        for cl in srcs:
            if cl is None:
                bad.append('unresolved closure')
                continue
            ok, why = self.fn_progress(cl, depth + 1)
            if not ok:
                bad.append('%s: %s' % (cl, why))
        return (not bad, 'all %d from_fn closures stored in %s make progress' % (len(srcs), adt.split('::')[-1]) if not bad else '; '.join(bad[:2]))

    def fn_progress(self, path, depth=0):
        if path in self.memo:
            return self.memo[path]
        if depth > 12:
            return (False, 'summary depth exceeded')
        self.memo[path] = (True, 'recursive (coinductive)')
        f = self.fb.fn(path)
        if f is None or not f.has_mir():
            res = (False, 'no MIR for %s' % path)
            self.memo[path] = res
            return res
        rets = return_defs(f)
        reasons = []
        ok_all = True
        if not rets:
            ok_all, reasons = False, ['no assignment to the return place']
        for (bb, kind, info) in rets:
            if kind == 'stop':
                continue
            if kind == 'call':
                c = info
                if call_is(c, 're:FromResidual<.*>>::from_residual$|FromResidual::from_residual$'):
                    continue
                # `opt.take().map(Ok)` : progress of the receiver chain
                if call_is(c, 're:Option::<T>::map$|Result::<T, E>::map$|::map_err$'):
                    inner = self._def_call(f, c.args[0])
                    if inner is not None:
                        ok, why = self.is_progress_call(f, inner, depth)
                        if ok:
                            reasons.append('map(%s)' % why)
                            continue
                ok, why = self.is_progress_call(f, c, depth)
                if ok:
                    reasons.append('tail: ' + why)
                    continue
                # maybe dominated by another progress call's success
                ok2, why2 = self._dominated(f, bb, depth)
                if ok2:
                    reasons.append(why2)
                    continue
                ok_all = False
                reasons.append('exit bb%d returns %s: %s' % (bb, c.callee, why))
                continue
            if kind == 'other':
                ok2, why2 = self._dominated(f, bb, depth)
                if ok2:
                    reasons.append(why2)
                    continue
                ok_all = False
                reasons.append('exit bb%d (%s) not dominated by a progress call' % (bb, info))
                continue
            # kind == 'ok'
            ok2, why2 = self._dominated(f, bb, depth)
            if ok2:
                reasons.append(why2)
            else:
                ok_all = False
                reasons.append('success exit bb%d (%s) not dominated by a progress call: %s' % (bb, f.loc(), why2))
        res = (ok_all, '; '.join(sorted(set(reasons)))[:400])
        self.memo[path] = res
        return res

    def _dominated(self, f, bb, depth):
        """bb is dominated by a base progress call, or by the success guard of a progress call"""
        dom = f.dominators().get(bb, set())
        sg = success_guard_calls(f, bb, self.fb)
        tried = []
        for c in f.calls():
            if c.bb not in dom or c.bb == bb:
                continue
            b = self.base_progress(f, c)
            if b[0]:
                unit = f.local_ty(c.dest[0]) == '()'
                if unit or (c.callee in sg):
                    return (True, b[1])
            if c.callee in sg or (c.declared in sg):
                ok, why = self.is_progress_call(f, c, depth)
                if ok:
                    return (True, 'after success of %s' % (c.callee.split('::')[-1]))
                tried.append('%s: %s' % (c.callee, why))
        return (False, '; '.join(tried[:3]) or 'no dominating call with a success guard')


def loop_invariant_lt(fn, local, cval, use_bb):
    """`local < cval` holds whenever `use_bb` is reached, by induction over the innermost loop containing use_bb:
    every definition of `local` outside the loop is a constant < cval, and every back edge of that loop is dominated by
    a guard local < cval (or !(local >= cval)) with no redefinition of `local` between the guard and the back edge."""
    loops = [(h, body) for h, body in fn.loops() if use_bb in body]
    if not loops:
        return (False, 'not in a loop')
    # outermost loop that contains use and all in-loop defs: take the largest
    h, body = max(loops, key=lambda x: len(x[1]))
    defs = fn.defs().get(local, [])
    outside = [d for d in defs if d[0] not in body]
    inside = [d for d in defs if d[0] in body]
    for d in outside:
        if d[2] != 'rv' or d[3][0] != 'use' or op_int(d[3][1]) is None or not (0 <= op_int(d[3][1]) < cval):
            return (False, 'x has a non-constant initial definition')
    if not outside:
        return (False, 'x has no initial definition outside the loop')
    pred = fn.pred()
    back_srcs = [p for p in pred[h] if p in body]
    for bsrc in back_srcs:
        ok = False
        for (op, a, b, g) in normalized_cmps(fn, bsrc):
            la, lb = op_local(a), op_local(b)
            ca, cb = op_int(a), op_int(b)
            hit = False
            if la is not None and _same_var(fn, la, local) and cb is not None:
                hit = (op == 'Lt' and cb <= cval) or (op == 'Le' and cb < cval)
            if lb is not None and _same_var(fn, lb, local) and ca is not None:
                hit = hit or (op == 'Gt' and ca <= cval) or (op == 'Ge' and ca < cval)
            if not hit:
                continue
            # no redefinition between guard block and back edge source
            between = fn.reach_from(g.bb, avoid=()) & body
            # blocks on some path guard -> back edge source: those from which bsrc is reachable
            redefined = False
            for d in inside:
                if d[0] in between and d[0] != g.bb and bsrc in fn.reach_from(d[0], avoid={h}) and fn.dominates(g.bb, d[0]):
                    redefined = True
            if not redefined:
                ok = True
        if not ok:
            return (False, 'back edge from bb%d is not guarded by x < %d' % (bsrc, cval))
    return (True, 'loop invariant x < %d (constant start, guarded back edge)' % cval)


def _same_var(fn, a, b):
    if a == b:
        return True
    # `_77 = index` copies
    d = fn.def_of_local(a)
    if d and d[2] == 'rv' and d[3][0] == 'use' and d[3][1][0] in ('c', 'm') and d[3][1][1] == [b]:
        return True
    return False


# ---------------------------------------------------------------------------
# Loop discharge

def loop_progress(fn, header, body, prog):
    """(ok, reason).  A loop is discharged when there is a call C in the body such that every cycle through the header
    passes C's block, C makes progress on success, and every back-edge source is dominated by C's success guard
    (or C returns `()`)."""
    fb = prog.fb
    pred = fn.pred()
    back_srcs = [p for p in pred[header] if p in body]
    cands = []
    for c in fn.calls():
        if c.bb not in body:
            continue
        # every cycle passes c.bb  <=>  header not reachable from header's successors inside body avoiding c.bb
        if c.bb != header:
            reach = set()
            st = [s for s in fn.succ()[header] if s in body and s != c.bb]
            seen = set(st)
            cyc = False
            while st:
                x = st.pop()
                for s in fn.succ()[x]:
                    if s == header:
                        cyc = True
                    if s in body and s != c.bb and s not in seen and s != header:
                        seen.add(s)
                        st.append(s)
            if cyc:
                continue
        cands.append(c)
    why_not = []
    for c in cands:
        ok, why = prog.is_progress_call(fn, c)
        if not ok:
            if why and 'not summarised' not in why:
                why_not.append('%s: %s' % ((c.callee or '?').split('::')[-1], why))
            continue
        unit = fn.local_ty(c.dest[0]) == '()'
        if unit:
            return (True, '%s on every iteration [%s]' % ((c.callee or '').split('::')[-1], why))
        # success guard at every back edge
        need = True
        for b in back_srcs:
            sg = success_guard_calls(fn, b, fb)
            vs = sg.get(c.callee, set()) | sg.get(c.declared, set())
            if not vs:
                need = False
                why_not.append('back edge bb%d not dominated by a success guard on %s' % (b, (c.callee or '').split('::')[-1]))
                break
            # nested success: Result<Option<..>> / Option<Result<..>> need both levels
            dty = fn.local_ty(c.dest[0])
            lv_need = set()
            if re.search(r'^core::result::Result<core::option::Option<', dty):
                lv_need = {'Some'}
                if not (vs & {'Ok', 'Continue'}):
                    need = False
            elif re.search(r'^core::option::Option<core::result::Result<', dty):
                lv_need = {'Some'}
                if not (vs & {'Ok', 'Continue'}):
                    need = False
            if lv_need and not (vs & lv_need):
                need = False
            if not need:
                why_not.append('back edge bb%d: success guard on %s incomplete (%s) for %s' % (b, (c.callee or '').split('::')[-1], sorted(vs), dty[:60]))
                break
        if need:
            return (True, '%s succeeds on every iteration [%s]' % ((c.callee or '').split('::')[-1], why))
    return (False, '; '.join(why_not[:3]) or 'no call on every cycle path makes progress')
