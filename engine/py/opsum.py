"""Constant-return summaries of `impl Operator` methods (DESIGN §1 trait-impl tables)."""
import re
from rulelib import const_return, call_is
from facts import op_const, const_int

OP_TRAIT = 'rten::operator::Operator'
DEFAULTS = {'in_place_inputs': ('set', frozenset()), 'is_commutative': ('bool', False), 'is_associative': ('bool', False),
            'is_deterministic': ('bool', True), 'run_in_place': ('default', None), 'max_outputs': ('default', None),
            'prepack_inputs': ('default', None), 'as_subgraph_op': ('none', None)}


def promoted_lit(text):
    m = re.match(r'^promoted\[(.*)\]$', text or '')
    return m.group(1) if m else None


def eval_method(fb, path):
    """('bool', v) | ('set', frozenset) | ('opt', v) | ('nonconst', why, fn)"""
    f = fb.fn(path)
    if f is None or not f.has_mir():
        return ('nonconst', 'no-mir', f)
    defs0 = f.defs().get(0, [])
    if len(defs0) == 1:
        bb, j, kind, payload, dplace = defs0[0]
        if kind == 'rv' and payload[0] == 'use' and payload[1][0] == 'k':
            t = payload[1][1]
            if t in ('true', 'false'):
                return ('bool', t == 'true')
            return ('const', t)
        if kind == 'rv' and payload[0] == 'agg' and payload[2] == 'core::option::Option':
            if payload[3] == 'None':
                return ('opt', None)
            if payload[3] == 'Some' and payload[4] and payload[4][0][0] == 'k':
                v = const_int(payload[4][0][1])
                return ('opt', v if v is not None else payload[4][0][1])
            return ('nonconst', 'Some(non-literal)', f)
        if kind == 'call':
            c = payload
            if call_is(c, 're:bit_set::BitSet::<B>::new$'):
                return ('set', frozenset())
            if call_is(c, 're:bit_set::BitSet::<B>::from_indices$'):
                r = f.resolve_copy(c.args[0])
                if r[0] == 'rv' and r[1][0] == 'agg' and r[1][1] == 'array':
                    vals = [const_int(o[1]) if o[0] == 'k' else None for o in r[1][4]]
                    if all(v is not None for v in vals):
                        return ('set', frozenset(vals))
                return ('nonconst', 'from_indices(non-literal)', f)
            if call_is(c, 're:PartialEq<&B> for &A>::eq$') or call_is(c, 're:<impl core::cmp::PartialEq for str>::eq$'):
                lits = []
                for a in c.args:
                    r = f.resolve_copy(a)
                    k = None
                    if r[0] == 'op' and r[1] and r[1][0] == 'k':
                        k = promoted_lit(r[1][1]) or r[1][1]
                    elif r[0] == 'rv' and r[1][0] == 'use' and r[1][1][0] == 'k':
                        k = promoted_lit(r[1][1][1]) or r[1][1][1]
                    lits.append(k)
                if all(l is not None for l in lits):
                    return ('bool', lits[0] == lits[1])
            return ('nonconst', 'call ' + str(c.callee), f)
    cr = const_return(f)
    if cr[0] == 'const' and cr[1] in ('true', 'false'):
        return ('bool', cr[1] == 'true')
    return ('nonconst', cr[1], f)


class OpSummary:
    def __init__(self, fb, impl):
        self.impl = impl
        self.ty = impl['self']
        self.short = self.ty.split('::')[-1]
        self.items = impl['items']
        self.fb = fb
        self._cache = {}

    def overridden(self, m):
        return m in self.items

    def path(self, m):
        it = self.items.get(m)
        return it[1] if it else None

    def get(self, m):
        if m not in self._cache:
            if m in self.items:
                self._cache[m] = eval_method(self.fb, self.items[m][1])
            else:
                self._cache[m] = DEFAULTS.get(m, ('default', None))
        return self._cache[m]

    def root(self, m):
        return '<<%s as %s>>::%s' % (self.ty, OP_TRAIT, m)


def all_ops(fb):
    return [OpSummary(fb, i) for i in fb.impls(trait=OP_TRAIT)]
