"""Shared rule primitives (see DESIGN §2): guard matchers, must-pass-through, who-may-call,
const-return summaries, panic-site enumeration."""
import re
from facts import op_place, op_local, op_const, place_fields, place_str, Call

BUILTIN_VARIANTS = {
    'core::option::Option': ['None', 'Some'],
    'core::result::Result': ['Ok', 'Err'],
    'core::ops::control_flow::ControlFlow': ['Continue', 'Break'],
}


def suffix_match(path, pats):
    if path is None:
        return False
    if isinstance(pats, str):
        pats = (pats,)
    for p in pats:
        if p.startswith('re:'):
            if re.search(p[3:], path):
                return True
        elif path == p or path.endswith('::' + p) or path.endswith(p):
            return True
    return False


def call_is(call, pats):
    return suffix_match(call.callee, pats) or suffix_match(call.declared, pats)


def head_type(ty):
    """outermost path of a type string, stripping refs"""
    t = ty.strip()
    while t.startswith('&') or t.startswith('*'):
        t = re.sub(r"^(&(mut )?('[a-z_{}]+ )?|\*(const|mut) )", '', t, count=1)
        t = t.strip()
    m = re.match(r'[A-Za-z0-9_:]+', t)
    return m.group(0) if m else t


def variant_names(fn, place, fb):
    """variant-name list of the enum stored at `place` (only for un-projected locals or simple derefs)"""
    ty = fn.local_ty(place[0])
    if any(isinstance(e, list) for e in place[1:]):
        # projected: try to use field type from ADT table
        cur = head_type(ty)
        for e in place[1:]:
            if isinstance(e, list) and e[0] == 'f':
                adt = fb.adt(e[3]) if e[3] else None
                nxt = None
                if adt:
                    for v in adt['variants']:
                        for fd in v['fields']:
                            if fd['name'] == e[2]:
                                nxt = head_type(fd['ty'])
                if nxt is None:
                    return None, None
                cur = nxt
            elif isinstance(e, list) and e[0] == 'd':
                return None, None
        h = cur
    else:
        h = head_type(ty)
    if h in BUILTIN_VARIANTS:
        return h, BUILTIN_VARIANTS[h]
    adt = fb.adt(h)
    if adt and adt['kind'] == 'Enum':
        return h, [v['name'] for v in adt['variants']]
    return h, None


def guard_variants(g, fb):
    """for a discriminant guard: (enum head type, set of variant names that may hold) or None"""
    c = g.cond()
    if c[0] != 'disc':
        return None
    if len(c) > 3 and c[3]:
        h, names = c[2], c[3]
    else:
        h, names = variant_names(g.fn, c[1], fb)
    if names is None:
        return (h, None, c[1])
    if g.vals is not None:
        vs = set(names[v] for v in g.vals if v < len(names))
    else:
        vs = set(n for i, n in enumerate(names) if i not in g.excluded)
    return (h, vs, c[1])


def unwrap_not(cond, truth):
    while cond[0] == 'not':
        cond = cond[1]
        truth = (not truth) if truth is not None else None
    return cond, truth


def guards_call(fn, bb, pats, truth=True):
    """guards at bb whose condition is the boolean result of a call matching pats with the given truth"""
    out = []
    for g in fn.guards(bb):
        c, t = unwrap_not(g.cond(), g.truth())
        if c[0] == 'call' and call_is(c[1], pats) and (truth is None or t == truth):
            out.append((g, c[1]))
    return out


def guards_cmp(fn, bb):
    """(guard, op, a, b, truth) for every comparison guard at bb, with `not` unwrapped"""
    out = []
    for g in fn.guards(bb):
        c, t = unwrap_not(g.cond(), g.truth())
        if c[0] == 'cmp':
            out.append((g, c[1], c[2], c[3], t))
    return out


NEG = {'Lt': 'Ge', 'Ge': 'Lt', 'Gt': 'Le', 'Le': 'Gt', 'Eq': 'Ne', 'Ne': 'Eq'}
SWAP = {'Lt': 'Gt', 'Gt': 'Lt', 'Le': 'Ge', 'Ge': 'Le', 'Eq': 'Eq', 'Ne': 'Ne'}


def normalized_cmps(fn, bb):
    """comparison facts known at bb as (op, a, b) with truth folded in (op holds for a,b)"""
    out = []
    for g, op, a, b, t in guards_cmp(fn, bb):
        if t is None:
            continue
        if not t:
            op = NEG[op]
        out.append((op, a, b, g))
    return out


def guards_variant(fn, bb, fb):
    out = []
    for g in fn.guards(bb):
        gv = guard_variants(g, fb)
        if gv:
            out.append((g,) + gv)
    return out


def origin_calls(origins):
    return [o for o in origins if o[0] == 'call']


def has_origin_call(origins, pats):
    return any(o[0] == 'call' and suffix_match(o[1], pats) for o in origins)


def has_param_origin(origins, idx=None, field=None):
    for o in origins:
        if o[0] == 'param' and (idx is None or o[1] == idx):
            if field is None or (o[2] and field in o[2]):
                return True
    return False


def const_return(fn):
    """constant-return summary for trivial bodies:
    ('const', text) | ('nonconst', reason).  Looks at every assignment to _0."""
    if fn is None or not fn.has_mir():
        return ('nonconst', 'no-mir')
    ds = fn.defs().get(0, [])
    vals = set()
    for (bb, j, kind, payload, dplace) in ds:
        if kind == 'call':
            return ('nonconst', 'call ' + str(payload.callee))
        rv = payload
        if rv[0] == 'use' and rv[1][0] == 'k':
            vals.add(rv[1][1])
        elif rv[0] == 'agg' and not rv[4]:
            vals.add('%s::%s' % (rv[2], rv[3]))
        else:
            # follow a single copy
            r = fn.resolve_copy(rv[1]) if rv[0] == 'use' else ('rv', rv)
            if r[0] == 'op' and r[1] and r[1][0] == 'k':
                vals.add(r[1][1])
            elif r[0] == 'call':
                return ('nonconst', 'call ' + str(r[1].callee))
            else:
                return ('nonconst', rv[0])
    if len(vals) == 1:
        return ('const', list(vals)[0])
    if not vals:
        return ('nonconst', 'no-def')
    return ('nonconst', 'multiple:' + ','.join(sorted(vals)))


def callers_of(fb, pats, crates=None):
    """all (Fn, Call) in the given crates whose callee matches"""
    out = []
    for c in fb.crates.values():
        if crates and c.name not in crates:
            continue
        for p, line in c.fn_lines.items():
            # cheap textual prefilter on the raw line
            hit = False
            for pat in ((pats,) if isinstance(pats, str) else pats):
                probe = pat[3:] if pat.startswith('re:') else pat
                probe = probe.split('::')[-1].strip('$^\\')
                if not re.match(r'^[A-Za-z0-9_]+$', probe):
                    hit = True   # pattern too complex for the textual prefilter
                    break
                if probe and probe in line:
                    hit = True
                    break
            if not hit:
                continue
            f = fb.fn(p)
            if not f.has_mir():
                continue
            for call in f.calls():
                if call_is(call, pats):
                    out.append((f, call))
    return out


def aggregates_of(fb, adt_path, crates=None):
    """all (Fn, bb, stmt, rvalue) constructing ADT `adt_path` by aggregate"""
    out = []
    probe = '"' + adt_path + '"'
    for c in fb.crates.values():
        if crates and c.name not in crates:
            continue
        for p, line in c.fn_lines.items():
            if probe not in line:
                continue
            f = fb.fn(p)
            for i, b in enumerate(f.bbs):
                if b.get('c'):
                    continue
                for s in b['s']:
                    if s[0] == '=' and s[2][0] == 'agg' and s[2][1] == 'adt' and s[2][2] == adt_path:
                        out.append((f, i, s, s[2]))
    return out


def field_writes(fb, owner_adt, crates=None):
    """(Fn, bb, stmt, field) for assignments whose destination projects a field of owner_adt"""
    out = []
    probe = '"' + owner_adt + '"'
    for c in fb.crates.values():
        if crates and c.name not in crates:
            continue
        for p, line in c.fn_lines.items():
            if probe not in line:
                continue
            f = fb.fn(p)
            for i, b in enumerate(f.bbs):
                if b.get('c'):
                    continue
                for s in b['s']:
                    if s[0] == '=':
                        for e in s[1][1:]:
                            if isinstance(e, list) and e[0] == 'f' and e[3] == owner_adt:
                                out.append((f, i, s, e[2]))
    return out


def _rv_operands(rv):
    k = rv[0]
    if k in ('use', 'rep'):
        return [rv[1]]
    if k in ('ref', 'raw'):
        return [['c', rv[2]]]
    if k == 'cast':
        return [rv[2]]
    if k == 'bin':
        return [rv[2], rv[3]]
    if k == 'un':
        return [rv[2]]
    if k == 'agg':
        return list(rv[4])
    if k == 'disc':
        return [['c', rv[1]]]
    return []


def depends(fn, local=0):
    """data + control dependence closure of a local: the set of (local, fields) places whose value can
    influence it (calls depend on all their arguments; a definition depends on the discriminants of the
    branches that guard its block)."""
    seen_locals = set()
    places = set()
    work = [local]
    guard_cache = {}
    while work:
        l = work.pop()
        if l in seen_locals:
            continue
        seen_locals.add(l)
        for (bb, j, kind, payload, dplace) in fn.defs().get(l, []):
            ops = list(payload.args) if kind == 'call' else _rv_operands(payload)
            if bb not in guard_cache:
                guard_cache[bb] = [g.discr for g in fn.guards(bb)]
            ops = ops + guard_cache[bb]
            for o in ops:
                p = op_place(o)
                if p is None:
                    continue
                places.add((p[0], tuple(place_fields(p))))
                work.append(p[0])
                for e in p[1:]:
                    if isinstance(e, list) and e[0] == 'i':
                        work.append(e[1])
    return places


def fmt_chain(chain, maxlen=8):
    if len(chain) > maxlen:
        chain = chain[:3] + ['...'] + chain[-(maxlen - 4):]
    return ' -> '.join(chain)


PANIC_CALLEES = (
    're:^core::panicking::', 're:^std::rt::begin_panic', 're:^core::option::Option::<T>::(unwrap|expect)$',
    're:^core::result::Result::<T, E>::(unwrap|expect|unwrap_err|expect_err)$',
    're:^core::option::(unwrap_failed|expect_failed)', 're:^core::result::unwrap_failed',
    're:^core::slice::index::', 're:^core::str::slice_error_fail', 're:^core::cell::panic_already',
    're:^alloc::raw_vec::(capacity_overflow|handle_error)', 're:^alloc::alloc::handle_alloc_error',
    're:^core::slice::<impl \\[T\\]>::(copy_from_slice|clone_from_slice|split_at|split_at_mut|swap|chunks|chunks_exact|windows|rotate_left|rotate_right)$',
    're:^core::cell::RefCell::<T>::(borrow|borrow_mut)$',
)

INDEX_CALLEES = (
    're:<.* as core::ops::index::Index(Mut)?<.*>>::index(_mut)?$',
    're:^core::ops::index::Index(Mut)?::index(_mut)?$',
)


def panic_sites(fn, include_overflow=True):
    """enumerate panic-capable sites in a function body:
    yields dict(kind, bb, line, detail, ops, call)"""
    for (bb, kind, ops, line, exp, cond, expected) in fn.asserts():
        if kind in ('Misaligned', 'NullDeref'):
            continue   # debug-only pointer checks inserted by rustc
        if kind.startswith('Overflow') and not include_overflow:
            continue
        yield dict(kind='assert:' + kind, bb=bb, line=line, ops=ops, call=None, exp=exp,
                   detail='%s' % kind)
    for c in fn.calls():
        if call_is(c, PANIC_CALLEES):
            yield dict(kind='call:panic', bb=c.bb, line=c.line, ops=c.args, call=c, exp=c.exp,
                       detail=c.callee)
        elif call_is(c, INDEX_CALLEES):
            yield dict(kind='call:index', bb=c.bb, line=c.line, ops=c.args, call=c, exp=c.exp,
                       detail=c.callee)


def closure_creation(fb, closure_fn):
    """(parent Fn, bb, operands) of the aggregate that creates this closure, or None"""
    par = closure_fn.o.get('parent')
    pf = fb.fn(par) if par else None
    if pf is None or not pf.has_mir():
        return None
    for i, b in enumerate(pf.bbs):
        if b.get('c'):
            continue
        for st in b['s']:
            if st[0] == '=' and st[2][0] == 'agg' and st[2][1] == 'closure' and st[2][2] == closure_fn.path:
                return (pf, i, st[2][4])
    return None


def outer_origins(fb, f, op, depth=4):
    """origins of an operand with closure upvars replaced by the origins of the captured operand in the enclosing
    function(s); returns (set of origins, outermost Fn the origins refer to)"""
    og = f.origins(op)
    if depth <= 0 or '{closure#' not in f.path:
        return og, f
    ups = [o for o in og if o[0] == 'upvar']
    if not ups:
        return og, f
    cc = closure_creation(fb, f)
    if cc is None:
        return og, f
    pf, bb, operands = cc
    out = set(o for o in og if o[0] != 'upvar')
    outer = pf
    for o in ups:
        try:
            idx = int(o[1][0])
        except Exception:
            continue
        if idx < len(operands):
            sub, outer = outer_origins(fb, pf, operands[idx], depth - 1)
            out |= sub
    return out, outer



def norm_closures(x):
    """erase closure ordinals: `f::{closure#3}` -> `f::{closure}`.  Ordinals are positional, so adding an unrelated closure
    to a function renumbers the later ones; reviewed-table entries must survive that (a site is then identified by its
    parent function, the kind of site and - where the rule records one - a message literal)"""
    if isinstance(x, str):
        return re.sub(r'\{closure#\d+\}', '{closure}', x)
    if isinstance(x, tuple):
        return tuple(norm_closures(e) for e in x)
    return x


class RevTable(dict):
    """reviewed-table lookup that is insensitive to closure ordinals in its (string / tuple-of-string) keys"""

    def __init__(self, d=()):
        super().__init__()
        for k, v in (d.items() if isinstance(d, dict) else d):
            super().__setitem__(norm_closures(k), v)

    def get(self, k, default=None):
        return super().get(norm_closures(k), default)

    def __contains__(self, k):
        return super().__contains__(norm_closures(k))

    def __getitem__(self, k):
        return super().__getitem__(norm_closures(k))
