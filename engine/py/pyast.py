"""E2: Python `ast` extraction over rten-convert/rten_convert/converter.py (no execution of the converter).

op_table(path) -> {onnx_op_type: {'rten_type': str|None, 'attrs': [(kind, name, default_repr, lineno)], 'attrs_class': str|None}}
kind in: get (get_attr / get_bool_attr / get_enum_attr / require_attr / generate_input_from_attr), check (check_attr), ignore (ignore_attr)
Helper functions that receive the attr_reader (read_pads, read_strides, ...) are followed interprocedurally.
"""
import ast

GET = {'get_attr', 'get_bool_attr', 'get_enum_attr', 'require_attr', 'generate_input_from_attr'}
CHECK = {'check_attr'}
IGNORE = {'ignore_attr'}


def _lit(node):
    if node is None:
        return None
    try:
        return repr(ast.literal_eval(node))
    except Exception:
        try:
            return 'expr:' + ast.unparse(node)
        except Exception:
            return 'expr'


class _Collector(ast.NodeVisitor):
    def __init__(self, funcs, reader_names=('attr_reader',), current=None):
        self.current = current
        self.funcs = funcs
        self.reader_names = set(reader_names)
        self.out = []
        self.rten_type = None
        self.attrs_class = None
        self._stack = set()

    def visit_Assign(self, node):
        # op_type = "Name"  /  attrs = sg.XAttrsT()
        for t in node.targets:
            if isinstance(t, ast.Name) and t.id == 'op_type' and isinstance(node.value, ast.Constant) and isinstance(node.value.value, str):
                self.rten_type = node.value.value
            if isinstance(t, ast.Name) and t.id == 'attrs' and isinstance(node.value, ast.Call):
                fn = node.value.func
                if isinstance(fn, ast.Attribute) and fn.attr.endswith('AttrsT'):
                    self.attrs_class = fn.attr
        self.generic_visit(node)

    def visit_Match(self, node):
        if self.current is not None and isinstance(node.subject, ast.Name) and node.subject.id == 'op_type':
            for case in node.cases:
                pats = case.pattern.patterns if isinstance(case.pattern, ast.MatchOr) else [case.pattern]
                names = [p.value.value for p in pats if isinstance(p, ast.MatchValue) and isinstance(p.value, ast.Constant)]
                wild = any(isinstance(p, ast.MatchAs) and p.pattern is None for p in pats)
                if self.current in names or wild:
                    for st in case.body:
                        self.visit(st)
            return
        self.generic_visit(node)

    def visit_Call(self, node):
        fn = node.func
        if isinstance(fn, ast.Attribute) and isinstance(fn.value, ast.Name) and fn.value.id in self.reader_names:
            m = fn.attr
            args = node.args
            kw = {k.arg: k.value for k in node.keywords}
            if m in GET | CHECK | IGNORE:
                name = None
                default = None
                if m == 'generate_input_from_attr':
                    name = _lit(args[1]) if len(args) > 1 else _lit(kw.get('attr_name'))
                else:
                    name = _lit(args[0]) if args else _lit(kw.get('name'))
                if m == 'get_attr':
                    default = _lit(args[2]) if len(args) > 2 else _lit(kw.get('default'))
                elif m == 'get_bool_attr':
                    default = _lit(args[1]) if len(args) > 1 else _lit(kw.get('default'))
                elif m == 'get_enum_attr':
                    default = _lit(args[2]) if len(args) > 2 else _lit(kw.get('default'))
                elif m == 'check_attr':
                    default = _lit(args[2]) if len(args) > 2 else _lit(kw.get('default'))
                elif m == 'require_attr':
                    default = 'required'
                kind = 'get' if m in GET else ('check' if m in CHECK else 'ignore')
                self.out.append((kind, name.strip("'\"") if name else None, default, node.lineno, m))
        elif isinstance(fn, ast.Name) and fn.id in self.funcs and fn.id not in self._stack:
            # helper receiving the reader
            passes_reader = any(isinstance(a, ast.Name) and a.id in self.reader_names for a in node.args)
            if passes_reader:
                fdef = self.funcs[fn.id]
                # parameter name bound to the reader
                pnames = [a.arg for a in fdef.args.args]
                bound = set()
                for i, a in enumerate(node.args):
                    if isinstance(a, ast.Name) and a.id in self.reader_names and i < len(pnames):
                        bound.add(pnames[i])
                sub = _Collector(self.funcs, bound or self.reader_names)
                sub._stack = self._stack | {fn.id}
                for st in fdef.body:
                    sub.visit(st)
                self.out += sub.out
        self.generic_visit(node)


def op_table(path):
    src = open(path).read()
    tree = ast.parse(src)
    funcs = {n.name: n for n in tree.body if isinstance(n, ast.FunctionDef)}
    main = funcs.get('op_node_from_onnx_operator')
    table = {}
    default_case = None
    if main is None:
        return table, None
    for node in main.body:
        if isinstance(node, ast.Match) and isinstance(node.subject, ast.Name) and node.subject.id == 'op_type':
            for case in node.cases:
                names = []
                pats = case.pattern.patterns if isinstance(case.pattern, ast.MatchOr) else [case.pattern]
                wildcard = False
                for p in pats:
                    if isinstance(p, ast.MatchValue) and isinstance(p.value, ast.Constant):
                        names.append(p.value.value)
                    elif isinstance(p, ast.MatchAs) and p.pattern is None:
                        wildcard = True
                for n in names:
                    col = _Collector(funcs, current=n)
                    for st in case.body:
                        col.visit(st)
                    table[n] = {'rten_type': col.rten_type, 'attrs': col.out, 'attrs_class': col.attrs_class, 'line': case.pattern.lineno}
                if wildcard:
                    col = _Collector(funcs)
                    for st in case.body:
                        col.visit(st)
                    default_case = {'rten_type': col.rten_type, 'attrs': col.out, 'attrs_class': col.attrs_class, 'line': case.pattern.lineno}
    return table, default_case


def schema_operator_types(schema_py):
    """names of the members of class OperatorType in the flatc-generated schema module"""
    tree = ast.parse(open(schema_py).read())
    out = set()
    for n in tree.body:
        if isinstance(n, ast.ClassDef) and n.name == 'OperatorType':
            for st in n.body:
                if isinstance(st, ast.Assign):
                    for t in st.targets:
                        if isinstance(t, ast.Name):
                            out.add(t.id)
    return out


def dtype_table(path):
    """convert_data_type: {ONNX TensorProto.DataType name: schema DataType name} from if/elif or match arms"""
    src = open(path).read()
    tree = ast.parse(src)
    out = {}
    for n in tree.body:
        if isinstance(n, ast.FunctionDef) and n.name == 'convert_data_type':
            for node in ast.walk(n):
                if isinstance(node, ast.Match):
                    for case in node.cases:
                        pats = case.pattern.patterns if isinstance(case.pattern, ast.MatchOr) else [case.pattern]
                        rets = [x for x in ast.walk(ast.Module(body=case.body, type_ignores=[])) if isinstance(x, ast.Return)]
                        rv = ast.unparse(rets[0].value) if rets and rets[0].value is not None else None
                        for p in pats:
                            if isinstance(p, ast.MatchValue):
                                out[ast.unparse(p.value).split('.')[-1]] = rv.split('.')[-1] if rv else None
                if isinstance(node, ast.If):
                    pass
    return out


if __name__ == '__main__':
    import sys, json
    t, d = op_table(sys.argv[1])
    print(len(t), 'ops;', 'default case' if d else 'no default case')
    for k in sorted(t)[:400]:
        e = t[k]
        print(k, '->', e['rten_type'] or k, e['attrs_class'], [(a[0], a[1], a[2]) for a in e['attrs']])
