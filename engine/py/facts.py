"""Fact base produced by the mirfacts driver + CFG / dominance / guard / provenance
primitives used by every rule.  Pure python3 stdlib.  Nothing here executes rten code.
"""
import json
import os
import re
import glob
from collections import defaultdict

# Callees through which provenance slices continue into the arguments (the call itself
# stays in the origin set as a tag): wrappers, conversions, checked/saturating arithmetic.
TRANSPARENT = re.compile(
    r'(std::path::Path::new$|::as_ref$|::as_mut$|::deref$|::deref_mut$|::clone$|::into$|::from$|::to_owned$|::borrow$|::borrow_mut$'
    r'|::to_path_buf$|::to_string$|::to_vec$|::as_str$|::as_slice$|::as_mut_slice$|::as_path$|::as_ptr$|::as_mut_ptr$|::as_bytes$'
    r'|core::option::Option::<T>::(unwrap|expect|unwrap_or|unwrap_or_default|copied|cloned|as_deref|ok_or|ok_or_else|take|filter|map|and_then)$'
    r'|core::result::Result::<T, E>::(unwrap|expect|unwrap_or|map_err|ok|map|and_then)$'
    r'|Try>::branch$|::try_from$|::try_into$|::min$|::max$|::clamp$|::as_usize$'
    r'|::(saturating|checked|wrapping|overflowing)_(add|sub|mul|add_signed|neg|pow|shl)$|::abs_diff$|::unsigned_abs$|::abs$'
    r'|core::slice::<impl \[T\]>::len$|alloc::vec::Vec::<T, A>::len$|::len$'
    r'|alloc::sync::Arc::<T>::new$|alloc::boxed::Box::<T>::new$|alloc::rc::Rc::<T>::new$|ManuallyDrop::<T>::new$'
    r'|core::num::<impl [a-z0-9]+>::(from_le_bytes|from_be_bytes|from_ne_bytes)$'
    r'|core::iter::traits::iterator::Iterator::(product|sum|copied|cloned|rev|enumerate|zip|skip|take|chain|filter|filter_map|map|map_while|take_while|skip_while|step_by|peekable|fuse|flatten|inspect|by_ref|collect)$|::iter$|::iter_mut$|::into_iter$|rten::graph::planner::CachedPlan::plan$)')

FN_PREFIX = '{"k":"fn","p":"'
REACH_PREFIX = '{"k":"reach","root":"'


class CrateFacts:
    def __init__(self, path):
        self.path = path
        self.header = None
        self.fn_lines = {}      # def path -> raw json line
        self.reach_lines = {}   # root -> raw json line
        self.impls = []
        self.adts = {}
        self.statics = []
        self.strings = None
        self._strings_line = None
        self.complete = False
        with open(path, 'r') as f:
            for line in f:
                if line.startswith(FN_PREFIX):
                    end = line.index('"', len(FN_PREFIX))
                    p = line[len(FN_PREFIX):end]
                    if '\\' in p:
                        p = json.loads('"' + p + '"')
                    self.fn_lines[p] = line
                elif line.startswith(REACH_PREFIX):
                    end = line.index('"', len(REACH_PREFIX))
                    p = line[len(REACH_PREFIX):end]
                    self.reach_lines[p] = line
                elif line.startswith('{"k":"strings"'):
                    self._strings_line = line
                else:
                    o = json.loads(line)
                    k = o['k']
                    if k == 'crate':
                        self.header = o
                    elif k == 'impl':
                        self.impls.append(o)
                    elif k == 'adt':
                        self.adts[o['p']] = o
                    elif k == 'static':
                        self.statics.append(o)
                    elif k == 'end':
                        self.complete = True
                        self.nfunctions = o['functions']
        self.name = self.header['name'] if self.header else os.path.basename(path)

    def get_strings(self):
        if self.strings is None:
            self.strings = json.loads(self._strings_line)['v'] if self._strings_line else []
        return self.strings


class FactBase:
    """All fact files of one driver configuration."""

    def __init__(self, fact_dir, cfg='ws'):
        self.dir = fact_dir
        self.cfg = cfg
        self.crates = {}
        for p in sorted(glob.glob(os.path.join(fact_dir, '*.%s.*.jsonl' % cfg))):
            c = CrateFacts(p)
            if not c.complete:
                raise RuntimeError('incomplete fact file ' + p)
            # prefer lib over bin when both have the same crate name
            if c.name in self.crates and 'rlib' not in os.path.basename(p):
                continue
            self.crates[c.name] = c
        self._fn_cache = {}
        self._closures = None

    # ---- lookup -------------------------------------------------------
    def crate_of(self, path):
        m = re.match(r'<*([A-Za-z0-9_]+)', path)
        return self.crates.get(m.group(1)) if m else None

    def fn(self, path):
        if path in self._fn_cache:
            return self._fn_cache[path]
        for c in self.crates.values():
            line = c.fn_lines.get(path)
            if line is not None:
                f = Fn(json.loads(line), c, self)
                self._fn_cache[path] = f
                return f
        self._fn_cache[path] = None
        return None

    def fn_paths(self, crate=None, prefix=None, regex=None):
        out = []
        rx = re.compile(regex) if regex else None
        for c in self.crates.values():
            if crate and c.name != crate and c.name not in (crate if isinstance(crate, (list, tuple, set)) else ()):
                continue
            for p in c.fn_lines:
                if prefix and not p.startswith(prefix):
                    continue
                if rx and not rx.search(p):
                    continue
                out.append(p)
        return sorted(out)

    def fns(self, **kw):
        for p in self.fn_paths(**kw):
            yield self.fn(p)

    def impls(self, trait=None, crate=None):
        for c in self.crates.values():
            if crate and c.name != crate:
                continue
            for i in c.impls:
                if trait is None or i['trait'] == trait:
                    yield i

    def adt(self, path):
        for c in self.crates.values():
            if path in c.adts:
                return c.adts[path]
        return None

    def all_adts(self):
        for c in self.crates.values():
            for a in c.adts.values():
                yield a

    def statics(self):
        for c in self.crates.values():
            for s in c.statics:
                yield s, c

    def reach(self, root):
        for c in self.crates.values():
            line = c.reach_lines.get(root)
            if line is not None:
                return Reach(json.loads(line), c)
        return None

    def reach_roots(self, crate=None):
        out = []
        for c in self.crates.values():
            if crate and c.name != crate:
                continue
            out.extend(c.reach_lines.keys())
        return sorted(out)

    def closures_of(self, path):
        """Direct child closures of a function (by parent link)."""
        if self._closures is None:
            self._closures = defaultdict(list)
            for c in self.crates.values():
                for p in c.fn_lines:
                    if '::{closure#' in p:
                        parent = p[:p.rindex('::{closure#')]
                        self._closures[parent].append(p)
        return sorted(self._closures.get(path, []))

    def with_closures(self, path):
        """path + all (transitively) nested closures."""
        out = [path]
        i = 0
        while i < len(out):
            out.extend(self.closures_of(out[i]))
            i += 1
        return out


class Reach:
    def __init__(self, o, crate):
        self.o = o
        self.root = o['root']
        self.skipped = o.get('skipped')
        self.crate = crate
        self.nodes = o.get('nodes', [])
        self.virtual = o.get('virtual', [])
        self.unresolved = o.get('unresolved', [])
        self._s = crate.get_strings()

    def defs(self):
        s = self._s
        return set(s[n[0]] for n in self.nodes)

    def instances(self):
        s = self._s
        for n in self.nodes:
            yield s[n[0]], s[n[1]], n

    def chain(self, idx):
        """def-path chain root -> node idx"""
        s = self._s
        out = []
        while idx >= 0:
            n = self.nodes[idx]
            out.append(s[n[0]])
            idx = n[2]
        return list(reversed(out))

    def find(self, pred):
        """indices of nodes whose def path satisfies pred"""
        s = self._s
        return [i for i, n in enumerate(self.nodes) if pred(s[n[0]])]

    def virtual_paths(self):
        return [p for p, _ in self.virtual]


# ---------------------------------------------------------------------------
# MIR helpers

def const_int(text):
    """integer value of a MIR constant's text ('false', 'true', '3_usize', '-1_i32'), else None"""
    if text == 'false':
        return 0
    if text == 'true':
        return 1
    m = re.match(r'^(-?\d+)(_[iu](8|16|32|64|128|size))?$', text or '')
    return int(m.group(1)) if m else None


def op_int(op):
    """integer value of a constant operand (literal, or a named constant evaluated by the driver)"""
    if not op or op[0] != 'k':
        return None
    v = const_int(op[1])
    if v is None and len(op) > 4 and op[4] is not None:
        return int(op[4])
    return v


def op_place(op):
    """place of a copy/move operand, else None"""
    if op and op[0] in ('c', 'm'):
        return op[1]
    return None


def op_local(op):
    p = op_place(op)
    return p[0] if p else None


def op_const(op):
    if op and op[0] == 'k':
        return op[1]
    return None


def op_fn(op):
    if op and op[0] == 'fn':
        return op[1]
    return None


def place_fields(place):
    return [e[2] for e in place[1:] if isinstance(e, list) and e[0] == 'f']


def place_str(place, names=None):
    s = '_%d' % place[0]
    if names and str(place[0]) in names:
        s = names[str(place[0])]
    for e in place[1:]:
        if e == '*':
            s = '(*%s)' % s
        elif e[0] == 'f':
            s += '.' + str(e[2])
        elif e[0] == 'i':
            s += '[_%d]' % e[1]
        elif e[0] == 'd':
            s += ' as ' + str(e[2])
        elif e[0] == 'ci':
            s += '[%s%d]' % ('-' if e[2] else '', e[1])
        else:
            s += '[..]'
    return s


class Call:
    __slots__ = ('fn', 'bb', 'info', 'args', 'dest', 'target', 'unwind', 'line', 'exp')

    def __init__(self, fn, bb, t):
        self.fn = fn
        self.bb = bb
        self.info = t[1]
        self.args = t[2]
        self.dest = t[3]
        self.target = t[4]
        self.unwind = t[5]
        self.line = t[6]
        self.exp = t[7]

    @property
    def declared(self):
        return self.info.get('d')

    @property
    def callee(self):
        """resolved callee if resolution succeeded, else declared"""
        return self.info.get('r') or self.info.get('d')

    @property
    def indirect(self):
        return 'ind' in self.info

    @property
    def generic_types(self):
        s = self.fn.crate.get_strings()
        return [s[i] for i in self.info.get('gt', [])]

    def loc(self):
        return '%s:%s' % (self.fn.file, self.line)

    def __repr__(self):
        return 'Call(%s @bb%d %s)' % (self.callee, self.bb, self.loc())


class Fn:
    def __init__(self, o, crate, fb):
        self.o = o
        self.crate = crate
        self.fb = fb
        self.path = o['p']
        self.file = o['f']
        self.line = o['l']
        self.name = o.get('name')
        self.bbs = o.get('bbs', [])
        self.names = o.get('names', {})
        self.argc = o.get('argc', 0)
        self._succ = None
        self._pred = None
        self._dom = None
        self._defs = None
        self._loops = None

    # ---- basic accessors ----------------------------------------------
    def ty(self, idx):
        return self.crate.get_strings()[idx]

    def local_ty(self, local):
        return self.ty(self.o['locals'][local])

    def has_mir(self):
        return 'bbs' in self.o

    def term(self, bb):
        return self.bbs[bb]['t']

    def stmts(self, bb):
        return self.bbs[bb]['s']

    def is_cleanup(self, bb):
        return self.bbs[bb].get('c', False)

    def const_locals(self):
        """locals assigned exactly once in the whole body, by `const <int/bool>` (no liveness needed)"""
        if getattr(self, '_const_locals', None) is None:
            n = defaultdict(int)
            val = {}
            for b in self.bbs:
                for s in b['s']:
                    if s[0] == '=':
                        l = s[1][0]
                        n[l] += 1
                        if len(s[1]) == 1 and s[2][0] == 'use' and s[2][1][0] == 'k':
                            val[l] = const_int(s[2][1][1])
                    elif s[0] == 'sd':
                        n[s[1][0]] += 1
                t = b['t']
                if t[0] == 'call':
                    n[t[3][0]] += 1
            self._const_locals = {l: v for l, v in val.items() if n[l] == 1 and v is not None and l > self.argc}
        return self._const_locals

    def live(self):
        """blocks reachable from bb0 on normal edges with constant switches folded"""
        if getattr(self, '_live', None) is None:
            self._live = self.reachable() if self.bbs else set()
        return self._live

    def calls(self):
        live = self.live()
        for i, b in enumerate(self.bbs):
            t = b['t']
            if t[0] == 'call' and not b.get('c', False) and i in live:
                yield Call(self, i, t)

    def calls_to(self, pred):
        if isinstance(pred, str):
            name = pred
            pred = lambda c: c == name
        for c in self.calls():
            if (c.callee and pred(c.callee)) or (c.declared and pred(c.declared)):
                yield c

    def asserts(self):
        """(bb, kind, ops, line, exp, cond, expected)"""
        live = self.live()
        for i, b in enumerate(self.bbs):
            t = b['t']
            if t[0] == 'assert' and not b.get('c', False) and i in live:
                yield (i, t[3], t[4], t[7], t[8], t[1], t[2])

    def loc(self, line=None):
        return '%s:%s' % (self.file, line if line is not None else self.line)

    # ---- CFG -------------------------------------------------------------
    def successors(self, bb, unwind=False):
        t = self.bbs[bb]['t']
        k = t[0]
        out = []
        if k == 'goto':
            out = [t[1]]
        elif k == 'sw':
            out = [x[1] for x in t[2]] + [t[3]]
            cv = None
            if t[1][0] == 'k':
                # constant discriminant (e.g. `if cfg!(debug_assertions)` at mir-opt-level 0):
                # only the matching edge is feasible
                cv = const_int(t[1][1])
            elif len(t[1][1]) == 1:
                cv = self.const_locals().get(t[1][1][0])
            if True:
                if cv is not None:
                    hit = [x[1] for x in t[2] if int(x[0]) == cv]
                    out = hit[:1] if hit else [t[3]]
        elif k == 'drop':
            out = [t[2]]
            if unwind and t[3] is not None:
                out.append(t[3])
        elif k == 'call':
            if t[4] is not None:
                out = [t[4]]
            if unwind and t[5] is not None:
                out.append(t[5])
        elif k == 'assert':
            out = [t[5]]
            if unwind and t[6] is not None:
                out.append(t[6])
        elif k == 'asm':
            out = list(t[2])
        # dedupe, keep order
        seen = []
        for x in out:
            if x not in seen:
                seen.append(x)
        return seen

    def succ(self):
        if self._succ is None:
            self._succ = [self.successors(i) for i in range(len(self.bbs))]
            self._pred = [[] for _ in self.bbs]
            for i, ss in enumerate(self._succ):
                for s in ss:
                    self._pred[s].append(i)
        return self._succ

    def pred(self):
        self.succ()
        return self._pred

    def reachable(self):
        succ = self.succ()
        seen = {0}
        st = [0]
        while st:
            b = st.pop()
            for s in succ[b]:
                if s not in seen:
                    seen.add(s)
                    st.append(s)
        return seen

    def dominators(self):
        """dom[b] = set of blocks dominating b (normal edges only, from bb0)."""
        if self._dom is not None:
            return self._dom
        succ = self.succ()
        pred = self.pred()
        reach = self.reachable()
        # RPO
        order = []
        seen = set()
        st = [(0, iter(succ[0]))]
        seen.add(0)
        while st:
            b, it = st[-1]
            adv = False
            for s in it:
                if s not in seen:
                    seen.add(s)
                    st.append((s, iter(succ[s])))
                    adv = True
                    break
            if not adv:
                order.append(b)
                st.pop()
        rpo = list(reversed(order))
        idx = {b: i for i, b in enumerate(rpo)}
        idom = {0: 0}
        changed = True
        while changed:
            changed = False
            for b in rpo[1:]:
                ps = [p for p in pred[b] if p in idom]
                if not ps:
                    continue
                new = ps[0]
                for p in ps[1:]:
                    a, c = p, new
                    while a != c:
                        while idx[a] > idx[c]:
                            a = idom[a]
                        while idx[c] > idx[a]:
                            c = idom[c]
                    new = a
                if idom.get(b) != new:
                    idom[b] = new
                    changed = True
        dom = {}
        for b in rpo:
            s = {b}
            x = b
            while x != 0:
                x = idom[x]
                s.add(x)
            dom[b] = s
        self._idom = idom
        self._dom = dom
        self._reach = reach
        return dom

    def dominates(self, a, b):
        d = self.dominators()
        return b in d and a in d[b]

    def reach_from(self, start, avoid=(), avoid_edges=()):
        """blocks reachable from `start` (inclusive) on normal edges, never entering `avoid`."""
        succ = self.succ()
        avoid = set(avoid)
        if start in avoid:
            return set()
        seen = {start}
        st = [start]
        while st:
            b = st.pop()
            for s in succ[b]:
                if s in avoid or (b, s) in avoid_edges:
                    continue
                if s not in seen:
                    seen.add(s)
                    st.append(s)
        return seen

    def all_paths_pass(self, src, dst_set, through_set):
        """True iff every path (normal edges) from block `src` to any block in dst_set passes
        through a block in through_set (src itself counts, dst does not unless listed)."""
        if src in through_set:
            return True
        r = self.reach_from(src, avoid=through_set)
        return not (r & set(dst_set))

    def return_blocks(self):
        return [i for i, b in enumerate(self.bbs) if b['t'][0] == 'ret' and not b.get('c', False)]

    def loops(self):
        """natural loops: list of (header, set(body blocks))"""
        if self._loops is not None:
            return self._loops
        dom = self.dominators()
        succ = self.succ()
        pred = self.pred()
        loops = {}
        for b in dom:
            for s in succ[b]:
                if s in dom[b]:  # back edge b -> s
                    body = loops.setdefault(s, {s})
                    st = [b]
                    while st:
                        x = st.pop()
                        if x not in body:
                            body.add(x)
                            st.extend(p for p in pred[x] if p in dom)
        self._loops = sorted(loops.items())
        return self._loops

    def in_loop(self, bb):
        return [h for h, body in self.loops() if bb in body]

    # ---- definitions -------------------------------------------------------
    def defs(self):
        """local -> list of (bb, idx|'t', kind, payload, place)
        kind: 'rv' (payload = rvalue), 'call' (payload = Call)"""
        if self._defs is not None:
            return self._defs
        d = defaultdict(list)
        live = self.live()
        for i, b in enumerate(self.bbs):
            if b.get('c', False) or i not in live:
                continue
            for j, s in enumerate(b['s']):
                if s[0] == '=':
                    d[s[1][0]].append((i, j, 'rv', s[2], s[1]))
            t = b['t']
            if t[0] == 'call':
                d[t[3][0]].append((i, 't', 'call', Call(self, i, t), t[3]))
        self._defs = d
        return d

    # ---- guards ------------------------------------------------------------
    def guards(self, bb, _depth=0):
        """Conditions known to hold on entry to `bb`: list of Guard for each dominating
        SwitchInt of which exactly one outgoing value-class can reach bb."""
        dom = self.dominators()
        if bb not in dom:
            return []
        out = []
        for d in sorted(dom[bb]):
            t = self.bbs[d]['t']
            if t[0] != 'sw':
                continue
            # group values by target block
            targets = defaultdict(list)
            for v, tb in t[2]:
                targets[tb].append(int(v) if not isinstance(v, int) else v)
            other = t[3]
            cands = []
            for tb in set(list(targets.keys()) + [other]):
                if tb == bb or bb in self.reach_from(tb, avoid={d}):
                    cands.append(tb)
            if d == bb:
                continue
            if len(cands) != 1:
                continue
            tb = cands[0]
            vals = targets.get(tb, [])
            is_other = (tb == other)
            excluded = [v for t2, vs in targets.items() if t2 != tb for v in vs] if is_other else []
            out.append(Guard(self, d, t[1], vals if not is_other or vals else None, excluded, t[5] if len(t) > 5 else None))
        if _depth < 3:
            out.extend(self._implied_guards(out, _depth))
        return out

    def _implied_guards(self, guards, depth):
        """Value-flow refinement: a guard on a multiply-defined bool local (`let p = !a || !b; if p {..}`
        lowers to two definitions of p under a branch on `a`) implies the branch conditions of the only
        definition that can have produced the observed value."""
        extra = []
        for g in guards:
            op = g.discr
            if op[0] not in ('c', 'm') or len(op[1]) != 1:
                continue
            t = g.truth()
            if t is None:
                continue
            local = op[1][0]
            ds = [d for d in self.defs().get(local, []) if len(d[4]) == 1]
            hops = 0
            while (len(ds) == 1 and ds[0][2] == 'rv' and ds[0][3][0] == 'use' and ds[0][3][1][0] in ('c', 'm')
                   and len(ds[0][3][1][1]) == 1 and hops < 6 and not (1 <= ds[0][3][1][1][0] <= self.argc)):
                local = ds[0][3][1][1][0]
                ds = [d for d in self.defs().get(local, []) if len(d[4]) == 1]
                hops += 1
            if len(ds) < 2:
                # single definition by Not / copy: expose the operand as a guard as well
                survivors = ds
            else:
                survivors = []
                for d in ds:
                    if d[2] == 'rv' and d[3][0] == 'use' and d[3][1][0] == 'k':
                        cv = const_int(d[3][1][1])
                        if cv is not None and bool(cv) != t:
                            continue   # this definition cannot have produced the observed value
                    survivors.append(d)
            if len(survivors) != 1:
                continue
            d = survivors[0]
            if len(ds) >= 2:
                extra.extend(self.guards(d[0], _depth=depth + 1))
            if d[2] == 'rv' and d[3][0] == 'un' and d[3][1] == 'Not':
                extra.append(Guard(self, d[0], d[3][2], [0] if t else [1], [], g.line))
            elif d[2] == 'rv' and d[3][0] == 'use' and d[3][1][0] in ('c', 'm') and len(ds) >= 2:
                extra.append(Guard(self, d[0], d[3][1], [1] if t else [0], [], g.line))
        return extra

    # ---- provenance ----------------------------------------------------------
    def origins(self, op, depth=40, _seen=None):
        """Backward slice of an operand to a set of origin tuples (flow-insensitive union
        over all assignments to each local; see DESIGN §2)."""
        if _seen is None:
            _seen = set()
        out = set()
        if op is None:
            return out
        k = op[0]
        if k == 'k':
            out.add(('const', op[1]))
            if len(op) > 3 and op[3]:
                out.add(('named_const', op[3]))
            return out
        if k == 'fn':
            out.add(('fnitem', op[1]))
            return out
        place = op[1]
        return self.place_origins(place, depth, _seen)

    def place_origins(self, place, depth=40, _seen=None):
        if _seen is None:
            _seen = set()
        out = set()
        local = place[0]
        fields = tuple(place_fields(place))
        key = (local, fields)
        if key in _seen or depth <= 0:
            return out
        _seen.add(key)
        if 1 <= local <= self.argc:
            out.add(('param', local - 1, fields))
            # still look at reassignments (rare)
        for e in place[1:]:
            if isinstance(e, list) and e[0] == 'i':
                out |= {('index_by',) + o for o in ()}  # placeholder: index locals are not value origins
        for (bb, j, kind, payload, dplace) in self.defs().get(local, []):
            dfields = tuple(place_fields(dplace))
            # assignment to a different field of the same local: skip when both sides name fields
            if dfields and fields and dfields[:len(fields)] != fields[:len(dfields)]:
                continue
            if kind == 'call':
                c = payload
                out.add(('call', c.callee, c.bb, fields))
                if c.callee and TRANSPARENT.search(c.callee):
                    for a in c.args:
                        out |= self.origins(a, depth - 1, _seen)
                continue
            rv = payload
            rk = rv[0]
            if rk == 'use':
                o2 = rv[1]
                if o2[0] in ('c', 'm'):
                    p2 = o2[1]
                    # propagate remaining field path
                    if fields and not dfields:
                        p2 = p2 + [['f', -1, f, ''] for f in fields]
                    out |= self.place_origins(p2, depth - 1, _seen)
                else:
                    out |= self.origins(o2, depth - 1, _seen)
            elif rk in ('ref', 'raw'):
                p2 = rv[2]
                if fields and not dfields:
                    p2 = p2 + [['f', -1, f, ''] for f in fields]
                out |= self.place_origins(p2, depth - 1, _seen)
            elif rk == 'cast':
                out.add(('cast', rv[1]))
                out |= self.origins(rv[2], depth - 1, _seen)
            elif rk == 'bin':
                out.add(('binop', rv[1]))
                out |= self.origins(rv[2], depth - 1, _seen)
                out |= self.origins(rv[3], depth - 1, _seen)
            elif rk == 'un':
                out.add(('unop', rv[1]))
                if rv[1] == 'PtrMetadata':
                    inner = self.origins(rv[2], depth - 1, _seen)
                    out |= {('len_of',) + (o,) for o in inner}
                else:
                    out |= self.origins(rv[2], depth - 1, _seen)
            elif rk == 'agg':
                out.add(('agg', rv[1], rv[2], rv[3]))
                ops = rv[4]
                if fields and rv[1] in ('adt', 'tuple'):
                    # select the operand of the named field if resolvable
                    sel = None
                    f0 = fields[0]
                    if rv[1] == 'tuple':
                        try:
                            sel = ops[int(f0)]
                        except Exception:
                            sel = None
                    else:
                        adt = self.fb.adt(rv[2])
                        if adt:
                            for v in adt['variants']:
                                if rv[3] is None or v['name'] == rv[3]:
                                    for i, fd in enumerate(v['fields']):
                                        if fd['name'] == f0 and i < len(ops):
                                            sel = ops[i]
                    if sel is not None:
                        if sel[0] in ('c', 'm') and len(fields) > 1:
                            p2 = sel[1] + [['f', -1, f, ''] for f in fields[1:]]
                            out |= self.place_origins(p2, depth - 1, _seen)
                        else:
                            out |= self.origins(sel, depth - 1, _seen)
                        continue
                for o2 in ops:
                    out |= self.origins(o2, depth - 1, _seen)
            elif rk == 'disc':
                out.add(('discriminant',))
                out |= self.place_origins(rv[1], depth - 1, _seen)
            elif rk == 'rep':
                out |= self.origins(rv[1], depth - 1, _seen)
            elif rk == 'tls':
                out.add(('static', rv[1]))
            else:
                out.add(('other', rk))
        if not (1 <= local <= self.argc) and not self.defs().get(local):
            if self.path.count('{closure#') and local == 1:
                out.add(('upvar', fields))
            else:
                out.add(('undef', local))
        if self.path.count('{closure#') and local == 1 and fields:
            out.add(('upvar', fields))
        return out

    def def_of_local(self, local):
        """single defining (kind, payload) of a temp, or None if not unique"""
        ds = self.defs().get(local, [])
        ds = [d for d in ds if not place_fields(d[4]) and len(d[4]) == 1]
        if len(ds) == 1:
            return ds[0]
        return None

    def resolve_copy(self, op, depth=8):
        """follow plain copies/moves/refs of a temp back to the first non-trivial definition;
        returns (kind, payload) or ('param', idx) / ('op', op)"""
        while depth > 0 and op is not None and op[0] in ('c', 'm'):
            place = op[1]
            if len(place) != 1 and not (len(place) == 2 and place[1] == '*'):
                return ('place', place)
            local = place[0]
            if 1 <= local <= self.argc:
                return ('param', local - 1)
            d = self.def_of_local(local)
            if d is None:
                return ('place', place)
            _, _, kind, payload, _ = d
            if kind == 'call':
                return ('call', payload)
            rv = payload
            if rv[0] == 'use':
                op = rv[1]
                depth -= 1
                continue
            if rv[0] in ('ref', 'raw') and (len(rv[2]) == 1 or (len(rv[2]) == 2 and rv[2][1] == '*')):
                op = ['c', [rv[2][0]]]
                depth -= 1
                continue
            return ('rv', rv)
        return ('op', op)


class Guard:
    """A dominating branch condition.  `vals`: discriminant values on the taken edge
    (None = 'otherwise' edge, with `excluded` values known not to hold)."""

    def __init__(self, fn, bb, discr, vals, excluded, line):
        self.fn = fn
        self.bb = bb
        self.discr = discr
        self.vals = vals
        self.excluded = excluded
        self.line = line
        self._cond = None

    def cond(self):
        """('cmp', op, a, b) | ('call', Call) | ('disc', place) | ('not', inner) | ('opaque', x)"""
        if self._cond is None:
            self._cond = self._resolve(self.discr, 6)
        return self._cond

    def _resolve(self, op, depth):
        fn = self.fn
        r = fn.resolve_copy(op)
        if r[0] == 'call':
            return ('call', r[1])
        if r[0] == 'rv':
            rv = r[1]
            if rv[0] == 'bin' and rv[1] in ('Lt', 'Le', 'Gt', 'Ge', 'Eq', 'Ne'):
                return ('cmp', rv[1], rv[2], rv[3])
            if rv[0] == 'disc':
                return ('disc', rv[1], rv[2] if len(rv) > 2 else None, rv[3] if len(rv) > 3 else None)
            if rv[0] == 'un' and rv[1] == 'Not' and depth > 0:
                return ('not', self._resolve(rv[2], depth - 1))
            if rv[0] == 'bin':
                return ('bin', rv[1], rv[2], rv[3])
            return ('opaque', rv)
        if r[0] == 'place':
            return ('place', r[1])
        if r[0] == 'param':
            return ('param', r[1])
        return ('opaque', r)

    def truth(self):
        """For boolean discriminants: True / False / None"""
        if self.vals is not None:
            if self.vals == [0]:
                return False
            if self.vals == [1]:
                return True
            return None
        if self.excluded == [0]:
            return True
        if self.excluded == [1]:
            return False
        return None

    def describe(self):
        c = self.cond()
        names = self.fn.names
        def ops(o):
            if o is None:
                return '?'
            if o[0] in ('c', 'm'):
                return place_str(o[1], names)
            if o[0] == 'k':
                return o[1]
            return str(o[1])
        if c[0] == 'cmp':
            s = '%s(%s, %s)' % (c[1], ops(c[2]), ops(c[3]))
        elif c[0] == 'call':
            s = 'call %s' % c[1].callee
        elif c[0] == 'disc':
            s = 'discriminant(%s)' % place_str(c[1], names)
        elif c[0] == 'not':
            s = 'not(...)'
        else:
            s = c[0]
        return '%s = %s @%s' % (s, self.vals if self.vals is not None else ('not in %s' % self.excluded), self.fn.loc(self.line))
