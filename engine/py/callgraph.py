"""Workspace call graph over the (polymorphic) MIR dump with CHA expansion of unresolved
trait-method calls.  Used for closure-style rules (lock order, panic-site discharge,
recursion / SCC enumeration)."""
from collections import defaultdict


class CallGraph:
    def __init__(self, fb):
        self.fb = fb
        self._impl_methods = None
        self._edges = {}
        self.skipped_generic = set()
        self._ws = set(fb.crates.keys())

    def is_workspace(self, path):
        import re
        m = re.match(r'<*&*(?:mut )?([A-Za-z0-9_]+)', path)
        return bool(m) and m.group(1) in self._ws

    def impl_methods(self):
        """(trait path, method name) -> [impl method def paths] over all workspace crates;
        plus trait default bodies keyed by their decl path."""
        if self._impl_methods is None:
            m = defaultdict(list)
            for i in self.fb.impls():
                for name, (kind, path) in i['items'].items():
                    if kind == 'fn':
                        m[(i['trait'], name)].append(path)
            self._impl_methods = m
        return self._impl_methods

    def callees(self, f):
        """list of (callee def path, Call, how) for workspace-visible callees of Fn f;
        how in {'direct','cha','closure-arg'}"""
        if f.path in self._edges:
            return self._edges[f.path]
        fb = self.fb
        out = []
        for c in f.calls():
            info = c.info
            if 'ind' in info:
                continue
            r, d = info.get('r'), info.get('d')
            rk = info.get('rk')
            if r and rk not in ('virtual',):
                out.append((r, c, 'direct'))
                # a trait method resolved to its default body: fine, r is that body
            else:
                tr = info.get('tr')
                name = d.split('::')[-1] if d else None
                if tr and not self.is_workspace(tr):
                    # unresolved call on a std / third-party trait (generic receiver): the concrete
                    # impl depends on the instantiation; not expanded here (use a monomorphic
                    # reach root where soundness over such calls is needed)
                    self.skipped_generic.add((f.path, d))
                    if d:
                        out.append((d, c, 'direct'))
                elif tr and name:
                    impls = self.impl_methods().get((tr, name), [])
                    for p in impls:
                        out.append((p, c, 'cha'))
                    # default body
                    if fb.fn(d) is not None and fb.fn(d).has_mir():
                        out.append((d, c, 'cha'))
                    if not impls:
                        out.append((d, c, 'direct'))
                elif d:
                    out.append((d, c, 'direct'))
        # closures created here are assumed callable from here (they are passed to callees)
        for p in fb.closures_of(f.path):
            out.append((p, None, 'closure'))
        self._edges[f.path] = out
        return out

    def closure(self, roots, stop=lambda p: False, only_workspace=True):
        """reachable def paths -> predecessor map {path: (pred path, Call)}"""
        fb = self.fb
        pred = {}
        work = []
        for r in roots:
            pred[r] = (None, None)
            work.append(r)
        while work:
            p = work.pop()
            f = fb.fn(p)
            if f is None or not f.has_mir():
                continue
            for q, call, how in self.callees(f):
                if q in pred:
                    continue
                pred[q] = (p, call)
                if stop(q):
                    continue
                work.append(q)
        return pred

    def chain(self, pred, p):
        out = []
        while p is not None:
            out.append(p)
            p = pred[p][0]
        return list(reversed(out))

    def sccs(self, nodes):
        """Tarjan SCCs restricted to `nodes` (set of def paths); returns list of SCCs that are
        cycles (size>1 or self-loop)."""
        fb = self.fb
        index = {}
        low = {}
        onstack = set()
        stack = []
        res = []
        counter = [0]
        import sys
        sys.setrecursionlimit(100000)

        def succs(p):
            f = fb.fn(p)
            if f is None or not f.has_mir():
                return []
            return [q for q, _, _ in self.callees(f) if q in nodes]

        def strong(v):
            index[v] = low[v] = counter[0]
            counter[0] += 1
            stack.append(v)
            onstack.add(v)
            for w in succs(v):
                if w not in index:
                    strong(w)
                    low[v] = min(low[v], low[w])
                elif w in onstack:
                    low[v] = min(low[v], index[w])
            if low[v] == index[v]:
                comp = []
                while True:
                    w = stack.pop()
                    onstack.discard(w)
                    comp.append(w)
                    if w == v:
                        break
                if len(comp) > 1 or v in succs(v):
                    res.append(sorted(comp))
        for v in sorted(nodes):
            if v not in index:
                strong(v)
        return res
