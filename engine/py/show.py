#!/usr/bin/env python3
"""debug helper: pretty-print the dumped MIR of functions matching a regex.
usage: show.py <fact_dir> <regex> [cfg]"""
import sys, os, json, re
sys.path.insert(0, os.path.dirname(os.path.abspath(__file__)))
import facts
from facts import place_str

def ops(f, o):
    if o is None: return '?'
    if o[0] in ('c','m'): return ('move ' if o[0]=='m' else '') + place_str(o[1], f.names)
    if o[0]=='k': return 'const %s' % o[1] + ((' {%s}' % o[3]) if len(o)>3 and o[3] else '')
    if o[0]=='fn': return 'fn %s%s' % (o[1], o[2])
    return str(o)

def rvs(f, rv):
    k=rv[0]
    if k=='use': return ops(f,rv[1])
    if k=='ref': return '&%s %s' % (rv[1], place_str(rv[2], f.names))
    if k=='raw': return '&raw %s %s' % (rv[1], place_str(rv[2], f.names))
    if k=='cast': return '%s as %s (%s)%s' % (ops(f,rv[2]), f.ty(rv[4]), rv[1], (' '+str(rv[5])) if rv[5] else '')
    if k=='bin': return '%s(%s, %s)' % (rv[1], ops(f,rv[2]), ops(f,rv[3]))
    if k=='un': return '%s(%s)' % (rv[1], ops(f,rv[2]))
    if k=='agg': return '%s %s::%s{%s}' % (rv[1], rv[2], rv[3], ', '.join(ops(f,o) for o in rv[4]))
    if k=='disc': return 'discriminant(%s)' % place_str(rv[1], f.names)
    return str(rv)

def show(f):
    print('fn %s  [%s:%s] argc=%s tf=%s' % (f.path, f.file, f.line, f.argc, f.o.get('tf')))
    for k in ('self','trait','trait_ref','vis','unsafe','generics','parent'):
        if k in f.o: print('   %s: %s' % (k, f.o[k]))
    if not f.has_mir(): print('   <no mir>'); return
    for i,t in enumerate(f.o['locals']):
        print('   let _%d: %s%s' % (i, f.ty(t), ('  // '+f.names[str(i)]) if str(i) in f.names else ''))
    for i,b in enumerate(f.bbs):
        print('  bb%d%s:' % (i, ' (cleanup)' if b.get('c') else ''))
        for s in b['s']:
            if s[0]=='=': print('      %s = %s   // L%s' % (place_str(s[1], f.names), rvs(f,s[2]), s[3]))
            else: print('      %s' % s)
        t=b['t']
        if t[0]=='call':
            ci=t[1]
            callee = ci.get('r') or ci.get('d') or ('indirect '+ops(f,ci.get('ind')))
            extra = '' if ci.get('r')==ci.get('d') else ' [decl %s]' % ci.get('d')
            print('      %s = call %s%s(%s) -> bb%s unwind %s  // L%s %s ga=%s' % (place_str(t[3], f.names), callee, extra, ', '.join(ops(f,a) for a in t[2]), t[4], t[5], t[6], ci.get('rk'), ci.get('ga')))
        elif t[0]=='sw':
            print('      switch %s [%s] otherwise bb%s  // L%s' % (ops(f,t[1]), ', '.join('%s->bb%s' % (v,b2) for v,b2 in t[2]), t[3], t[5]))
        elif t[0]=='assert':
            print('      assert(%s == %s) %s(%s) -> bb%s  // L%s exp=%s' % (ops(f,t[1]), t[2], t[3], ', '.join(ops(f,o) for o in t[4]), t[5], t[7], t[8]))
        elif t[0]=='drop':
            print('      drop(%s) -> bb%s unwind %s' % (place_str(t[1], f.names), t[2], t[3]))
        else:
            print('      %s' % t)

if __name__=='__main__':
    fb = facts.FactBase(sys.argv[1], sys.argv[3] if len(sys.argv)>3 else 'ws')
    rx = re.compile(sys.argv[2])
    for p in fb.fn_paths():
        if rx.search(p):
            show(fb.fn(p)); print()
