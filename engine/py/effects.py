"""Field-sensitive read/write effects of methods on `self` (DESIGN §2 effects(F)).

For a method F with receiver parameter _1, effects(F) is a pair (R, W) of sets of access paths - tuples of field names
starting at `self`, array/slice indices elided, depth-limited - that F (or a callee reached with a pointer into `self`)
may read / write.  Locals holding references or copies derived from self are tracked flow-insensitively; results of
calls that receive a self-derived pointer are assumed to alias the union of those argument paths (iterators over a
field, `as_mut`, `iter_mut`, ...).  Workspace callees with MIR are summarised recursively (inlining bound) with their
own parameter paths re-rooted at the caller's argument paths."""
import re
from facts import op_place

MAXDEPTH = 5

# std accessors that hand out (references to / iterators over) elements of their receiver: no effect of their own,
# the result aliases the receiver's path (indices are elided, so an element has the path of its container)
ACCESSOR = re.compile(r'(::index(_mut)?$|::deref(_mut)?$|::iter(_mut)?$|::as_(mut_)?slice$|::as_(mut|ref)$|::get(_mut)?$|::get_unchecked(_mut)?$|::first(_mut)?$|::last(_mut)?$'
                      r'|Iterator::(next|rev|enumerate|zip|skip|take|by_ref|peekable|copied|cloned)$|Iterator>::next$|DoubleEndedIterator::next_back$|DoubleEndedIterator>::next_back$'
                      r'|::into_iter$|::borrow(_mut)?$|Option::<T>::(unwrap|expect|as_ref|as_mut|take)$|::clone$)')


def _path_of_place(place, base_paths):
    """access paths denoted by a place given the paths its base local may point to"""
    out = set()
    for bp in base_paths:
        p = list(bp)
        for e in place[1:]:
            if isinstance(e, list) and e[0] == 'f':
                # tuple positions / enum payload positions carry no information about which part of the
                # state is touched: keep named fields only
                if len(p) < MAXDEPTH and not str(e[2]).isdigit():
                    p.append(str(e[2]))
        out.add(tuple(p))
    return out


class Effects:
    def __init__(self, fb, inline_bound=4):
        self.fb = fb
        self.bound = inline_bound
        self.memo = {}

    def of(self, path, depth=0):
        """{param_index: (reads, writes)} for every reference/pointer parameter of the function"""
        key = path
        if key in self.memo:
            return self.memo[key]
        self.memo[key] = {}
        f = self.fb.fn(path)
        if f is None or not f.has_mir():
            return {}
        res = self._analyse(f, depth)
        self.memo[key] = res
        return res

    def _analyse(self, f, depth):
        # pts[local] = set of (param index, path tuple) the local may point into / be a copy of
        pts = {}
        for i in range(1, f.argc + 1):
            pts[i] = {(i - 1, ())}
        reads = {i: set() for i in range(f.argc)}
        writes = {i: set() for i in range(f.argc)}

        def place_targets(place):
            base = pts.get(place[0], set())
            out = set()
            for (pi, bp) in base:
                for p in _path_of_place(place, [bp]):
                    out.add((pi, p))
            return out

        def note(kind, place):
            for (pi, p) in place_targets(place):
                (reads if kind == 'r' else writes)[pi].add(p)

        changed = True
        rounds = 0
        calls = list(f.calls())
        while changed and rounds < 6:
            changed = False
            rounds += 1
            for i, b in enumerate(f.bbs):
                if b.get('c') or i not in f.live():
                    continue
                for s in b['s']:
                    if s[0] != '=':
                        continue
                    dst, rv = s[1], s[2]
                    src_places = []
                    k = rv[0]
                    if k == 'use' and rv[1][0] in ('c', 'm'):
                        src_places.append(rv[1][1])
                    elif k in ('ref', 'raw'):
                        src_places.append(rv[2])
                    elif k == 'cast' and rv[2][0] in ('c', 'm'):
                        src_places.append(rv[2][1])
                    elif k == 'agg':
                        for o in rv[4]:
                            if o[0] in ('c', 'm'):
                                src_places.append(o[1])
                    elif k in ('bin',):
                        for o in (rv[2], rv[3]):
                            if o[0] in ('c', 'm'):
                                note('r', o[1])
                    elif k in ('un',):
                        if rv[2][0] in ('c', 'm'):
                            note('r', rv[2][1])
                    elif k == 'disc':
                        note('r', rv[1])
                    # aliasing: destination local may now point where the sources point
                    new = set()
                    for sp in src_places:
                        new |= place_targets(sp)
                        if k == 'use' or k == 'cast' or k == 'agg':
                            note('r', sp)
                    if len(dst) == 1:
                        cur = pts.setdefault(dst[0], set())
                        if not new <= cur:
                            cur |= new
                            changed = True
                    # a write through a projection of a self-derived local
                    if len(dst) > 1:
                        note('w', dst)
            for c in calls:
                arg_targets = []
                for a in c.args:
                    p = op_place(a)
                    arg_targets.append(place_targets(p) if p is not None else set())
                    if p is not None and len(p) > 1:
                        note('r', p)
                callee = c.info.get('r') if c.info.get('rk') != 'virtual' else None
                summ = None
                if callee and depth < self.bound:
                    cf = self.fb.fn(callee)
                    if cf is not None and cf.has_mir():
                        summ = self.of(callee, depth + 1)
                union = set()
                accessor = summ is None and bool(ACCESSOR.search(c.callee or ''))
                ret_alias = None
                if summ is not None and 'ret' in summ:
                    ret_alias = set()
                    for (pj, rp) in summ['ret']:
                        if pj < len(arg_targets):
                            for (pi, bp) in arg_targets[pj]:
                                ret_alias.add((pi, (bp + rp)[:MAXDEPTH]))
                for ai, tg in enumerate(arg_targets):
                    union |= tg
                    if not tg:
                        continue
                    if accessor:
                        continue
                    if summ is not None and ai in summ:
                        r, w = summ[ai]
                        for (pi, bp) in tg:
                            for p in r:
                                reads[pi].add((bp + p)[:MAXDEPTH])
                            for p in w:
                                writes[pi].add((bp + p)[:MAXDEPTH])
                    elif summ is None:
                        # unknown callee given a pointer into self: conservatively a read; a write if the
                        # argument type is a mutable reference / pointer
                        ty = f.local_ty(op_place(c.args[ai])[0]) if op_place(c.args[ai]) else ''
                        for (pi, bp) in tg:
                            reads[pi].add(bp)
                            if ty.startswith('&mut') or ty.startswith('*mut'):
                                writes[pi].add(bp)
                # the result may alias what the arguments point to (or, for summarised callees, what they return)
                if ret_alias is not None:
                    union = ret_alias
                if len(c.dest) == 1 and union:
                    cur = pts.setdefault(c.dest[0], set())
                    if not union <= cur:
                        cur |= union
                        changed = True
        out = {i: (reads[i], writes[i]) for i in range(f.argc)}
        out['ret'] = set(pts.get(0, set()))
        return out

    def self_effects(self, path):
        e = self.of(path)
        return e.get(0, (set(), set()))
