//! Monomorphic reachability: a miniature of rustc's mono-item collector.
//!
//! Roots are read from the file named by MIRFACTS_ROOTS:
//!   trait <trait def path> <method>[,<method>...]   every local non-generic impl
//!   fn <def path>                                    a local non-generic function
//! For each root the walker follows resolved callees (Instance::try_resolve under a
//! fully monomorphized typing env), drop glue, fn-pointer reifications and the vtable
//! methods of the concrete type at every unsizing coercion to `dyn Trait`.
use crate::dump::{instance_kind_str, path_of, Ctx};
use crate::json::J;
use rustc_hir::def::DefKind;
use rustc_hir::def_id::DefId;
use rustc_middle::mir::*;
use rustc_middle::ty::adjustment::PointerCoercion;
use rustc_middle::ty::{self, EarlyBinder, Instance, Ty, TyCtxt, TypeVisitableExt, TypingEnv};
use std::collections::HashMap;

#[derive(Clone)]
enum Edge<'tcx> {
    Inst(Instance<'tcx>, &'static str),
    /// call through a vtable: trait method path
    Virtual(String),
    /// could not resolve
    Unresolved(String),
}

struct Walker<'tcx> {
    tcx: TyCtxt<'tcx>,
    cache: HashMap<Instance<'tcx>, Vec<Edge<'tcx>>>,
}

fn inst_str(i: &Instance<'_>) -> String {
    crate::np!((format!("{}", i)))
}

impl<'tcx> Walker<'tcx> {
    fn mono<T: ty::TypeFoldable<TyCtxt<'tcx>> + Clone>(
        &self,
        inst: Instance<'tcx>,
        v: T,
    ) -> Option<T> {
        inst.try_instantiate_mir_and_normalize_erasing_regions(
            self.tcx,
            TypingEnv::fully_monomorphized(),
            EarlyBinder::bind(v),
        )
        .ok()
    }

    fn has_body(&self, inst: Instance<'tcx>) -> bool {
        match inst.def {
            ty::InstanceKind::Item(did) => {
                let k = self.tcx.def_kind(did);
                matches!(k, DefKind::Fn | DefKind::AssocFn | DefKind::Closure)
                    && self.tcx.is_mir_available(did)
                    && !self.tcx.is_foreign_item(did)
            }
            ty::InstanceKind::Virtual(..) | ty::InstanceKind::Intrinsic(..) => false,
            ty::InstanceKind::DropGlue(_, None) => false,
            _ => true,
        }
    }

    fn unsize_tails(&self, src: Ty<'tcx>, dst: Ty<'tcx>, depth: usize) -> Option<(Ty<'tcx>, Ty<'tcx>)> {
        if depth > 8 {
            return None;
        }
        let tenv = TypingEnv::fully_monomorphized();
        match (src.kind(), dst.kind()) {
            (&ty::Ref(_, a, _), &ty::Ref(_, b, _))
            | (&ty::Ref(_, a, _), &ty::RawPtr(b, _))
            | (&ty::RawPtr(a, _), &ty::RawPtr(b, _)) => {
                Some(self.tcx.struct_lockstep_tails_for_codegen(a, b, tenv))
            }
            (&ty::Adt(sa, sargs), &ty::Adt(da, dargs)) if sa == da => {
                for (s, d) in sargs.types().zip(dargs.types()) {
                    if s != d {
                        if matches!(d.kind(), ty::Dynamic(..)) || matches!(d.kind(), ty::Slice(..)) || matches!(d.kind(), ty::Str) {
                            return Some(self.tcx.struct_lockstep_tails_for_codegen(s, d, tenv));
                        }
                        if let Some(r) = self.unsize_tails(s, d, depth + 1) {
                            return Some(r);
                        }
                        // generic wrapper whose parameter itself is unsized in place
                        return Some(self.tcx.struct_lockstep_tails_for_codegen(s, d, tenv));
                    }
                }
                None
            }
            _ => None,
        }
    }

    fn vtable_edges(&self, src_tail: Ty<'tcx>, dst_tail: Ty<'tcx>, out: &mut Vec<Edge<'tcx>>) {
        let tcx = self.tcx;
        if let ty::Dynamic(preds, ..) = dst_tail.kind() {
            if matches!(src_tail.kind(), ty::Dynamic(..)) {
                return;
            }
            if src_tail.has_escaping_bound_vars() {
                return;
            }
            if let Some(principal) = preds.principal() {
                let trait_ref =
                    tcx.instantiate_bound_regions_with_erased(principal.with_self_ty(tcx, src_tail));
                for entry in tcx.vtable_entries(trait_ref).iter() {
                    if let ty::VtblEntry::Method(inst) = entry {
                        out.push(Edge::Inst(*inst, "vtable"));
                    }
                }
            }
            if src_tail.needs_drop(tcx, TypingEnv::fully_monomorphized()) {
                out.push(Edge::Inst(Instance::resolve_drop_in_place(tcx, src_tail), "drop"));
            }
        }
    }

    fn edges(&mut self, inst: Instance<'tcx>) -> Vec<Edge<'tcx>> {
        if let Some(e) = self.cache.get(&inst) {
            return e.clone();
        }
        let mut out: Vec<Edge<'tcx>> = Vec::new();
        if self.has_body(inst) {
            let tcx = self.tcx;
            let tenv = TypingEnv::fully_monomorphized();
            let body: &Body<'tcx> = tcx.instance_mir(inst.def);
            for data in body.basic_blocks.iter() {
                for st in data.statements.iter() {
                    if let StatementKind::Assign(b) = &st.kind {
                        let (_, rv) = &**b;
                        if let Rvalue::Cast(CastKind::PointerCoercion(pc, _), op, target) = rv {
                            let src = op.ty(&body.local_decls, tcx);
                            let (Some(src), Some(dst)) = (self.mono(inst, src), self.mono(inst, *target))
                            else {
                                out.push(Edge::Unresolved("cast-normalize".into()));
                                continue;
                            };
                            match pc {
                                PointerCoercion::Unsize => {
                                    if let Some((s, d)) = self.unsize_tails(src, dst, 0) {
                                        self.vtable_edges(s, d, &mut out);
                                    }
                                }
                                PointerCoercion::ReifyFnPointer(_) => {
                                    if let ty::FnDef(did, args) = src.kind() {
                                        match Instance::resolve_for_fn_ptr(tcx, tenv, *did, args) {
                                            Some(i) => out.push(Edge::Inst(i, "reify")),
                                            None => out.push(Edge::Unresolved(path_of(tcx, *did))),
                                        }
                                    }
                                }
                                PointerCoercion::ClosureFnPointer(_) => {
                                    if let ty::Closure(did, args) = src.kind() {
                                        let i = Instance::resolve_closure(
                                            tcx,
                                            *did,
                                            args,
                                            ty::ClosureKind::FnOnce,
                                        );
                                        out.push(Edge::Inst(i, "reify"));
                                    }
                                }
                                _ => {}
                            }
                        }
                    }
                }
                let Some(term) = &data.terminator else { continue };
                match &term.kind {
                    TerminatorKind::Call { func, .. } | TerminatorKind::TailCall { func, .. } => {
                        let fty = func.ty(&body.local_decls, tcx);
                        let Some(fty) = self.mono(inst, fty) else {
                            out.push(Edge::Unresolved("call-normalize".into()));
                            continue;
                        };
                        if let ty::FnDef(did, args) = fty.kind() {
                            if tcx.is_intrinsic(*did, rustc_span::sym::unreachable) {
                                continue;
                            }
                            match Instance::try_resolve(tcx, tenv, *did, args) {
                                Ok(Some(i)) => {
                                    if let ty::InstanceKind::Virtual(vd, _) = i.def {
                                        out.push(Edge::Virtual(path_of(tcx, vd)));
                                    } else {
                                        out.push(Edge::Inst(i, "call"));
                                    }
                                }
                                _ => out.push(Edge::Unresolved(path_of(tcx, *did))),
                            }
                        }
                    }
                    TerminatorKind::Drop { place, .. } => {
                        let pty = place.ty(&body.local_decls, tcx).ty;
                        if let Some(pty) = self.mono(inst, pty) {
                            if pty.needs_drop(tcx, tenv) {
                                out.push(Edge::Inst(Instance::resolve_drop_in_place(tcx, pty), "drop"));
                            }
                        }
                    }
                    _ => {}
                }
            }
        }
        self.cache.insert(inst, out.clone());
        out
    }
}

fn parse_roots() -> Vec<(String, String, Vec<String>)> {
    let mut v = Vec::new();
    let Ok(p) = std::env::var("MIRFACTS_ROOTS") else { return v };
    let Ok(txt) = std::fs::read_to_string(&p) else { return v };
    for line in txt.lines() {
        let line = line.trim();
        if line.is_empty() || line.starts_with('#') {
            continue;
        }
        let parts: Vec<&str> = line.split_whitespace().collect();
        if parts.len() >= 3 && parts[0] == "trait" {
            v.push((
                "trait".into(),
                parts[1].to_string(),
                parts[2].split(',').map(|s| s.to_string()).collect(),
            ));
        } else if parts.len() >= 2 && parts[0] == "fn" {
            v.push(("fn".into(), parts[1].to_string(), vec![]));
        }
    }
    v
}

pub fn dump_reach<'tcx>(cx: &mut Ctx<'tcx>, lines: &mut Vec<String>) {
    let tcx = cx.tcx;
    let roots = parse_roots();
    if roots.is_empty() {
        return;
    }
    let mut w = Walker { tcx, cache: HashMap::new() };
    let tenv = TypingEnv::fully_monomorphized();

    // Collect root instances.
    let mut root_insts: Vec<(String, Option<Instance<'tcx>>, String)> = Vec::new();
    for (kind, path, methods) in roots.iter() {
        if kind == "trait" {
            for (trait_did, impls) in tcx.all_local_trait_impls(()).iter() {
                if &path_of(tcx, *trait_did) != path {
                    continue;
                }
                for &impl_ldid in impls.iter() {
                    let impl_did = impl_ldid.to_def_id();
                    let tr = tcx.impl_trait_ref(impl_did).instantiate_identity().skip_norm_wip();
                    let trs = crate::np!((format!("{}", tr)));
                    let generic = tcx.generics_of(impl_did).own_params.iter().any(|p| {
                        !matches!(p.kind, ty::GenericParamDefKind::Lifetime)
                    });
                    for m in methods.iter() {
                        let key = format!("<{}>::{}", trs, m);
                        if generic {
                            root_insts.push((key, None, "generic-impl".into()));
                            continue;
                        }
                        // find the trait method
                        let Some(tm) = tcx
                            .associated_items(*trait_did)
                            .in_definition_order()
                            .find(|it| it.is_fn() && !it.is_impl_trait_in_trait() && it.name().as_str() == m)
                        else {
                            root_insts.push((key, None, "no-such-method".into()));
                            continue;
                        };
                        let args = tcx.erase_and_anonymize_regions(tr.args);
                        // method-level generics => cannot be a mono root
                        if tcx.generics_of(tm.def_id).own_params.iter().any(|p| {
                            !matches!(p.kind, ty::GenericParamDefKind::Lifetime)
                        }) {
                            root_insts.push((key, None, "generic-method".into()));
                            continue;
                        }
                        let margs = ty::GenericArgs::for_item(tcx, tm.def_id, |param, _| {
                            if (param.index as usize) < args.len() {
                                args[param.index as usize]
                            } else {
                                tcx.lifetimes.re_erased.into()
                            }
                        });
                        match Instance::try_resolve(tcx, tenv, tm.def_id, margs) {
                            Ok(Some(i)) => root_insts.push((key, Some(i), String::new())),
                            _ => root_insts.push((key, None, "unresolved-root".into())),
                        }
                    }
                }
            }
        } else {
            for &ldid in tcx.mir_keys(()).iter() {
                let did: DefId = ldid.to_def_id();
                if !matches!(tcx.def_kind(did), DefKind::Fn | DefKind::AssocFn) {
                    continue;
                }
                if &path_of(tcx, did) != path {
                    continue;
                }
                let g = tcx.generics_of(did);
                let generic = (0..g.count()).any(|i| {
                    !matches!(g.param_at(i, tcx).kind, ty::GenericParamDefKind::Lifetime)
                });
                if generic {
                    root_insts.push((path.clone(), None, "generic-fn".into()));
                } else {
                    root_insts.push((path.clone(), Some(Instance::mono(tcx, did)), String::new()));
                }
            }
        }
    }

    for (key, inst, note) in root_insts.into_iter() {
        let Some(root) = inst else {
            let j = J::obj(vec![
                ("k", J::s("reach")),
                ("root", J::s(key)),
                ("skipped", J::s(note)),
            ]);
            let mut s = String::new();
            j.write(&mut s);
            lines.push(s);
            continue;
        };
        // BFS
        let mut index: HashMap<Instance<'tcx>, usize> = HashMap::new();
        let mut order: Vec<(Instance<'tcx>, isize, &'static str)> = Vec::new();
        let mut virtuals: Vec<(String, usize)> = Vec::new();
        let mut unresolved: Vec<(String, usize)> = Vec::new();
        index.insert(root, 0);
        order.push((root, -1, "root"));
        let mut head = 0usize;
        while head < order.len() {
            let (cur, _, _) = order[head];
            let es = w.edges(cur);
            for e in es {
                match e {
                    Edge::Inst(i, how) => {
                        if !index.contains_key(&i) {
                            index.insert(i, order.len());
                            order.push((i, head as isize, how));
                        }
                    }
                    Edge::Virtual(p) => {
                        if !virtuals.iter().any(|(q, _)| q == &p) {
                            virtuals.push((p, head));
                        }
                    }
                    Edge::Unresolved(p) => {
                        if !unresolved.iter().any(|(q, _)| q == &p) {
                            unresolved.push((p, head));
                        }
                    }
                }
            }
            head += 1;
            if order.len() > 200_000 {
                break;
            }
        }
        let mut nodes: Vec<J> = Vec::new();
        for (i, pred, how) in order.iter() {
            // skip drop glue of trivial types to keep the file small
            let dp = cx.intern(path_of(tcx, i.def_id()));
            let is = cx.intern(inst_str(i));
            nodes.push(J::Arr(vec![
                dp,
                is,
                J::i(*pred),
                J::s(*how),
                J::s(instance_kind_str(i)),
                J::Bool(w.has_body(*i)),
            ]));
        }
        let j = J::obj(vec![
            ("k", J::s("reach")),
            ("root", J::s(key)),
            ("root_def", J::s(path_of(tcx, root.def_id()))),
            ("nodes", J::Arr(nodes)),
            (
                "virtual",
                J::Arr(virtuals.into_iter().map(|(p, h)| J::Arr(vec![J::s(p), J::i(h)])).collect()),
            ),
            (
                "unresolved",
                J::Arr(unresolved.into_iter().map(|(p, h)| J::Arr(vec![J::s(p), J::i(h)])).collect()),
            ),
        ]);
        let mut s = String::new();
        j.write(&mut s);
        lines.push(s);
    }
}
