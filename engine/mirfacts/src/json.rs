//! Minimal JSON value + writer (the driver has no external dependencies).
use std::fmt::Write;

#[derive(Clone, Debug)]
pub enum J {
    Null,
    Bool(bool),
    Int(i128),
    Str(String),
    Arr(Vec<J>),
    Obj(Vec<(String, J)>),
}

impl J {
    pub fn s(x: impl Into<String>) -> J {
        J::Str(x.into())
    }
    pub fn i(x: impl TryInto<i128>) -> J {
        J::Int(x.try_into().ok().unwrap_or(-1))
    }
    pub fn obj(items: Vec<(&str, J)>) -> J {
        J::Obj(items.into_iter().map(|(k, v)| (k.to_string(), v)).collect())
    }
    pub fn write(&self, out: &mut String) {
        match self {
            J::Null => out.push_str("null"),
            J::Bool(b) => out.push_str(if *b { "true" } else { "false" }),
            J::Int(i) => {
                // Large values (u128 switch targets) are written as strings to stay
                // inside what every JSON reader accepts.
                if *i > (1i128 << 62) || *i < -(1i128 << 62) {
                    let _ = write!(out, "\"{}\"", i);
                } else {
                    let _ = write!(out, "{}", i);
                }
            }
            J::Str(s) => write_str(s, out),
            J::Arr(a) => {
                out.push('[');
                for (i, x) in a.iter().enumerate() {
                    if i > 0 {
                        out.push(',');
                    }
                    x.write(out);
                }
                out.push(']');
            }
            J::Obj(o) => {
                out.push('{');
                for (i, (k, v)) in o.iter().enumerate() {
                    if i > 0 {
                        out.push(',');
                    }
                    write_str(k, out);
                    out.push(':');
                    v.write(out);
                }
                out.push('}');
            }
        }
    }
}

fn write_str(s: &str, out: &mut String) {
    out.push('"');
    for c in s.chars() {
        match c {
            '"' => out.push_str("\\\""),
            '\\' => out.push_str("\\\\"),
            '\n' => out.push_str("\\n"),
            '\r' => out.push_str("\\r"),
            '\t' => out.push_str("\\t"),
            c if (c as u32) < 0x20 => {
                let _ = write!(out, "\\u{:04x}", c as u32);
            }
            c => out.push(c),
        }
    }
    out.push('"');
}
