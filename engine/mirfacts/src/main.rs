//! mirfacts: a rustc_private driver that dumps a compact JSON description of the
//! type-checked, trait-resolved MIR of the crate being compiled (one JSONL file per
//! rustc process), plus impl tables, ADT/field/static facts and monomorphic
//! reachability sets for configured roots.  It runs no rten code.
//!
//! Used as RUSTC_WORKSPACE_WRAPPER: argv = [driver, rustc, args...].
#![feature(rustc_private)]
#![allow(rustc::usage_of_ty_tykind)]

extern crate rustc_abi;
extern crate rustc_ast;
extern crate rustc_lint;
extern crate rustc_data_structures;
extern crate rustc_driver;
extern crate rustc_hir;
extern crate rustc_interface;
extern crate rustc_middle;
extern crate rustc_session;
extern crate rustc_span;

#[macro_export]
macro_rules! np {
    ($e:expr) => {
        rustc_middle::ty::print::with_no_trimmed_paths!(rustc_middle::ty::print::with_no_visible_paths!(
            rustc_middle::ty::print::with_resolve_crate_name!($e)
        ))
    };
}

mod json;
mod dump;
mod reach;

use rustc_driver::Compilation;
use rustc_middle::ty::TyCtxt;

struct Cb;

impl rustc_driver::Callbacks for Cb {
    fn after_analysis<'tcx>(
        &mut self,
        _c: &rustc_interface::interface::Compiler,
        tcx: TyCtxt<'tcx>,
    ) -> Compilation {
        let out_dir = match std::env::var("MIRFACTS_OUT") {
            Ok(d) => d,
            Err(_) => return Compilation::Continue,
        };
        dump::dump_crate(tcx, &out_dir);
        Compilation::Continue
    }
}

fn main() {
    let mut args: Vec<String> = std::env::args().collect();
    // Workspace-wrapper protocol: argv[1] is the real rustc path.
    if args.len() > 1 && (args[1].ends_with("rustc") || args[1].contains("/rustc")) {
        args.remove(1);
    }
    rustc_driver::install_ice_hook("mirfacts", |_| ());
    rustc_driver::run_compiler(&args, &mut Cb);
}
