//! Per-crate fact dump: functions (with simplified MIR), impls, ADTs, statics.
use crate::json::J;
use crate::reach;
use rustc_hir::def::DefKind;
use rustc_hir::def_id::{DefId, LOCAL_CRATE};
use rustc_middle::mir::{self, *};
use rustc_middle::ty::{self, Instance, Ty, TyCtxt, TypingEnv};
use rustc_span::Span;
use std::collections::HashMap;
use std::io::Write;

pub fn path_of(tcx: TyCtxt<'_>, did: DefId) -> String {
    crate::np!((tcx.def_path_str(did)))
}

pub fn ty_str<'tcx>(ty: Ty<'tcx>) -> String {
    crate::np!((format!("{}", ty)))
}

pub struct Ctx<'tcx> {
    pub tcx: TyCtxt<'tcx>,
    pub strs: HashMap<String, usize>,
    pub str_list: Vec<String>,
}

impl<'tcx> Ctx<'tcx> {
    /// Intern a (type) string; returns index into the crate's string table.
    pub fn intern(&mut self, s: String) -> J {
        if let Some(&i) = self.strs.get(&s) {
            return J::i(i);
        }
        let i = self.str_list.len();
        self.strs.insert(s.clone(), i);
        self.str_list.push(s);
        J::i(i)
    }
    pub fn ty(&mut self, ty: Ty<'tcx>) -> J {
        let s = ty_str(ty);
        self.intern(s)
    }
    pub fn loc(&self, sp: Span) -> (String, usize) {
        let sm = self.tcx.sess.source_map();
        let sp = if sp.from_expansion() { sp.source_callsite() } else { sp };
        let l = sm.lookup_char_pos(sp.lo());
        let name = match &l.file.name {
            rustc_span::FileName::Real(r) => match r.local_path() {
                Some(p) => p.to_string_lossy().to_string(),
                None => format!("{:?}", l.file.name),
            },
            other => format!("{:?}", other),
        };
        (name, l.line)
    }
    pub fn line(&self, sp: Span) -> J {
        J::i(self.loc(sp).1)
    }
}

pub fn dump_crate<'tcx>(tcx: TyCtxt<'tcx>, out_dir: &str) {
    let crate_name = tcx.crate_name(LOCAL_CRATE).to_string();
    // Only workspace crates of interest (cargo only wraps workspace members, but skip
    // build scripts anyway).
    if crate_name.starts_with("build_script") {
        return;
    }
    let mut cx = Ctx { tcx, strs: HashMap::new(), str_list: Vec::new() };
    let mut lines: Vec<String> = Vec::new();
    let cfg_name = std::env::var("MIRFACTS_CFG").unwrap_or_else(|_| "ws".into());

    // ---- crate header
    {
        let mut feats: Vec<J> = Vec::new();
        for (name, val) in tcx.sess.config.iter() {
            if name.as_str() == "feature" {
                if let Some(v) = val {
                    feats.push(J::s(v.as_str()));
                }
            }
        }
        let crate_types: Vec<J> =
            tcx.crate_types().iter().map(|c| J::s(format!("{:?}", c))).collect();
        let is_test = tcx.sess.opts.test;
        // crate-level attributes of interest: forbid(unsafe_code)
        let mut forbid_unsafe = false;
        let store = rustc_lint::unerased_lint_store(tcx.sess);
        for l in store.get_lints().iter() {
            if l.name_lower() == "unsafe_code" {
                let lint_level = tcx.lint_level_at_node(l, rustc_hir::CRATE_HIR_ID);
                if format!("{:?}", lint_level.level).contains("Forbid") {
                    forbid_unsafe = true;
                }
            }
        }
        let hdr = J::obj(vec![
            ("k", J::s("crate")),
            ("name", J::s(crate_name.clone())),
            ("cfg", J::s(cfg_name.clone())),
            ("features", J::Arr(feats)),
            ("crate_types", J::Arr(crate_types)),
            ("test", J::Bool(is_test)),
            ("forbid_unsafe", J::Bool(forbid_unsafe)),
        ]);
        let mut s = String::new();
        hdr.write(&mut s);
        lines.push(s);
    }

    // ---- functions
    let mut nfn = 0usize;
    for &ldid in tcx.mir_keys(()).iter() {
        let did = ldid.to_def_id();
        let kind = tcx.def_kind(did);
        let has_body = matches!(
            kind,
            DefKind::Fn | DefKind::AssocFn | DefKind::Closure | DefKind::Ctor(..)
        );
        if !has_body {
            continue;
        }
        if matches!(kind, DefKind::Ctor(..)) {
            continue;
        }
        if tcx.is_coroutine(did) {
            continue;
        }
        let j = dump_fn(&mut cx, did, kind);
        let mut s = String::new();
        j.write(&mut s);
        lines.push(s);
        nfn += 1;
    }

    // ---- trait impls + inherent impls
    dump_impls(&mut cx, &mut lines);
    // ---- ADTs, statics
    dump_adts(&mut cx, &mut lines);

    // ---- monomorphic reachability for configured roots
    reach::dump_reach(&mut cx, &mut lines);

    // ---- string table (last line)
    {
        let j = J::obj(vec![
            ("k", J::s("strings")),
            ("v", J::Arr(cx.str_list.iter().map(|s| J::s(s.clone())).collect())),
        ]);
        let mut s = String::new();
        j.write(&mut s);
        lines.push(s);
    }
    {
        let j = J::obj(vec![("k", J::s("end")), ("functions", J::i(nfn))]);
        let mut s = String::new();
        j.write(&mut s);
        lines.push(s);
    }

    // One write per process.
    let mut buf = lines.join("\n");
    buf.push('\n');
    let suffix = {
        // distinguish lib / bin targets of the same crate name
        let ct = tcx
            .crate_types()
            .iter()
            .map(|c| format!("{:?}", c).to_lowercase())
            .collect::<Vec<_>>()
            .join("_");
        format!("{}{}", ct, if tcx.sess.opts.test { "_test" } else { "" })
    };
    let fname = format!("{}/{}.{}.{}.jsonl", out_dir, crate_name, cfg_name, suffix);
    let tmp = format!("{}.tmp{}", fname, std::process::id());
    let mut f = std::fs::File::create(&tmp).expect("create fact file");
    f.write_all(buf.as_bytes()).expect("write fact file");
    drop(f);
    std::fs::rename(&tmp, &fname).expect("rename fact file");
}

/// false, or the chain of macro names this span was expanded from (outermost last).
fn exp_j(sp: Span) -> J {
    if !sp.from_expansion() {
        return J::Bool(false);
    }
    let names: Vec<String> = sp
        .macro_backtrace()
        .map(|d| match d.kind {
            rustc_span::ExpnKind::Macro(_, name) => name.as_str().to_string(),
            other => format!("{:?}", other).split('(').next().unwrap_or("").to_string(),
        })
        .collect();
    J::s(names.join(">"))
}

fn vis_str(tcx: TyCtxt<'_>, did: DefId) -> String {
    match tcx.def_kind(did) {
        DefKind::Fn | DefKind::AssocFn | DefKind::Struct | DefKind::Enum | DefKind::Union => {
            let v = tcx.visibility(did);
            if v.is_public() {
                "pub".into()
            } else {
                match v {
                    ty::Visibility::Restricted(m) => format!("in:{}", path_of(tcx, m)),
                    _ => "pub".into(),
                }
            }
        }
        _ => "na".into(),
    }
}

fn dump_fn<'tcx>(cx: &mut Ctx<'tcx>, did: DefId, kind: DefKind) -> J {
    let tcx = cx.tcx;
    let path = path_of(tcx, did);
    let span = tcx.def_span(did);
    let (file, line) = cx.loc(span);
    let mut o: Vec<(&str, J)> = vec![
        ("k", J::s("fn")),
        ("p", J::s(path)),
        ("f", J::s(file)),
        ("l", J::i(line)),
        ("kind", J::s(format!("{:?}", kind))),
        ("exp", J::Bool(span.from_expansion())),
    ];
    // parent (closures -> enclosing fn; assoc fns -> impl)
    let parent = tcx.opt_parent(did);
    if let Some(p) = parent {
        if matches!(kind, DefKind::Closure) {
            o.push(("parent", J::s(path_of(tcx, p))));
        }
    }
    // name, impl info
    if let Some(name) = tcx.opt_item_name(did) {
        o.push(("name", J::s(name.as_str())));
    }
    if matches!(kind, DefKind::AssocFn) {
        if let Some(p) = parent {
            match tcx.def_kind(p) {
                DefKind::Impl { of_trait } => {
                    let self_ty = tcx.type_of(p).instantiate_identity().skip_norm_wip();
                    o.push(("self", J::s(ty_str(self_ty))));
                    if let ty::Adt(adt, _) = self_ty.kind() {
                        o.push(("self_adt", J::s(path_of(tcx, adt.did()))));
                    }
                    if of_trait {
                        let tr = tcx.impl_trait_ref(p).instantiate_identity().skip_norm_wip();
                        o.push(("trait", J::s(path_of(tcx, tr.def_id))));
                        o.push((
                            "trait_ref",
                            J::s(crate::np!((format!("{}", tr)))),
                        ));
                    }
                    o.push(("impl", J::s(path_of(tcx, p))));
                }
                DefKind::Trait => {
                    o.push(("trait_decl", J::s(path_of(tcx, p))));
                }
                _ => {}
            }
        }
    }
    o.push(("vis", J::s(vis_str(tcx, did))));
    // signature & attrs (not for closures)
    if matches!(kind, DefKind::Fn | DefKind::AssocFn) {
        let sig = tcx.fn_sig(did).instantiate_identity().skip_norm_wip();
        let sig = sig.skip_binder();
        let ins: Vec<J> = sig.inputs().iter().map(|t| cx.ty(*t)).collect();
        o.push(("sig_in", J::Arr(ins)));
        let out = cx.ty(sig.output());
        o.push(("sig_out", out));
        o.push(("unsafe", J::Bool(sig.safety().is_unsafe())));
        let g = tcx.generics_of(did);
        let mut gp: Vec<J> = Vec::new();
        for i in 0..g.count() {
            let p = g.param_at(i, tcx);
            if !matches!(p.kind, ty::GenericParamDefKind::Lifetime) {
                gp.push(J::s(p.name.as_str()));
            }
        }
        o.push(("generics", J::Arr(gp)));
    }
    {
        let attrs = tcx.codegen_fn_attrs(did);
        let mut tf: Vec<String> =
            attrs.target_features.iter().map(|f| f.name.as_str().to_string()).collect();
        tf.sort();
        tf.dedup();
        if !tf.is_empty() {
            o.push(("tf", J::Arr(tf.into_iter().map(J::s).collect())));
            let mut tfe: Vec<String> = attrs
                .target_features
                .iter()
                .filter(|f| !format!("{:?}", f.kind).contains("Implied"))
                .map(|f| f.name.as_str().to_string())
                .collect();
            tfe.sort();
            tfe.dedup();
            o.push(("tfe", J::Arr(tfe.into_iter().map(J::s).collect())));
        }
        if attrs.flags.contains(
            rustc_middle::middle::codegen_fn_attrs::CodegenFnAttrFlags::TRACK_CALLER,
        ) {
            o.push(("track_caller", J::Bool(true)));
        }
    }

    if !tcx.is_mir_available(did) {
        o.push(("nomir", J::Bool(true)));
        return J::obj(o);
    }
    let body: &Body<'tcx> = tcx.optimized_mir(did);
    let tenv = TypingEnv::post_analysis(tcx, did);
    o.push(("argc", J::i(body.arg_count)));
    let locals: Vec<J> = body.local_decls.iter().map(|d| cx.ty(d.ty)).collect();
    o.push(("locals", J::Arr(locals)));
    // user variable names
    let mut names: Vec<(String, J)> = Vec::new();
    let mut upvars: Vec<(String, J)> = Vec::new();
    for vdi in body.var_debug_info.iter() {
        if let VarDebugInfoContents::Place(p) = &vdi.value {
            if p.projection.is_empty() {
                names.push((p.local.as_usize().to_string(), J::s(vdi.name.as_str())));
            } else if p.local.as_usize() == 1 {
                // closure upvar: (*_1).N or _1.N
                for e in p.projection.iter() {
                    if let ProjectionElem::Field(f, _) = e {
                        upvars.push((f.as_usize().to_string(), J::s(vdi.name.as_str())));
                        break;
                    }
                }
            }
        }
    }
    o.push(("names", J::Obj(names)));
    if !upvars.is_empty() {
        o.push(("upvars", J::Obj(upvars)));
    }

    let mut bbs: Vec<J> = Vec::new();
    for (_bb, data) in body.basic_blocks.iter_enumerated() {
        let mut stmts: Vec<J> = Vec::new();
        for st in data.statements.iter() {
            match &st.kind {
                StatementKind::Assign(b) => {
                    let (pl, rv) = &**b;
                    let p = place_j(cx, body, pl);
                    let r = rvalue_j(cx, body, tenv, rv);
                    stmts.push(J::Arr(vec![J::s("="), p, r, cx.line(st.source_info.span)]));
                }
                StatementKind::SetDiscriminant { place, variant_index } => {
                    let p = place_j(cx, body, place);
                    stmts.push(J::Arr(vec![J::s("sd"), p, J::i(variant_index.as_usize())]));
                }
                StatementKind::Intrinsic(b) => {
                    let txt = format!("{:?}", b);
                    stmts.push(J::Arr(vec![
                        J::s("intr"),
                        J::s(txt),
                        cx.line(st.source_info.span),
                    ]));
                }
                _ => {}
            }
        }
        let term = data.terminator();
        let t = term_j(cx, body, tenv, term);
        let mut bo: Vec<(&str, J)> = vec![("s", J::Arr(stmts)), ("t", t)];
        if data.is_cleanup {
            bo.push(("c", J::Bool(true)));
        }
        bbs.push(J::obj(bo));
    }
    o.push(("bbs", J::Arr(bbs)));
    // number of raw-pointer dereferences (places projecting through a `*const T` / `*mut T`)
    let mut rawderefs: Vec<J> = Vec::new();
    for (_bb, data) in body.basic_blocks.iter_enumerated() {
        if data.is_cleanup {
            continue;
        }
        let mut visit_place = |pl: &Place<'tcx>, sp: Span| {
            let mut pty = mir::PlaceTy::from_ty(body.local_decls[pl.local].ty);
            for elem in pl.projection.iter() {
                if matches!(elem, ProjectionElem::Deref) && pty.ty.is_raw_ptr() {
                    rawderefs.push(J::i(tcx.sess.source_map().lookup_char_pos(sp.lo()).line));
                }
                pty = pty.projection_ty(tcx, elem);
            }
        };
        for st in data.statements.iter() {
            if let StatementKind::Assign(b) = &st.kind {
                let (pl, rv) = &**b;
                visit_place(pl, st.source_info.span);
                match rv {
                    Rvalue::Use(Operand::Copy(p) | Operand::Move(p), ..) => visit_place(p, st.source_info.span),
                    Rvalue::Ref(_, _, p) | Rvalue::RawPtr(_, p) | Rvalue::CopyForDeref(p) | Rvalue::Discriminant(p) => {
                        visit_place(p, st.source_info.span)
                    }
                    _ => {}
                }
            }
        }
    }
    if !rawderefs.is_empty() {
        o.push(("rawderefs", J::Arr(rawderefs)));
    }
    // detailed raw-pointer accesses: [line, bb, pointer local, "mut"|"const", "r"|"w"|"ref"|"refmut"]
    // over every place mentioned by a statement or terminator operand
    let mut rawd: Vec<J> = Vec::new();
    for (bb, data) in body.basic_blocks.iter_enumerated() {
        if data.is_cleanup {
            continue;
        }
        let mut visit = |pl: &Place<'tcx>, sp: Span, kind: &str| {
            let mut pty = mir::PlaceTy::from_ty(body.local_decls[pl.local].ty);
            for elem in pl.projection.iter() {
                if matches!(elem, ProjectionElem::Deref) && pty.ty.is_raw_ptr() {
                    let m = if pty.ty.is_mutable_ptr() { "mut" } else { "const" };
                    rawd.push(J::Arr(vec![
                        J::i(tcx.sess.source_map().lookup_char_pos(sp.lo()).line),
                        J::i(bb.as_usize()),
                        J::i(pl.local.as_usize()),
                        J::s(m),
                        J::s(kind),
                    ]));
                }
                pty = pty.projection_ty(tcx, elem);
            }
        };
        let mut visit_op = |op: &Operand<'tcx>, sp: Span, visit: &mut dyn FnMut(&Place<'tcx>, Span, &str)| {
            if let Operand::Copy(p) | Operand::Move(p) = op {
                visit(p, sp, "r");
            }
        };
        for st in data.statements.iter() {
            if let StatementKind::Assign(b) = &st.kind {
                let (pl, rv) = &**b;
                let sp = st.source_info.span;
                visit(pl, sp, "w");
                match rv {
                    Rvalue::Use(op, ..) | Rvalue::Repeat(op, _) | Rvalue::UnaryOp(_, op) | Rvalue::Cast(_, op, _) => {
                        visit_op(op, sp, &mut visit)
                    }
                    Rvalue::BinaryOp(_, ops) => {
                        visit_op(&ops.0, sp, &mut visit);
                        visit_op(&ops.1, sp, &mut visit);
                    }
                    Rvalue::Aggregate(_, ops) => {
                        for op in ops.iter() {
                            visit_op(op, sp, &mut visit);
                        }
                    }
                    Rvalue::Ref(_, bk, p) => {
                        let k = if matches!(bk, mir::BorrowKind::Mut { .. }) { "refmut" } else { "ref" };
                        visit(p, sp, k)
                    }
                    Rvalue::RawPtr(rk, p) => {
                        let k = if format!("{:?}", rk).contains("Mut") { "refmut" } else { "ref" };
                        visit(p, sp, k)
                    }
                    Rvalue::CopyForDeref(p) | Rvalue::Discriminant(p) => visit(p, sp, "r"),
                    _ => {}
                }
            }
        }
        let term = data.terminator();
        let sp = term.source_info.span;
        match &term.kind {
            TerminatorKind::Call { func, args, destination, .. } => {
                visit_op(func, sp, &mut visit);
                for a in args.iter() {
                    visit_op(&a.node, sp, &mut visit);
                }
                visit(destination, sp, "w");
            }
            TerminatorKind::SwitchInt { discr, .. } => visit_op(discr, sp, &mut visit),
            TerminatorKind::Assert { cond, .. } => visit_op(cond, sp, &mut visit),
            _ => {}
        }
    }
    if !rawd.is_empty() {
        o.push(("rawd", J::Arr(rawd)));
    }
    J::obj(o)
}

fn place_j<'tcx>(cx: &mut Ctx<'tcx>, body: &Body<'tcx>, pl: &Place<'tcx>) -> J {
    let tcx = cx.tcx;
    let mut v: Vec<J> = vec![J::i(pl.local.as_usize())];
    let mut pty = mir::PlaceTy::from_ty(body.local_decls[pl.local].ty);
    for elem in pl.projection.iter() {
        match elem {
            ProjectionElem::Deref => v.push(J::s("*")),
            ProjectionElem::Field(f, _fty) => {
                // field name if ADT
                let mut name = f.as_usize().to_string();
                let mut owner = String::new();
                if let ty::Adt(adt, _) = pty.ty.kind() {
                    let vidx = pty.variant_index.unwrap_or(rustc_abi::FIRST_VARIANT);
                    if adt.is_enum() || adt.is_struct() || adt.is_union() {
                        if let Some(var) = adt.variants().get(vidx) {
                            if let Some(fd) = var.fields.get(f) {
                                name = fd.name.as_str().to_string();
                            }
                        }
                    }
                    owner = path_of(tcx, adt.did());
                }
                v.push(J::Arr(vec![J::s("f"), J::i(f.as_usize()), J::s(name), J::s(owner)]));
            }
            ProjectionElem::Index(l) => v.push(J::Arr(vec![J::s("i"), J::i(l.as_usize())])),
            ProjectionElem::ConstantIndex { offset, from_end, .. } => {
                v.push(J::Arr(vec![J::s("ci"), J::i(offset), J::Bool(from_end)]))
            }
            ProjectionElem::Subslice { from, to, from_end } => {
                v.push(J::Arr(vec![J::s("ss"), J::i(from), J::i(to), J::Bool(from_end)]))
            }
            ProjectionElem::Downcast(name, vi) => {
                let n = name.map(|s| s.as_str().to_string()).unwrap_or_default();
                v.push(J::Arr(vec![J::s("d"), J::i(vi.as_usize()), J::s(n)]))
            }
            _ => v.push(J::Arr(vec![J::s("o")])),
        }
        pty = pty.projection_ty(tcx, elem);
    }
    J::Arr(v)
}

fn const_j<'tcx>(cx: &mut Ctx<'tcx>, body: &Body<'tcx>, c: &ConstOperand<'tcx>) -> J {
    let tcx = cx.tcx;
    let ty = c.const_.ty();
    match ty.kind() {
        ty::FnDef(did, args) => {
            let a = crate::np!((format!("{:?}", args)));
            J::Arr(vec![J::s("fn"), J::s(path_of(tcx, *did)), J::s(a)])
        }
        _ => {
            let txt = crate::np!((format!("{}", c.const_)));
            let t = cx.ty(ty);
            // Named constants / statics referenced
            let mut extra = J::Null;
            let mut txt = txt;
            if let mir::Const::Unevaluated(uv, _) = c.const_ {
                extra = J::s(path_of(tcx, uv.def));
                // promoted constants (e.g. `&"Equal"`): print the evaluated value when the
                // body is not generic
                if let Some(pidx) = uv.promoted {
                    // list the literal constants of the promoted body
                    let _ = body;
                    if uv.def.is_local() {
                        let proms = tcx.promoted_mir(uv.def);
                        if let Some(pb) = proms.get(pidx) {
                            let mut lits: Vec<String> = Vec::new();
                            for data in pb.basic_blocks.iter() {
                                for st in data.statements.iter() {
                                    if let StatementKind::Assign(b) = &st.kind {
                                        let mut visit = |o: &Operand<'tcx>| {
                                            if let Operand::Constant(k) = o {
                                                if !matches!(k.const_, mir::Const::Unevaluated(..)) {
                                                    lits.push(crate::np!((format!("{}", k.const_))));
                                                }
                                            }
                                        };
                                        match &b.1 {
                                            Rvalue::Use(o, ..) => visit(o),
                                            Rvalue::Aggregate(_, ops) => {
                                                for o in ops.iter() {
                                                    visit(o)
                                                }
                                            }
                                            Rvalue::Cast(_, o, _) => visit(o),
                                            _ => {}
                                        }
                                    }
                                }
                            }
                            txt = format!("promoted[{}]", lits.join(", "));
                        }
                    }
                }
            }
            // evaluated integer value of named constants (None for generic-dependent ones)
            let mut val = J::Null;
            if matches!(c.const_, mir::Const::Unevaluated(..)) && (ty.is_integral() || ty.is_bool()) {
                let tenv = TypingEnv::post_analysis(tcx, body.source.def_id());
                if let Some(si) = c.const_.try_eval_scalar_int(tcx, tenv) {
                    let v: i128 = if ty.is_signed() {
                        si.to_int(si.size())
                    } else {
                        si.to_uint(si.size()) as i128
                    };
                    val = J::Int(v);
                }
            }
            J::Arr(vec![J::s("k"), J::s(txt), t, extra, val])
        }
    }
}

fn operand_j<'tcx>(cx: &mut Ctx<'tcx>, body: &Body<'tcx>, op: &Operand<'tcx>) -> J {
    match op {
        Operand::Copy(p) => J::Arr(vec![J::s("c"), place_j(cx, body, p)]),
        Operand::Move(p) => J::Arr(vec![J::s("m"), place_j(cx, body, p)]),
        Operand::Constant(c) => const_j(cx, body, c),
        #[allow(unreachable_patterns)]
        _ => J::Arr(vec![J::s("k"), J::s(format!("{:?}", op)), J::Null, J::Null]),
    }
}

fn rvalue_j<'tcx>(
    cx: &mut Ctx<'tcx>,
    body: &Body<'tcx>,
    tenv: TypingEnv<'tcx>,
    rv: &Rvalue<'tcx>,
) -> J {
    let tcx = cx.tcx;
    match rv {
        Rvalue::Use(op, ..) => J::Arr(vec![J::s("use"), operand_j(cx, body, op)]),
        Rvalue::Repeat(op, n) => {
            J::Arr(vec![J::s("rep"), operand_j(cx, body, op), J::s(format!("{}", n))])
        }
        Rvalue::Ref(_, bk, p) => {
            let k = match bk {
                BorrowKind::Shared => "shared",
                BorrowKind::Mut { .. } => "mut",
                BorrowKind::Fake(_) => "fake",
            };
            J::Arr(vec![J::s("ref"), J::s(k), place_j(cx, body, p)])
        }
        Rvalue::ThreadLocalRef(d) => J::Arr(vec![J::s("tls"), J::s(path_of(tcx, *d))]),
        Rvalue::RawPtr(k, p) => {
            J::Arr(vec![J::s("raw"), J::s(format!("{:?}", k)), place_j(cx, body, p)])
        }
        Rvalue::Cast(kind, op, ty) => {
            let src_ty = op.ty(&body.local_decls, tcx);
            let mut extra = J::Null;
            // Unsize to dyn: record concrete source type
            if let CastKind::PointerCoercion(pc, _) = kind {
                let pcs = format!("{:?}", pc);
                if pcs.starts_with("ReifyFnPointer") || pcs.starts_with("ClosureFnPointer") {
                    if let ty::FnDef(did, args) = src_ty.kind() {
                        let r = Instance::try_resolve(tcx, tenv, *did, args).ok().flatten();
                        let rp = r.map(|i| path_of(tcx, i.def_id()));
                        extra = J::Arr(vec![
                            J::s(path_of(tcx, *did)),
                            rp.map(J::s).unwrap_or(J::Null),
                        ]);
                    } else if let ty::Closure(did, _) = src_ty.kind() {
                        extra = J::Arr(vec![J::s(path_of(tcx, *did)), J::Null]);
                    }
                }
            }
            let s = cx.ty(src_ty);
            let d = cx.ty(*ty);
            J::Arr(vec![
                J::s("cast"),
                J::s(format!("{:?}", kind)),
                operand_j(cx, body, op),
                s,
                d,
                extra,
            ])
        }
        Rvalue::BinaryOp(op, b) => {
            let (l, r) = &**b;
            let lt = l.ty(&body.local_decls, tcx);
            let t = cx.ty(lt);
            J::Arr(vec![
                J::s("bin"),
                J::s(format!("{:?}", op)),
                operand_j(cx, body, l),
                operand_j(cx, body, r),
                t,
            ])
        }
        Rvalue::UnaryOp(op, a) => {
            J::Arr(vec![J::s("un"), J::s(format!("{:?}", op)), operand_j(cx, body, a)])
        }
        Rvalue::Discriminant(p) => {
            let pty = p.ty(&body.local_decls, tcx).ty;
            let (adt_path, names) = match pty.kind() {
                ty::Adt(adt, _) if adt.is_enum() => (
                    J::s(path_of(tcx, adt.did())),
                    J::Arr(adt.variants().iter().map(|v| J::s(v.name.as_str())).collect()),
                ),
                _ => (J::Null, J::Null),
            };
            J::Arr(vec![J::s("disc"), place_j(cx, body, p), adt_path, names])
        }
        Rvalue::Aggregate(k, ops) => {
            let (kind, name, variant) = match &**k {
                AggregateKind::Array(_) => ("array", String::new(), J::Null),
                AggregateKind::Tuple => ("tuple", String::new(), J::Null),
                AggregateKind::Adt(did, vi, _args, _, _) => {
                    let adt = tcx.adt_def(*did);
                    let vn = adt.variant(*vi).name.as_str().to_string();
                    ("adt", path_of(tcx, *did), J::s(vn))
                }
                AggregateKind::Closure(did, _) => ("closure", path_of(tcx, *did), J::Null),
                AggregateKind::Coroutine(did, _) => ("coroutine", path_of(tcx, *did), J::Null),
                AggregateKind::CoroutineClosure(did, _) => {
                    ("coroutine_closure", path_of(tcx, *did), J::Null)
                }
                AggregateKind::RawPtr(_, m) => ("rawptr", format!("{:?}", m), J::Null),
            };
            let opsj: Vec<J> = ops.iter().map(|o| operand_j(cx, body, o)).collect();
            J::Arr(vec![J::s("agg"), J::s(kind), J::s(name), variant, J::Arr(opsj)])
        }
        Rvalue::CopyForDeref(p) => {
            J::Arr(vec![J::s("use"), J::Arr(vec![J::s("c"), place_j(cx, body, p)])])
        }
        other => J::Arr(vec![J::s("other"), J::s(format!("{:?}", other))]),
    }
}

pub fn instance_kind_str(i: &Instance<'_>) -> &'static str {
    match i.def {
        ty::InstanceKind::Item(_) => "item",
        ty::InstanceKind::Intrinsic(_) => "intrinsic",
        ty::InstanceKind::Virtual(..) => "virtual",
        ty::InstanceKind::ClosureOnceShim { .. } => "closure_once_shim",
        ty::InstanceKind::FnPtrShim(..) => "fn_ptr_shim",
        ty::InstanceKind::DropGlue(..) => "drop_glue",
        ty::InstanceKind::CloneShim(..) => "clone_shim",
        ty::InstanceKind::ReifyShim(..) => "reify_shim",
        ty::InstanceKind::VTableShim(..) => "vtable_shim",
        _ => "other",
    }
}

fn term_j<'tcx>(
    cx: &mut Ctx<'tcx>,
    body: &Body<'tcx>,
    tenv: TypingEnv<'tcx>,
    term: &Terminator<'tcx>,
) -> J {
    let tcx = cx.tcx;
    let sp = term.source_info.span;
    let unwind_j = |u: &UnwindAction| match u {
        UnwindAction::Cleanup(bb) => J::i(bb.as_usize()),
        _ => J::Null,
    };
    match &term.kind {
        TerminatorKind::Goto { target } => J::Arr(vec![J::s("goto"), J::i(target.as_usize())]),
        TerminatorKind::SwitchInt { discr, targets } => {
            let t: Vec<J> = targets
                .iter()
                .map(|(v, bb)| J::Arr(vec![J::Int(v as i128), J::i(bb.as_usize())]))
                .collect();
            let dty = discr.ty(&body.local_decls, tcx);
            let dt = cx.ty(dty);
            J::Arr(vec![
                J::s("sw"),
                operand_j(cx, body, discr),
                J::Arr(t),
                J::i(targets.otherwise().as_usize()),
                dt,
                cx.line(sp),
            ])
        }
        TerminatorKind::Return => J::Arr(vec![J::s("ret")]),
        TerminatorKind::Unreachable => J::Arr(vec![J::s("unr")]),
        TerminatorKind::UnwindResume => J::Arr(vec![J::s("resume")]),
        TerminatorKind::UnwindTerminate(_) => J::Arr(vec![J::s("abort")]),
        TerminatorKind::Drop { place, target, unwind, .. } => {
            let pty = place.ty(&body.local_decls, tcx).ty;
            let t = cx.ty(pty);
            J::Arr(vec![
                J::s("drop"),
                place_j(cx, body, place),
                J::i(target.as_usize()),
                unwind_j(unwind),
                t,
                cx.line(sp),
            ])
        }
        TerminatorKind::Call { func, args, destination, target, unwind, fn_span, .. } => {
            let fty = func.ty(&body.local_decls, tcx);
            let mut ci: Vec<(&str, J)> = Vec::new();
            match fty.kind() {
                ty::FnDef(did, gargs) => {
                    ci.push(("d", J::s(path_of(tcx, *did))));
                    let ga = crate::np!((format!("{:?}", gargs)));
                    ci.push(("ga", J::s(ga)));
                    // type args as interned strings (for generic-arg agreement rules)
                    let tys: Vec<J> = gargs.types().map(|t| cx.ty(t)).collect();
                    ci.push(("gt", J::Arr(tys)));
                    match Instance::try_resolve(tcx, tenv, *did, gargs) {
                        Ok(Some(inst)) => {
                            ci.push(("r", J::s(path_of(tcx, inst.def_id()))));
                            ci.push(("rk", J::s(instance_kind_str(&inst))));
                        }
                        _ => {
                            ci.push(("r", J::Null));
                        }
                    }
                    if let Some(tr) = tcx.trait_of_assoc(*did) {
                        ci.push(("tr", J::s(path_of(tcx, tr))));
                    }
                    // target features required by the (declared) callee, e.g. core::arch intrinsics
                    if matches!(tcx.def_kind(*did), DefKind::Fn | DefKind::AssocFn) {
                        let cattrs = tcx.codegen_fn_attrs(*did);
                        if !cattrs.target_features.is_empty() {
                            let mut tf: Vec<String> = cattrs
                                .target_features
                                .iter()
                                .filter(|f| !format!("{:?}", f.kind).contains("Implied"))
                                .map(|f| f.name.as_str().to_string())
                                .collect();
                            tf.sort();
                            tf.dedup();
                            ci.push(("ctf", J::Arr(tf.into_iter().map(J::s).collect())));
                        }
                    }
                    // callee declared `unsafe fn` (or an unsafe intrinsic)
                    if tcx.fn_sig(*did).skip_binder().safety().is_unsafe() {
                        ci.push(("us", J::Bool(true)));
                    }
                }
                _ => {
                    ci.push(("ind", operand_j(cx, body, func)));
                    let t = cx.ty(fty);
                    ci.push(("fty", t));
                }
            }
            let a: Vec<J> = args.iter().map(|a| operand_j(cx, body, &a.node)).collect();
            let (_, cl) = cx.loc(*fn_span);
            J::Arr(vec![
                J::s("call"),
                J::obj(ci),
                J::Arr(a),
                place_j(cx, body, destination),
                target.map(|t| J::i(t.as_usize())).unwrap_or(J::Null),
                unwind_j(unwind),
                J::i(cl),
                exp_j(sp),
            ])
        }
        TerminatorKind::TailCall { .. } => J::Arr(vec![J::s("tailcall")]),
        TerminatorKind::Assert { cond, expected, msg, target, unwind } => {
            let (kind, ops): (String, Vec<J>) = match &**msg {
                AssertKind::BoundsCheck { len, index } => (
                    "BoundsCheck".into(),
                    vec![operand_j(cx, body, len), operand_j(cx, body, index)],
                ),
                AssertKind::Overflow(op, l, r) => (
                    format!("Overflow:{:?}", op),
                    vec![operand_j(cx, body, l), operand_j(cx, body, r)],
                ),
                AssertKind::OverflowNeg(o) => ("OverflowNeg".into(), vec![operand_j(cx, body, o)]),
                AssertKind::DivisionByZero(o) => {
                    ("DivisionByZero".into(), vec![operand_j(cx, body, o)])
                }
                AssertKind::RemainderByZero(o) => {
                    ("RemainderByZero".into(), vec![operand_j(cx, body, o)])
                }
                AssertKind::MisalignedPointerDereference { .. } => ("Misaligned".into(), vec![]),
                AssertKind::NullPointerDereference => ("NullDeref".into(), vec![]),
                other => {
                    let s = format!("{:?}", other);
                    (s.split(|c: char| !c.is_alphanumeric()).next().unwrap_or("").to_string(), vec![])
                }
            };
            J::Arr(vec![
                J::s("assert"),
                operand_j(cx, body, cond),
                J::Bool(*expected),
                J::s(kind),
                J::Arr(ops),
                J::i(target.as_usize()),
                unwind_j(unwind),
                cx.line(sp),
                exp_j(sp),
            ])
        }
        TerminatorKind::InlineAsm { template, targets, .. } => {
            let t = rustc_ast::InlineAsmTemplatePiece::to_string(template);
            J::Arr(vec![
                J::s("asm"),
                J::s(t),
                J::Arr(targets.iter().map(|b| J::i(b.as_usize())).collect()),
                cx.line(sp),
            ])
        }
        TerminatorKind::FalseEdge { real_target, .. } => {
            J::Arr(vec![J::s("goto"), J::i(real_target.as_usize())])
        }
        TerminatorKind::FalseUnwind { real_target, .. } => {
            J::Arr(vec![J::s("goto"), J::i(real_target.as_usize())])
        }
        _ => J::Arr(vec![J::s("other")]),
    }
}

fn dump_impls<'tcx>(cx: &mut Ctx<'tcx>, lines: &mut Vec<String>) {
    let tcx = cx.tcx;
    for (trait_did, impls) in tcx.all_local_trait_impls(()).iter() {
        for &impl_ldid in impls.iter() {
            let impl_did = impl_ldid.to_def_id();
            let self_ty = tcx.type_of(impl_did).instantiate_identity().skip_norm_wip();
            let tr = tcx.impl_trait_ref(impl_did).instantiate_identity().skip_norm_wip();
            let mut items: Vec<(String, J)> = Vec::new();
            for it in tcx.associated_items(impl_did).in_definition_order() {
                if it.is_impl_trait_in_trait() {
                    continue;
                }
                let kind = match it.kind {
                    ty::AssocKind::Fn { .. } => "fn",
                    ty::AssocKind::Const { .. } => "const",
                    ty::AssocKind::Type { .. } => "type",
                };
                items.push((
                    it.name().as_str().to_string(),
                    J::Arr(vec![J::s(kind), J::s(path_of(tcx, it.def_id))]),
                ));
            }
            let (file, line) = cx.loc(tcx.def_span(impl_did));
            let mut o = vec![
                ("k", J::s("impl")),
                ("trait", J::s(path_of(tcx, *trait_did))),
                (
                    "trait_ref",
                    J::s(crate::np!((format!("{}", tr)))),
                ),
                ("self", J::s(ty_str(self_ty))),
                ("impl", J::s(path_of(tcx, impl_did))),
                ("items", J::Obj(items)),
                ("f", J::s(file)),
                ("l", J::i(line)),
                ("unsafe", J::Bool(tcx.impl_trait_header(impl_did).safety.is_unsafe())),
                ("exp", J::Bool(tcx.def_span(impl_did).from_expansion())),
                ("ngenerics", J::i(tcx.generics_of(impl_did).count())),
            ];
            if let ty::Adt(adt, _) = self_ty.kind() {
                o.push(("self_adt", J::s(path_of(tcx, adt.did()))));
            }
            let mut s = String::new();
            J::obj(o).write(&mut s);
            lines.push(s);
        }
    }
}

/// Collect ADT def paths + dyn-trait principals mentioned anywhere in a type.
fn walk_ty<'tcx>(tcx: TyCtxt<'tcx>, ty: Ty<'tcx>, adts: &mut Vec<String>, dyns: &mut Vec<String>) {
    for arg in ty.walk() {
        if let Some(t) = arg.as_type() {
            match t.kind() {
                ty::Adt(adt, _) => {
                    let p = path_of(tcx, adt.did());
                    if !adts.contains(&p) {
                        adts.push(p);
                    }
                }
                ty::Dynamic(preds, ..) => {
                    if let Some(pr) = preds.principal() {
                        let p = path_of(tcx, pr.def_id());
                        if !dyns.contains(&p) {
                            dyns.push(p);
                        }
                    }
                }
                _ => {}
            }
        }
    }
}

fn dump_adts<'tcx>(cx: &mut Ctx<'tcx>, lines: &mut Vec<String>) {
    let tcx = cx.tcx;
    for id in tcx.hir_free_items() {
        let did = id.owner_id.to_def_id();
        match tcx.def_kind(did) {
            DefKind::Struct | DefKind::Enum | DefKind::Union => {
                let adt = tcx.adt_def(did);
                let tenv = TypingEnv::post_analysis(tcx, did);
                let mut variants: Vec<J> = Vec::new();
                for v in adt.variants().iter() {
                    let mut fields: Vec<J> = Vec::new();
                    for f in v.fields.iter() {
                        let fty = tcx.type_of(f.did).instantiate_identity().skip_norm_wip();
                        let freeze = fty.is_freeze(tcx, tenv);
                        let mut adts = Vec::new();
                        let mut dyns = Vec::new();
                        walk_ty(tcx, fty, &mut adts, &mut dyns);
                        let fvis = tcx.visibility(f.did);
                        fields.push(J::obj(vec![
                            ("name", J::s(f.name.as_str())),
                            ("ty", J::s(ty_str(fty))),
                            ("freeze", J::Bool(freeze)),
                            ("adts", J::Arr(adts.into_iter().map(J::s).collect())),
                            ("dyns", J::Arr(dyns.into_iter().map(J::s).collect())),
                            ("pub", J::Bool(fvis.is_public())),
                        ]));
                    }
                    variants.push(J::obj(vec![
                        ("name", J::s(v.name.as_str())),
                        ("fields", J::Arr(fields)),
                    ]));
                }
                let (file, line) = cx.loc(tcx.def_span(did));
                let j = J::obj(vec![
                    ("k", J::s("adt")),
                    ("p", J::s(path_of(tcx, did))),
                    ("kind", J::s(format!("{:?}", tcx.def_kind(did)))),
                    ("variants", J::Arr(variants)),
                    ("vis", J::s(vis_str(tcx, did))),
                    ("f", J::s(file)),
                    ("l", J::i(line)),
                    ("ngenerics", J::i(tcx.generics_of(did).count())),
                ]);
                let mut s = String::new();
                j.write(&mut s);
                lines.push(s);
            }
            _ => {}
        }
    }
    // statics (including function-local ones and thread_local! expansions)
    for ldid in tcx.hir_crate_items(()).definitions() {
        let did = ldid.to_def_id();
        if let DefKind::Static { mutability, nested, .. } = tcx.def_kind(did) {
            if nested {
                continue;
            }
            let ty = tcx.type_of(did).instantiate_identity().skip_norm_wip();
            let tenv = TypingEnv::post_analysis(tcx, did);
            let freeze = ty.is_freeze(tcx, tenv);
            let (file, line) = cx.loc(tcx.def_span(did));
            let j = J::obj(vec![
                ("k", J::s("static")),
                ("p", J::s(path_of(tcx, did))),
                ("ty", J::s(ty_str(ty))),
                ("freeze", J::Bool(freeze)),
                ("mut", J::Bool(mutability.is_mut())),
                ("tls", J::Bool(tcx.is_thread_local_static(did))),
                ("f", J::s(file)),
                ("l", J::i(line)),
                ("exp", J::Bool(tcx.def_span(did).from_expansion())),
            ]);
            let mut s = String::new();
            j.write(&mut s);
            lines.push(s);
        }
    }
}
