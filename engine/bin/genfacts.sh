#!/bin/bash
# genfacts.sh <out_dir> <cfg> -- <cargo check args...>
# Runs the mirfacts driver over /repo (or $VERIF_REPO) with a fresh target dir
# (outside /repo and /verif), removed on exit.
set -euo pipefail
OUT="$1"; CFG="$2"; shift 2; [ "$1" = "--" ] && shift
REPO="${VERIF_REPO:-/repo}"
HERE="$(cd "$(dirname "$0")/.." && pwd)"
DRV="$HERE/mirfacts/target/release/mirfacts"
[ -x "$DRV" ] || { echo "driver not built: $DRV" >&2; exit 2; }
SYSROOT="$(rustc +nightly --print sysroot)"
TGT="$(mktemp -d "${TMPDIR:-/tmp}/verif-tgt.XXXXXX")"
trap 'rm -rf "$TGT"' EXIT
mkdir -p "$OUT"
cd "$REPO"
env LD_LIBRARY_PATH="$SYSROOT/lib" \
  RUSTFLAGS="-Zmir-opt-level=0 -Zalways-encode-mir -Awarnings" \
  RUSTC_WORKSPACE_WRAPPER="$DRV" CARGO_TARGET_DIR="$TGT" \
  MIRFACTS_OUT="$OUT" MIRFACTS_CFG="$CFG" MIRFACTS_ROOTS="$HERE/roots.txt" \
  CARGO_NET_OFFLINE=true CARGO_PROFILE_DEV_DEBUG_ASSERTIONS=false CARGO_PROFILE_DEV_OVERFLOW_CHECKS=true \
  cargo +nightly check --offline "$@" >"$OUT/cargo.$CFG.log" 2>&1 || { tail -40 "$OUT/cargo.$CFG.log" >&2; exit 3; }
